//! C10, Zoned::round: the reference model (R-cal/R-num civil rounding + R-tz
//! resolution; real day length for Unit::Day) and the probe enumeration.

use crate::common::*;
use jiff::tz::TimeZone;
use jiff::{Timestamp, Unit, Zoned, ZonedRound};
use rayon::prelude::*;
use refmodel::cal;
use refmodel::num::{self, Mode};
use refmodel::tz as rtz;
use serde_json::json;
use std::collections::BTreeSet;
use std::sync::atomic::{AtomicU64, Ordering::Relaxed};
use vf::conv::{self, DAY_NS, NS};
use vf::zones::{Pair, ZoneSrc};
use vf::{guard, panic_sig, Report};

pub struct Lim {
    pub dt_max: i128,
    pub ts_min: i128,
    pub ts_max: i128,
}
impl Lim {
    pub fn new() -> Lim {
        Lim { dt_max: conv::dt_max_ns(), ts_min: conv::ts_min_ns(), ts_max: conv::ts_max_ns() }
    }
}

pub fn utoff_of_piece(z: &rtz::Zone, k: usize) -> i64 {
    z.infos[z.pieces[k].info as usize].utoff as i64
}

/// first instant (unix seconds) whose local date is epoch day `d`
pub fn first_instant_of_day(z: &rtz::Zone, d: i64) -> Option<i64> {
    let c = d * 86_400;
    let pre = z.preimages(c);
    if let Some(m) = pre.iter().map(|p| p.0).min() {
        return Some(m);
    }
    let g = z.gap_around(c);
    if g.len() == 1 {
        Some(z.pieces[g[0]].start)
    } else {
        None
    }
}

/// Is `civil_sec` within reach of a rule-generated (POSIX footer) transition
/// whose exact UTC instant, or one of whose two wall-clock readings, lies
/// outside the rule's own year? jiff evaluates POSIX rules per calendar year
/// and clamps (known finding F7, the subject of C03/C04); rounding says nothing
/// there. Same window as C04/C06.
pub fn near_crossing(z: &rtz::Zone, civil_sec: i64) -> bool {
    let i = z.piece_index_at(civil_sec);
    let lo = i.saturating_sub(4).max(1);
    let hi = (i + 4).min(z.pieces.len() - 1);
    for j in lo..=hi {
        let p = &z.pieces[j];
        if p.recorded {
            continue;
        }
        let o1 = z.infos[z.pieces[j - 1].info as usize].utoff as i64;
        let o2 = z.infos[p.info as usize].utoff as i64;
        let y0 = cal::days_from_civil(p.rule_year, 1, 1) * 86400;
        let y1 = cal::days_from_civil(p.rule_year + 1, 1, 1) * 86400;
        let pts = [p.start, p.start + o1, p.start + o2];
        let mn = *pts.iter().min().unwrap();
        let mx = *pts.iter().max().unwrap();
        let (a, b) = if mn < y0 {
            (mn, mx.max(y0))
        } else if mx >= y1 - 1 {
            (mn.min(y1 - 1), mx)
        } else {
            continue;
        };
        if civil_sec >= a - 94_000 - 90_000 && civil_sec <= b + 94_000 + 90_000 {
            return true;
        }
    }
    false
}

pub enum ZWant {
    Ok(i128),
    Err,
    Skip,
}

/// Sub-day rounding of the zoned instant with offset `off` and civil reading
/// `civil` to multiples of `b` ns (counted from midnight): round the civil
/// datetime, re-resolve keeping `off` iff still valid, else compatible.
/// Returns the expectation and whether the rounding carried into the next day.
pub fn model_subday(z: &rtz::Zone, l: &mut Loc, off: i64, civil: i128, b: i128, mm: Mode, lim: &Lim, fold_side: u8) -> (ZWant, bool) {
    let tod = civil.rem_euclid(DAY_NS);
    let day = civil.div_euclid(DAY_NS);
    let rt = num::round(tod, b, mm);
    let rc = day * DAY_NS + rt;
    let carry = rt == DAY_NS;
    if rc > lim.dt_max {
        return (ZWant::Err, carry);
    }
    let rc_sec = rc.div_euclid(NS) as i64;
    let frac = rc.rem_euclid(NS);
    let t0 = rc_sec - off;
    let tsec = if z.utoff_at(t0) as i64 == off {
        l.inc(C::ZKept);
        if fold_side == 2 {
            l.inc(C::ZFoldLaterSideKept);
        } else if fold_side == 1 {
            l.inc(C::ZFoldEarlierSideKept);
        }
        Some(t0)
    } else {
        let pre = z.preimages(rc_sec);
        if let Some(m) = pre.iter().map(|p| p.0).min() {
            l.inc(C::ZFold);
            Some(m)
        } else {
            let g = z.gap_around(rc_sec);
            if g.len() == 1 {
                l.inc(C::ZGap);
                if rc < civil {
                    l.inc(C::ZLandedInGapFromAfter);
                }
                Some(rc_sec - utoff_of_piece(z, g[0] - 1))
            } else {
                None
            }
        }
    };
    match tsec {
        None => (ZWant::Skip, carry),
        Some(s) => {
            let v = s as i128 * NS + frac;
            if v < lim.ts_min || v > lim.ts_max {
                (ZWant::Err, carry)
            } else {
                (ZWant::Ok(v), carry)
            }
        }
    }
}

/// Bounds [a, b) in ns of the civil day that contains instant `x` (civil
/// reading `civil`), from R-tz; None when they are not both representable or
/// `x` is outside its own civil day's first run.
pub fn model_day_bounds(z: &rtz::Zone, x: i128, civil: i128, lim: &Lim) -> Option<(i128, i128)> {
    let day = civil.div_euclid(DAY_NS) as i64;
    match (first_instant_of_day(z, day), first_instant_of_day(z, day + 1)) {
        (Some(a), Some(b)) => {
            let (a, b) = (a as i128 * NS, b as i128 * NS);
            if a >= lim.ts_min && b <= lim.ts_max && a <= x && x < b {
                Some((a, b))
            } else {
                None
            }
        }
        _ => None,
    }
}

/// does the day starting at instant `s` begin after a gap that straddles midnight?
pub fn straddles(z: &rtz::Zone, s: i128) -> bool {
    let wall = |t: i128| (t + z.utoff_at(t.div_euclid(NS) as i64) as i128 * NS).rem_euclid(DAY_NS);
    wall(s) != 0 && wall(s - 1) != DAY_NS - 1
}

/// what is read back from a rounded Zoned
struct ZOut {
    ts: i128,
    off: i64,
    civil: i128,
    same_tz: bool,
}
fn read_back(v: &Zoned, tz: &TimeZone) -> ZOut {
    ZOut { ts: v.timestamp().as_nanosecond(), off: v.offset().seconds() as i64, civil: conv::dt_civil_ns(v.datetime()), same_tz: v.time_zone() == tz }
}

/// the rounded value must be a Zoned of the same zone whose offset and civil
/// reading are the zone's at the result instant
fn check_result(r: &Report, l: &mut Loc, z: &rtz::Zone, op: &str, case: &dyn Fn() -> String, o: &ZOut) {
    let sec = o.ts.div_euclid(NS) as i64;
    let moff = z.utoff_at(sec) as i64;
    if near_crossing(z, sec + moff) {
        return;
    }
    l.inc(C::ZResultChecked);
    if !o.same_tz || o.off != moff || o.civil != o.ts + moff as i128 * NS {
        r.viol("zoned", &format!("{}/result-zone-offset-or-civil-inconsistent", op), case(), format!("result instant {} has offset {} civil {} same_zone {}; the zone's offset there is {}", conv::fmt_ns(o.ts), o.off, fmt_civil(o.civil), o.same_tz, moff));
    }
}

/// All roundings of one zoned instant. Returns the number of comparisons.
pub fn zoned_probe(r: &Report, l: &mut Loc, pair: &Pair, x: i128, cfgs: &[(usize, i64)], only_cfg: Option<(usize, i64)>, lim: &Lim) -> u64 {
    let z = &pair.model;
    let sec = x.div_euclid(NS) as i64;
    let off = z.utoff_at(sec) as i64;
    let civil = x + off as i128 * NS;
    if near_crossing(z, sec + off) {
        l.inc(C::ZSkipF7);
        return 0;
    }
    let zdt = match guard(|| Timestamp::from_nanosecond(x).unwrap().to_zoned(pair.jiff.clone())) {
        Ok(zd) => zd,
        Err(p) => {
            r.viol("zoned", &format!("Timestamp::to_zoned/{}", panic_sig(&p)), format!("Zoned {} {}", pair.name, conv::fmt_ns(x)), p);
            return 0;
        }
    };
    if zdt.offset().seconds() as i64 != off {
        // jiff and the model disagree on the offset in force at this instant:
        // that is C03's subject (F2), the rounding property says nothing here
        l.inc(C::ZSkipOffset);
        return 0;
    }
    // is the input inside a fold, and on which side?
    let fold_side: u8 = {
        let pre = z.preimages(civil.div_euclid(NS) as i64);
        if pre.len() >= 2 {
            let mn = pre.iter().map(|p| p.0).min().unwrap();
            if sec == mn {
                1
            } else {
                2
            }
        } else {
            0
        }
    };
    let mut n = 0u64;
    let day = civil.div_euclid(DAY_NS);
    let year = cal::civil_from_days(day as i64).0;
    let one = |u: usize, inc: i64, n: &mut u64, l: &mut Loc| {
        let b = inc as i128 * UNITS[u].2;
        let tod = civil.rem_euclid(DAY_NS);
        for (jm, mm, mname) in MODES {
            l.shape(Ty::Zoned, tod, b, inc, num::round(tod, b, mm));
            let (want, carry) = model_subday(z, l, off, civil, b, mm, lim, fold_side);
            let mut class: Option<&str> = None;
            if carry && year <= 0 {
                l.inc(C::ZCarryOldYear);
                class = Some("Zoned::round/day-carry:year<=0");
            }
            let want = match want {
                ZWant::Skip => {
                    l.inc(C::ZSkipAmb);
                    continue;
                }
                ZWant::Ok(v) => Want::Ok(v),
                ZWant::Err => Want::Err,
            };
            let case = || format!("Zoned {} {} ({}) round {}x{} {}", pair.name, conv::fmt_ns(x), fmt_civil(civil), inc, UNITS[u].1, mname);
            let got = guard(|| zdt.round(ZonedRound::new().smallest(UNITS[u].0).increment(inc).mode(jm)).ok().map(|v| read_back(&v, &pair.jiff)));
            let out = match &got {
                Ok(Some(o)) => Some(ZOut { ts: o.ts, off: o.off, civil: o.civil, same_tz: o.same_tz }),
                _ => None,
            };
            judge(r, l, "zoned", "Zoned::round", Leg::Legal, class, &case, got.map(|o| o.map(|o| o.ts)), want);
            if let (Some(o), Want::Ok(w)) = (out, want) {
                if o.ts == w {
                    check_result(r, l, z, "Zoned::round", &case, &o);
                }
            }
            *n += 1;
        }
    };
    match only_cfg {
        Some((u, inc)) => one(u, inc, &mut n, l),
        None => {
            for &(u, inc) in cfgs {
                one(u, inc, &mut n, l);
            }
        }
    }
    if only_cfg.is_some() {
        return n;
    }
    // Unit::Day
    let bounds = model_day_bounds(z, x, civil, lim);
    for (jm, mm, mname) in MODES {
        let case = || format!("Zoned {} {} ({}) round 1xd {}", pair.name, conv::fmt_ns(x), fmt_civil(civil), mname);
        let got = guard(|| zdt.round(ZonedRound::new().smallest(Unit::Day).mode(jm)).ok().map(|v| read_back(&v, &pair.jiff)));
        match bounds {
            None => {
                // day bounds not both representable / instant outside its own
                // civil day's first run: only "no panic" is demanded
                l.inc(C::ZSkipDay);
                if let Err(p) = got {
                    r.viol("zoned", &format!("Zoned::round(day)/{}", panic_sig(&p)), case(), p);
                }
            }
            Some((a, b)) => {
                let len = b - a;
                let res = a + num::round(x - a, len, mm);
                if len != DAY_NS {
                    l.inc(C::ZDayNot24);
                    if len > DAY_NS {
                        l.inc(C::ZDayLong);
                    } else {
                        l.inc(C::ZDayShort);
                    }
                }
                if (a + z.utoff_at(a.div_euclid(NS) as i64) as i128 * NS).rem_euclid(DAY_NS) != 0 {
                    l.inc(C::ZDayStartNotMidnight);
                }
                if res == b && x != a {
                    l.inc(C::ZDayUp);
                } else {
                    l.inc(C::ZDayDown);
                }
                // A day that begins right after a gap which itself began at 00:00
                // is handled (start of day = compatible resolution of midnight).
                // A gap that *straddles* midnight (began before 00:00, or skips
                // the whole previous day) is its own input class (F26): jiff
                // resolves midnight with the compatible strategy, which lands
                // later than the first instant of the day.
                let f26 = straddles(z, a) || straddles(z, b);
                if f26 {
                    l.inc(C::ZF26Class);
                }
                let class = if f26 { Some("Zoned::round(day)/day-or-next-day-begins-after-gap-straddling-midnight") } else { Some("Zoned::round(day)/value") };
                let out = match &got {
                    Ok(Some(o)) => Some(ZOut { ts: o.ts, off: o.off, civil: o.civil, same_tz: o.same_tz }),
                    _ => None,
                };
                judge(r, l, "zoned", "Zoned::round", Leg::Legal, class, &case, got.map(|o| o.map(|o| o.ts)), Want::Ok(res));
                if let Some(o) = out {
                    if o.ts == res {
                        check_result(r, l, z, "Zoned::round(day)", &case, &o);
                    }
                }
            }
        }
        n += 1;
    }
    n
}

/// zones outside the representative list that have a gap straddling midnight,
/// a skipped or a repeated civil day (same list as C06)
const EXTRA: &[&str] = &["America/Toronto", "Pacific/Kwajalein", "Asia/Manila", "America/Juneau", "Pacific/Kanton", "Asia/Pyongyang", "America/Havana", "Asia/Beirut"];

/// POSIX-string zones (no F7-prone rules) and fixed offsets
const POSIX: &[&str] = &["EST5EDT,M3.2.0,M11.1.0", "<+1030>-10:30<+11>-11,M10.1.0,M4.1.0", "IST-1GMT0,M10.5.0,M3.5.0/1", "AAA3:30:20BBB,M9.1.6/23:59:59,M4.2.3/0:00:01"];
const FIXED: &[i32] = &[0, -18_000, 20_700, 93_599, -93_599, 1];

/// all proper divisors of the next unit for every sub-day unit
fn cfgs_full() -> Vec<(usize, i64)> {
    (0..6).flat_map(|u| divisors(NEXT[u]).into_iter().filter(move |&i| i < NEXT[u]).map(move |i| (u, i))).collect()
}
/// a trimmed set that keeps 1, an even and odd increments > 1 for every unit,
/// and every legal increment for hours
fn cfgs_trimmed() -> Vec<(usize, i64)> {
    let mut v = vec![];
    for u in 0..3 {
        for i in [1i64, 2, 125] {
            v.push((u, i));
        }
    }
    for u in 3..5 {
        for i in [1i64, 2, 3, 15, 30] {
            v.push((u, i));
        }
    }
    for i in [1i64, 2, 3, 4, 6, 8, 12] {
        v.push((5, i));
    }
    v
}

pub fn zoned(r: &Report, t: &Tally, thorough: bool) {
    let lim = Lim::new();
    let (ts_min, ts_max) = (lim.ts_min, lim.ts_max);
    // ---- zone corpus ----
    let mut srcs: Vec<(ZoneSrc, bool)> = vf::zones::rep().into_iter().map(|z| (z, true)).collect();
    for n in EXTRA {
        if let Ok(bytes) = std::fs::read(format!("{}/{}", vf::zones::SYS_DIR, n)) {
            srcs.push((ZoneSrc { name: n.to_string(), origin: "sys".into(), bytes, aliases: vec![] }, true));
        }
    }
    let n_synth;
    {
        let s = vf::zones::synth("slim");
        let mut k = s.len();
        srcs.extend(s.into_iter().map(|z| (z, true)));
        if thorough {
            let f = vf::zones::synth("fat");
            k += f.len();
            srcs.extend(f.into_iter().map(|mut z| {
                z.name = format!("{}(fat)", z.name);
                (z, true)
            }));
        }
        n_synth = k;
    }
    if thorough {
        let have: BTreeSet<String> = srcs.iter().map(|z| z.0.name.clone()).collect();
        for z in vf::zones::sys(true) {
            if !have.contains(&z.name) {
                srcs.push((z, false));
            }
        }
    }
    let n_load_fail = AtomicU64::new(0);
    let mut pairs: Vec<(Pair, bool)> = srcs
        .par_iter()
        .filter_map(|(src, core)| match vf::zones::load_pair(src) {
            Ok(p) => Some((p, *core)),
            Err(e) => {
                n_load_fail.fetch_add(1, Relaxed);
                r.note(format!("zoned: zone {} ({}) not loadable: {}", src.name, src.origin, e));
                None
            }
        })
        .collect();
    for s in POSIX {
        match vf::zones::load_posix_pair(s) {
            Ok(p) => pairs.push((p, true)),
            Err(e) => {
                n_load_fail.fetch_add(1, Relaxed);
                r.note(format!("zoned: POSIX zone {} not loadable: {}", s, e));
            }
        }
    }
    for &o in FIXED {
        let jz = TimeZone::fixed(jiff::tz::Offset::from_seconds(o).unwrap());
        pairs.push((Pair { name: format!("fixed({}s)", o), origin: "fixed".into(), model: rtz::zone_fixed(o, "FIX"), jiff: jz }, true));
    }
    r.count("zoned_zones", pairs.len() as u64);
    r.count("zoned_zones_core(all increments in thorough)", pairs.iter().filter(|p| p.1).count() as u64);
    r.count("zoned_synthetic_zones", n_synth as u64);

    let full = cfgs_full();
    let trimmed = cfgs_trimmed();
    let legacy: Vec<(usize, i64)> = (0..6).flat_map(|u| [1i64, 2, 15, 30].into_iter().filter(move |&i| i < NEXT[u] && NEXT[u] % i == 0).map(move |i| (u, i))).collect();
    r.count("zoned_unit_increment_pairs_full", full.len() as u64);
    r.count("zoned_unit_increment_pairs_trimmed", trimmed.len() as u64);
    let n_trans = AtomicU64::new(0);

    pairs.par_iter().for_each(|(pair, core)| {
        let z = &pair.model;
        let core = *core;
        // which transitions: recorded ones always; rule-generated ones by year
        // (a POSIX-string zone has rule transitions in every year from -9999 on)
        let posix = pair.origin == "posix";
        let year_ok = |y: i64| -> bool {
            if posix {
                if thorough {
                    (1900..=2100).contains(&y) || y >= 9990 || y <= -9990 || y % 100 == 0
                } else {
                    (2000..=2030).contains(&y) || y >= 9998 || y % 1000 == 0
                }
            } else if thorough && core {
                // the representative and extra zones: every year (as before);
                // synthetic zones: the quick selection
                !pair.origin.starts_with("synth") || y <= 2100 || y >= 9990 || y % 100 == 0
            } else if thorough {
                y <= 2040
            } else {
                y <= 2100 || y >= 9990 || y % 100 == 0
            }
        };
        // quick: all increments only on the transitions of 2019..=2025 of two zones
        let quick_full_zone = pair.name == "America/New_York" || pair.name == "Australia/Lord_Howe" || pair.name == "Synth/B2B";
        let ks: Vec<usize> = z
            .changing()
            .into_iter()
            .filter(|&k| {
                let p = &z.pieces[k];
                if p.start < vf::zones::TS_MIN_SEC + 200_000 || p.start > vf::zones::TS_MAX_SEC - 200_000 {
                    return false;
                }
                p.recorded || year_ok(cal::civil_from_days(p.start.div_euclid(86_400)).0)
            })
            .collect();
        n_trans.fetch_add(ks.len() as u64, Relaxed);
        ks.par_iter().for_each(|&k| {
            let mut l = Loc::new();
            let tr = z.pieces[k].start;
            let ty = cal::civil_from_days(tr.div_euclid(86_400)).0;
            // rule-generated transitions of the years 2101..9989 (other than every
            // 100th): the alphabet this check had before its extension
            let far = !z.pieces[k].recorded && !(ty <= 2100 || ty >= 9990 || ty % 100 == 0);
            let cfgs: &[(usize, i64)] = if thorough {
                // all increments on core zones up to 2100 and at the far end
                if core && !far {
                    &full
                } else if far {
                    &legacy
                } else {
                    &trimmed
                }
            } else if quick_full_zone && ((2019..=2025).contains(&ty) || pair.name == "Synth/B2B") {
                &full
            } else {
                &trimmed
            };
            let ob = utoff_of_piece(z, k - 1);
            let oa = utoff_of_piece(z, k);
            // the civil days touched by the transition
            let mut days = BTreeSet::new();
            days.insert((tr - 1 + ob).div_euclid(86_400));
            days.insert((tr + oa).div_euclid(86_400));
            let mut probes: BTreeSet<i128> = BTreeSet::new();
            for &d in &days {
                if let (Some(s0), Some(s1)) = (first_instant_of_day(z, d), first_instant_of_day(z, d + 1)) {
                    if s1 > s0 {
                        let len = (s1 - s0) as i128 * NS;
                        let s = s0 as i128 * NS;
                        for x in [s - 1, s, s + 1, s + len / 4, s + len / 2 - 1, s + len / 2, s + len / 2 + 1, s + 3 * len / 4] {
                            probes.insert(x);
                        }
                        if !far {
                            probes.insert(s + len - 1);
                        }
                    }
                }
            }
            let trn = tr as i128 * NS;
            for x in [trn - 1, trn, trn + 1] {
                probes.insert(x);
            }
            // the far edges and the middle of the fold / of the stretch next to the gap
            let delta = (oa - ob).abs() as i128 * NS;
            if delta > 0 && !far {
                for x in [trn - delta - 1, trn - delta, trn - delta + 1, trn + delta - 1, trn + delta, trn + delta + 1, trn - delta / 2, trn + delta / 2] {
                    probes.insert(x);
                }
            }
            let mut n = 0u64;
            let mut states = 0u64;
            let mut run_probe = |x: i128, only_cfg: Option<(usize, i64)>, l: &mut Loc| {
                if x < ts_min || x > ts_max {
                    return;
                }
                states += 1;
                n += zoned_probe(r, l, pair, x, cfgs, only_cfg, &lim);
            };
            for &x in &probes {
                run_probe(x, None, &mut l);
            }
            // transition +- half an increment, for that (unit, increment) only
            for &(u, inc) in cfgs {
                let b = inc as i128 * UNITS[u].2;
                for x in [trn - b / 2, trn + b / 2] {
                    if b >= 2 && !probes.contains(&x) {
                        run_probe(x, Some((u, inc)), &mut l);
                    }
                }
            }
            l.flush(t);
            r.add_states(states);
            r.add_transitions(n);
            r.add_validated(n);
        });
        // per-zone probes that do not depend on a transition
        if core {
            let mut l = Loc::new();
            let cfgs: &[(usize, i64)] = if thorough { &full } else { &trimmed };
            let mut xs: BTreeSet<i128> = [ts_min, ts_min + 1, ts_max - 1, ts_max].into_iter().collect();
            for ts in vf::pools::timestamps() {
                xs.insert(ts.as_nanosecond());
            }
            // civil readings in years <= 0 (and the last day of -9999 / first of 1):
            // 23:59:59.5 and 23:30 carry into the next day, month and year
            for (y, m, d) in [(0i64, 12i64, 31i64), (0, 2, 29), (0, 1, 1), (-1, 12, 31), (-1, 2, 28), (-4, 2, 29), (-9999, 12, 31), (1, 1, 1), (-100, 6, 30)] {
                let day = cal::days_from_civil(y, m, d) as i128;
                for tod in [0, 1, DAY_NS / 2, DAY_NS - 1_800 * NS, DAY_NS - NS / 2, DAY_NS - 1] {
                    let c = day * DAY_NS + tod;
                    let o = z.utoff_at(c.div_euclid(NS) as i64) as i128;
                    xs.insert(c - o * NS);
                }
            }
            let mut n = 0;
            let mut states = 0;
            for x in xs {
                if x < ts_min || x > ts_max {
                    continue;
                }
                states += 1;
                n += zoned_probe(r, &mut l, pair, x, cfgs, None, &lim);
            }
            l.flush(t);
            r.add_states(states);
            r.add_transitions(n);
            r.add_validated(n);
        }
    });
    r.sample(json!({"case": "Zoned America/Sao_Paulo 2015-10-18T12:40-02:00 round 1xd HalfExpand", "model": "day runs 01:00..24:00 (23h), 11h40m elapsed > half, so 2015-10-19T00:00-02:00"}));
    r.count("zoned_transitions_probed", n_trans.load(Relaxed));
    r.count("zoned_zones_not_loadable", n_load_fail.load(Relaxed));
    r.note(format!(
        "zoned: {} zones (representative + {} zones with gaps straddling midnight / skipped / repeated days + synthetic zic zones + POSIX strings + fixed offsets{}); every transition day probed at start-of-day (+-1ns), 1/4, 1/2 (+-1ns), 3/4 of its real length, its last ns, at the transition (+-1ns, +-inc/2), at the far edges of the fold/gap (+-1ns) and in its middle; per core zone also the type limits, the timestamp pool and civil readings in years <= 0; sub-day units x increments ({} pairs on core zones in thorough / on 2019..2025 of three zones in quick, {} otherwise; thorough keeps the former alphabet {{1,2,15,30}} and probe set for the rule-generated transitions of 2101..9989) x 9 modes, and Unit::Day x 9 modes; the result's zone, offset and civil reading are checked too",
        pairs.len(),
        EXTRA.len(),
        if thorough { " + every other installed zone" } else { "" },
        full.len(),
        trimmed.len()
    ));
}

/// `Zoned::round` through every way of building a `ZonedRound`.
pub fn zoned_options(r: &Report, t: &Tally) {
    let lim = Lim::new();
    let srcs: Vec<ZoneSrc> = vf::zones::rep().into_iter().filter(|z| z.name == "America/New_York" || z.name == "UTC" || z.name == "Australia/Lord_Howe").collect();
    let pairs: Vec<Pair> = srcs.iter().filter_map(|s| vf::zones::load_pair(s).ok()).collect();
    let cfgs: Vec<(usize, i64)> = vec![(0, 1), (0, 125), (1, 5), (2, 2), (3, 1), (3, 15), (4, 1), (4, 3), (4, 30), (5, 1), (5, 3), (5, 12), (6, 1), (3, 7), (4, 60), (5, 24), (6, 2), (3, 0), (4, -5)];
    pairs.par_iter().for_each(|pair| {
        let z = &pair.model;
        let mut l = Loc::new();
        let mut n = 0u64;
        // instants: around the 2024 transitions of the zone (or of New York's, for UTC)
        let mut xs: BTreeSet<i128> = BTreeSet::new();
        for base in [1_710_054_000i128, 1_730_613_600, 1_728_142_200, 1_712_417_400, 0, -1] {
            for d in [-5_400 * NS - 1, -1_800 * NS, -1, 0, 1, 900 * NS, 1_800 * NS, 5_400 * NS + 500_000_000, 43_200 * NS] {
                xs.insert(base * NS + d);
            }
        }
        for &x in &xs {
            let sec = x.div_euclid(NS) as i64;
            let off = z.utoff_at(sec) as i64;
            let civil = x + off as i128 * NS;
            let zdt = Timestamp::from_nanosecond(x).unwrap().to_zoned(pair.jiff.clone());
            if zdt.offset().seconds() as i64 != off {
                continue;
            }
            for &(u, inc) in &cfgs {
                for (mi, (jm, _mm, mname)) in MODES.iter().enumerate() {
                    for how in HOWS {
                        if !how.uses_mode() && mi != 0 {
                            continue;
                        }
                        let (eu, einc, em) = how.effective(u, inc, mi, 0);
                        let exp = expect(Ty::Zoned, eu, einc);
                        let (ou, oi, om) = (if u == 5 { Unit::Second } else { Unit::Hour }, 7i64, MODES[(mi + 4) % 9].0);
                        let unit = UNITS[u].0;
                        let got = guard(|| crate::c10_round!(zdt, ZonedRound, how, unit, inc, *jm, ou, oi, om).ok().map(|v| v.timestamp().as_nanosecond()));
                        let case = || format!("Zoned {} {} ({}) round via {} unit={} inc={} mode={}", pair.name, conv::fmt_ns(x), fmt_civil(civil), how.name(), UNITS[u].1, inc, mname);
                        let op = format!("Zoned::round({})", how.class());
                        n += 1;
                        match exp {
                            Exp::Reject | Exp::RejectEqualNext => match got {
                                Ok(None) => l.inc(C::OptRejected),
                                Ok(Some(v)) => r.viol("options", &format!("{}/illegal-increment-or-unit-not-rejected", op), case(), format!("jiff Ok({})", v)),
                                Err(p) => r.viol("options", &format!("{}/{}", op, panic_sig(&p)), case(), p),
                            },
                            Exp::Between => {}
                            Exp::Legal => {
                                let mm = MODES[em].1;
                                let want = if eu == 6 {
                                    match model_day_bounds(z, x, civil, &lim) {
                                        Some((a, b)) if !(straddles(z, a) || straddles(z, b)) => Want::Ok(a + num::round(x - a, b - a, mm)),
                                        _ => continue,
                                    }
                                } else {
                                    match model_subday(z, &mut l, off, civil, einc as i128 * UNITS[eu].2, mm, &lim, 0).0 {
                                        ZWant::Ok(v) => Want::Ok(v),
                                        ZWant::Err => Want::Err,
                                        ZWant::Skip => continue,
                                    }
                                };
                                l.inc(how.counter());
                                judge(r, &mut l, "options", &op, Leg::Legal, None, &case, got, want);
                            }
                        }
                    }
                }
            }
        }
        l.flush(t);
        r.add_states(xs.len() as u64);
        r.add_transitions(n);
        r.add_validated(n);
    });
}
