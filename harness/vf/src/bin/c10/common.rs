//! C10 shared pieces: unit/mode tables, increment classification, value pools,
//! tallies and the judge.

use jiff::{RoundMode, Unit};
use refmodel::cal;
use refmodel::num::Mode;
use std::collections::BTreeSet;
use std::sync::atomic::{AtomicU64, Ordering::Relaxed};
use vf::conv::{DAY_NS, NS};
use vf::{panic_sig, Report};

pub const MODES: [(RoundMode, Mode, &str); 9] = [
    (RoundMode::Ceil, Mode::Ceil, "Ceil"),
    (RoundMode::Floor, Mode::Floor, "Floor"),
    (RoundMode::Expand, Mode::Expand, "Expand"),
    (RoundMode::Trunc, Mode::Trunc, "Trunc"),
    (RoundMode::HalfCeil, Mode::HalfCeil, "HalfCeil"),
    (RoundMode::HalfFloor, Mode::HalfFloor, "HalfFloor"),
    (RoundMode::HalfExpand, Mode::HalfExpand, "HalfExpand"),
    (RoundMode::HalfTrunc, Mode::HalfTrunc, "HalfTrunc"),
    (RoundMode::HalfEven, Mode::HalfEven, "HalfEven"),
];
/// index of the documented default mode
pub const HALF_EXPAND: usize = 6;

/// index 0..=6: ns us ms s min h d
pub const UNITS: [(Unit, &str, i128); 7] = [
    (Unit::Nanosecond, "ns", 1),
    (Unit::Microsecond, "us", 1_000),
    (Unit::Millisecond, "ms", 1_000_000),
    (Unit::Second, "s", NS),
    (Unit::Minute, "min", 60 * NS),
    (Unit::Hour, "h", 3_600 * NS),
    (Unit::Day, "d", DAY_NS),
];
/// size of the next larger unit, in this unit
pub const NEXT: [i64; 6] = [1_000, 1_000, 1_000, 60, 60, 24];
pub const BIG_UNITS: [(Unit, &str); 4] = [(Unit::Day, "d"), (Unit::Week, "w"), (Unit::Month, "mo"), (Unit::Year, "y")];

#[derive(Clone, Copy, PartialEq, Eq, Debug)]
pub enum Leg {
    /// legal under both readings: must be accepted
    Legal,
    /// legal under one reading only: accepted or rejected, but never wrong
    Between,
}

#[derive(Clone, Copy, PartialEq, Eq, Debug)]
pub enum Ty {
    Timestamp = 0,
    SignedDuration = 1,
    Offset = 2,
    Time = 3,
    DateTime = 4,
    Zoned = 5,
}
pub const TY_NAMES: [&str; 6] = ["Timestamp", "SignedDuration", "Offset", "Time", "DateTime", "Zoned"];

pub fn divisors(n: i64) -> Vec<i64> {
    let mut v = vec![];
    let mut d = 1i64;
    while d * d <= n {
        if n % d == 0 {
            v.push(d);
            if d != n / d {
                v.push(n / d);
            }
        }
        d += 1;
    }
    v.sort();
    v
}

/// every increment that is legal under at least one reading
pub fn increments(ty: Ty, u: usize) -> Vec<(i64, Leg)> {
    if u == 6 {
        return vec![(1, Leg::Legal)];
    }
    let next = NEXT[u];
    let mut v: Vec<(i64, Leg)> = divisors(next).into_iter().map(|d| (d, if d < next { Leg::Legal } else { Leg::Between })).collect();
    if ty == Ty::Timestamp {
        let day = (DAY_NS / UNITS[u].2) as i64;
        for d in divisors(day) {
            if next % d != 0 {
                v.push((d, Leg::Between));
            }
        }
    }
    v
}

/// must this increment be rejected under both readings?
pub fn must_reject(ty: Ty, u: usize, inc: i64) -> bool {
    if inc <= 0 {
        return true;
    }
    if u == 6 {
        return inc != 1;
    }
    if ty == Ty::Timestamp {
        let day = (DAY_NS / UNITS[u].2) as i64;
        day % inc != 0
    } else {
        NEXT[u] % inc != 0
    }
}

pub fn inc_class(inc: i64) -> &'static str {
    if inc == 0 {
        "inc=0"
    } else if inc < 0 {
        "inc<0"
    } else {
        "non-divisor"
    }
}

/// does the type's documentation permit rounding to this unit at all?
pub fn unit_ok(ty: Ty, u: usize) -> bool {
    match ty {
        Ty::Offset => (3..=5).contains(&u),
        Ty::DateTime | Ty::Zoned => u <= 6,
        _ => u <= 5,
    }
}

/// What the property together with the type's documentation says about one
/// (unit, increment) configuration.
#[derive(Clone, Copy, PartialEq, Eq, Debug)]
pub enum Exp {
    /// proper divisor of the next larger unit (day: 1): accepted and right
    Legal,
    /// <= 0, or not a divisor (Timestamp: of a 24-hour day), or a unit the type excludes
    Reject,
    /// equal to the next larger unit; every type but Timestamp documents
    /// "must also not be equal to the next highest unit"
    RejectEqualNext,
    /// Timestamp only: divides a 24-hour day but is not a proper divisor of the
    /// next unit (the documentation allows it, the property's wording does not)
    Between,
}

pub fn expect(ty: Ty, u: usize, inc: i64) -> Exp {
    if !unit_ok(ty, u) || must_reject(ty, u, inc) {
        return Exp::Reject;
    }
    if u == 6 {
        return Exp::Legal;
    }
    if inc < NEXT[u] && NEXT[u] % inc == 0 {
        return Exp::Legal;
    }
    if ty == Ty::Timestamp {
        return Exp::Between;
    }
    debug_assert_eq!(inc, NEXT[u]);
    Exp::RejectEqualNext
}

/// k*b, k*b +-1, (k+1/2)*b, (k+1/2)*b +-1 for k in -3..=2 (for odd b the two
/// integers straddling the half and their neighbours)
pub fn offsets(b: i128) -> BTreeSet<i128> {
    offsets_at(b, 0, 3)
}

/// the same shape around the multiple of `b` at or below `center`, k in -kr..kr
pub fn offsets_at(b: i128, center: i128, kr: i128) -> BTreeSet<i128> {
    let mut s = BTreeSet::new();
    let c0 = center.div_euclid(b) * b;
    for k in -kr..kr {
        let m = c0 + k * b;
        for x in [m - 1, m, m + 1] {
            s.insert(x);
        }
        let h = m + b / 2;
        if b % 2 == 0 {
            for x in [h - 1, h, h + 1] {
                s.insert(x);
            }
        } else {
            for x in [h - 1, h, h + 1, h + 2] {
                s.insert(x);
            }
        }
    }
    s
}

/// values at and around the limits lo..=hi of a type, for step b
pub fn near_limits(b: i128, lo: i128, hi: i128) -> BTreeSet<i128> {
    let mut s = BTreeSet::new();
    for x in [lo, lo + 1, hi - 1, hi] {
        s.insert(x);
    }
    let m_hi = hi.div_euclid(b) * b;
    let m_lo = -((-lo).div_euclid(b) * b);
    for m in [m_hi, m_lo] {
        for d in [0, 1, b / 2 - 1, b / 2, b / 2 + 1, b / 2 + 2] {
            s.insert(m + d);
            s.insert(m - d);
        }
    }
    s.retain(|x| *x >= lo && *x <= hi);
    s
}

// ---------------------------------------------------------------------------
// tallies
// ---------------------------------------------------------------------------

#[derive(Clone, Copy)]
#[repr(usize)]
pub enum C {
    Ok,
    Err,
    Ties,
    Up,
    Down,
    Carried,
    Wrapped,
    BetweenAcc,
    BetweenRej,
    RejectedOk,
    ZKept,
    ZFold,
    ZGap,
    ZDayUp,
    ZDayDown,
    ZDayNot24,
    ZSkipOffset,
    ZSkipDay,
    ZSkipAmb,
    F5,
    // ---- added by the coverage extension ----
    ZSkipF7,
    ZF26Class,
    ZCarryOldYear,
    ZResultChecked,
    ZLandedInGapFromAfter,
    ZFoldLaterSideKept,
    ZFoldEarlierSideKept,
    ZDayStartNotMidnight,
    ZDayLong,
    ZDayShort,
    TsNormChecked,
    IncLegalAccepted,
    IncNonDivisorRejected,
    IncEqualNextRejected,
    IncBetweenAccepted,
    IncBetweenRejected,
    OptFromUnit,
    OptFromTuple,
    OptPerm,
    OptDefaults,
    OptOverwrite,
    OptRejected,
    DiffIllegalRejected,
    N,
}
pub const NC: usize = C::N as usize;
pub const C_NAMES: [&str; NC] = [
    "results_in_range",
    "results_out_of_range_err",
    "exact_ties",
    "rounded_up",
    "rounded_down",
    "datetime_carried_into_next_day",
    "time_wrapped_to_midnight",
    "in_between_increment_accepted",
    "in_between_increment_rejected",
    "illegal_increment_or_unit_rejected",
    "zoned_original_offset_kept",
    "zoned_compatible_in_fold_or_unique",
    "zoned_compatible_in_gap",
    "zoned_day_rounded_up",
    "zoned_day_rounded_down",
    "zoned_day_length_not_24h",
    "zoned_skipped_offset_disagrees_with_model(C03)",
    "zoned_skipped_day_bounds_undefined",
    "zoned_skipped_resolution_undefined",
    "datetime_carry_with_year<=0",
    "zoned_skipped_near_rule_transition_outside_its_year(F7)",
    "zoned_day_bounds_after_gap_straddling_midnight(F26_class)",
    "zoned_carry_into_next_day_with_year<=0",
    "zoned_result_zone_offset_civil_checked",
    "zoned_rounded_down_into_gap_from_after",
    "zoned_fold_later_side_offset_kept",
    "zoned_fold_earlier_side_offset_kept",
    "zoned_day_not_starting_at_midnight",
    "zoned_day_longer_than_24h",
    "zoned_day_shorter_than_24h",
    "timestamp_result_normalisation_checked",
    "increments_legal_accepted",
    "increments_non_divisor_rejected",
    "increments_equal_to_next_unit_rejected",
    "increments_between_accepted(Timestamp)",
    "increments_between_rejected(Timestamp)",
    "options_from_unit_compared",
    "options_from_tuple_compared",
    "options_builder_orders_compared",
    "options_new_default_compared",
    "options_setter_overwrite_compared",
    "options_illegal_rejected",
    "difference_illegal_increment_rejected",
];

pub struct Tally {
    pub c: [AtomicU64; NC],
    /// exact ties with an odd increment > 1, per type
    pub odd_ties: [AtomicU64; 6],
    /// exact ties with an odd multiple below (quotient parity), per type
    pub odd_quot_ties: [AtomicU64; 6],
}
impl Tally {
    pub fn new() -> Tally {
        Tally { c: std::array::from_fn(|_| AtomicU64::new(0)), odd_ties: std::array::from_fn(|_| AtomicU64::new(0)), odd_quot_ties: std::array::from_fn(|_| AtomicU64::new(0)) }
    }
    pub fn get(&self, c: C) -> u64 {
        self.c[c as usize].load(Relaxed)
    }
}

/// thread-local tally, flushed once per parallel task
pub struct Loc {
    pub c: [u64; NC],
    pub odd_ties: [u64; 6],
    pub odd_quot_ties: [u64; 6],
}
impl Loc {
    pub fn new() -> Loc {
        Loc { c: [0; NC], odd_ties: [0; 6], odd_quot_ties: [0; 6] }
    }
    #[inline]
    pub fn inc(&mut self, c: C) {
        self.c[c as usize] += 1;
    }
    pub fn flush(&mut self, t: &Tally) {
        for i in 0..NC {
            if self.c[i] != 0 {
                t.c[i].fetch_add(self.c[i], Relaxed);
                self.c[i] = 0;
            }
        }
        for i in 0..6 {
            if self.odd_ties[i] != 0 {
                t.odd_ties[i].fetch_add(self.odd_ties[i], Relaxed);
                self.odd_ties[i] = 0;
            }
            if self.odd_quot_ties[i] != 0 {
                t.odd_quot_ties[i].fetch_add(self.odd_quot_ties[i], Relaxed);
                self.odd_quot_ties[i] = 0;
            }
        }
    }
    /// shape of one rounding: x to a multiple of b gave res; `inc` is the increment
    #[inline]
    pub fn shape(&mut self, ty: Ty, x: i128, b: i128, inc: i64, res: i128) {
        if 2 * x.rem_euclid(b) == b {
            self.inc(C::Ties);
            if inc > 1 && inc % 2 == 1 {
                self.odd_ties[ty as usize] += 1;
            }
            if x.div_euclid(b).rem_euclid(2) == 1 {
                self.odd_quot_ties[ty as usize] += 1;
            }
        }
        if res > x {
            self.inc(C::Up);
        } else if res < x {
            self.inc(C::Down);
        }
    }
}

#[derive(Clone, Copy, PartialEq, Eq, Debug)]
pub enum Want {
    Ok(i128),
    Err,
}

/// Compare one rounding call with the model.
/// `got`: Err(panic) | Ok(None) = jiff returned Err | Ok(Some(v)).
/// `op`: the API operation part of the signature (`"Timestamp::round"`).
/// `class`: an input-derived signature that overrides the generic ones.
pub fn judge(r: &Report, l: &mut Loc, sec: &str, op: &str, leg: Leg, class: Option<&str>, case: &dyn Fn() -> String, got: Result<Option<i128>, String>, want: Want) {
    let sig = |generic: &str| -> String {
        match class {
            Some(c) => c.to_string(),
            None => format!("{}/{}", op, generic),
        }
    };
    match (got, want) {
        (Err(p), w) => {
            let s = match class {
                Some(c) => c.to_string(),
                None => format!("{}/{}", op, panic_sig(&p)),
            };
            r.viol(sec, &s, case(), format!("jiff panic {} model {:?}", p, w));
        }
        (Ok(None), Want::Err) => {
            l.inc(C::Err);
        }
        (Ok(None), Want::Ok(w)) => {
            if leg == Leg::Between {
                l.inc(C::BetweenRej);
            } else {
                r.viol(sec, &sig("err-but-result-in-range"), case(), format!("jiff Err model Ok({})", w));
            }
        }
        (Ok(Some(g)), Want::Err) => {
            r.viol(sec, &sig("result-out-of-range-not-Err"), case(), format!("jiff Ok({}) model Err (out of range)", g));
        }
        (Ok(Some(g)), Want::Ok(w)) => {
            if leg == Leg::Between {
                l.inc(C::BetweenAcc);
            }
            l.inc(C::Ok);
            if g != w {
                r.viol(sec, &sig("value"), case(), format!("jiff {} model {}", g, w));
            }
        }
    }
}

pub fn fmt_civil(ns: i128) -> String {
    let day = ns.div_euclid(DAY_NS);
    let tod = ns.rem_euclid(DAY_NS);
    let (y, m, d) = cal::civil_from_days(day as i64);
    let s = tod / NS;
    format!("{}-{:02}-{:02}T{:02}:{:02}:{:02}.{:09}", y, m, d, s / 3600, (s / 60) % 60, s % 60, tod % NS)
}

// ---------------------------------------------------------------------------
// the ways the API lets one build a rounding configuration
// ---------------------------------------------------------------------------

#[derive(Clone, Copy, PartialEq, Eq, Debug)]
pub enum How {
    /// `R::new()` + the three setters in one of the 6 orders
    Perm(u8),
    /// `x.round(unit)` (`From<Unit>`): increment 1, HalfExpand
    FromUnit,
    /// `x.round((unit, inc))` (`From<(Unit, i64)>`): HalfExpand
    FromTuple,
    /// `R::from(unit).mode(m)`
    FromUnitMode,
    /// `R::from((unit, inc)).mode(m)`
    FromTupleMode,
    /// `R::new().smallest(unit)`: increment 1, HalfExpand
    NewSmallest,
    /// `R::new().increment(inc)`: default unit, HalfExpand
    NewIncrement,
    /// `R::new().mode(m)`: default unit, increment 1
    NewMode,
    /// `R::default()` + the three setters
    DefaultFull,
    /// other values set first, then overwritten by the three setters
    Overwrite,
}
pub const HOWS: [How; 15] = [
    How::Perm(0),
    How::Perm(1),
    How::Perm(2),
    How::Perm(3),
    How::Perm(4),
    How::Perm(5),
    How::FromUnit,
    How::FromTuple,
    How::FromUnitMode,
    How::FromTupleMode,
    How::NewSmallest,
    How::NewIncrement,
    How::NewMode,
    How::DefaultFull,
    How::Overwrite,
];
impl How {
    pub fn name(self) -> &'static str {
        match self {
            How::Perm(0) => "new().smallest().increment().mode()",
            How::Perm(1) => "new().smallest().mode().increment()",
            How::Perm(2) => "new().increment().smallest().mode()",
            How::Perm(3) => "new().increment().mode().smallest()",
            How::Perm(4) => "new().mode().smallest().increment()",
            How::Perm(_) => "new().mode().increment().smallest()",
            How::FromUnit => "From<Unit>",
            How::FromTuple => "From<(Unit,i64)>",
            How::FromUnitMode => "From<Unit>.mode()",
            How::FromTupleMode => "From<(Unit,i64)>.mode()",
            How::NewSmallest => "new().smallest()",
            How::NewIncrement => "new().increment()",
            How::NewMode => "new().mode()",
            How::DefaultFull => "default().smallest().increment().mode()",
            How::Overwrite => "setters-called-twice",
        }
    }
    /// signature class (narrow, but not one per order)
    pub fn class(self) -> &'static str {
        match self {
            How::Perm(_) => "builder-order",
            How::FromUnit | How::FromUnitMode => "From<Unit>",
            How::FromTuple | How::FromTupleMode => "From<(Unit,i64)>",
            How::NewSmallest | How::NewIncrement | How::NewMode | How::DefaultFull => "new/default-values",
            How::Overwrite => "setter-overwrite",
        }
    }
    pub fn counter(self) -> C {
        match self {
            How::Perm(_) => C::OptPerm,
            How::FromUnit | How::FromUnitMode => C::OptFromUnit,
            How::FromTuple | How::FromTupleMode => C::OptFromTuple,
            How::NewSmallest | How::NewIncrement | How::NewMode | How::DefaultFull => C::OptDefaults,
            How::Overwrite => C::OptOverwrite,
        }
    }
    pub fn uses_mode(self) -> bool {
        !matches!(self, How::FromUnit | How::FromTuple | How::NewSmallest | How::NewIncrement)
    }
    /// the (unit, increment, mode) the documentation says this construction means
    pub fn effective(self, u: usize, inc: i64, m: usize, def_u: usize) -> (usize, i64, usize) {
        match self {
            How::Perm(_) | How::DefaultFull | How::Overwrite | How::FromTupleMode => (u, inc, m),
            How::FromUnit | How::NewSmallest => (u, 1, HALF_EXPAND),
            How::FromTuple => (u, inc, HALF_EXPAND),
            How::FromUnitMode => (u, 1, m),
            How::NewIncrement => (def_u, inc, HALF_EXPAND),
            How::NewMode => (def_u, 1, m),
        }
    }
}

/// Build a `$R` (one of the six `*Round` types) the way `$how` says.
#[macro_export]
macro_rules! c10_opts {
    ($R:ident, $how:expr, $u:expr, $i:expr, $m:expr, $ou:expr, $oi:expr, $om:expr) => {
        match $how {
            How::Perm(0) => $R::new().smallest($u).increment($i).mode($m),
            How::Perm(1) => $R::new().smallest($u).mode($m).increment($i),
            How::Perm(2) => $R::new().increment($i).smallest($u).mode($m),
            How::Perm(3) => $R::new().increment($i).mode($m).smallest($u),
            How::Perm(4) => $R::new().mode($m).smallest($u).increment($i),
            How::Perm(_) => $R::new().mode($m).increment($i).smallest($u),
            How::FromUnit => $R::from($u),
            How::FromTuple => $R::from(($u, $i)),
            How::FromUnitMode => $R::from($u).mode($m),
            How::FromTupleMode => $R::from(($u, $i)).mode($m),
            How::NewSmallest => $R::new().smallest($u),
            How::NewIncrement => $R::new().increment($i),
            How::NewMode => $R::new().mode($m),
            How::DefaultFull => $R::default().smallest($u).increment($i).mode($m),
            How::Overwrite => $R::new().smallest($ou).increment($oi).mode($om).smallest($u).increment($i).mode($m),
        }
    };
}

/// `$v.round(..)` with the options built as `$how` says; `From<Unit>` and
/// `From<(Unit, i64)>` go through `round`'s own `Into` bound.
#[macro_export]
macro_rules! c10_round {
    ($v:expr, $R:ident, $how:expr, $u:expr, $i:expr, $m:expr, $ou:expr, $oi:expr, $om:expr) => {
        match $how {
            How::FromUnit => $v.round($u),
            How::FromTuple => $v.round(($u, $i)),
            h => $v.round($crate::c10_opts!($R, h, $u, $i, $m, $ou, $oi, $om)),
        }
    };
}
