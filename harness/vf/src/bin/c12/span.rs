//! Span: per-unit limits, the one-sign rule, negate/abs/checked_mul,
//! fieldwise equality/hash and conversions to/from exact durations.
//!
//! Model: ten magnitudes plus one sign. Documented rules encoded (src/span.rs,
//! type-level docs "The sign of a span applies to the entire span"):
//!  * a unit value within its limit is stored exactly, otherwise refused;
//!  * setting a negative value makes the whole span negative;
//!  * setting a non-negative value on a non-zero span keeps the span's sign;
//!  * setting a positive value on a zero span makes it positive;
//!  * a span is zero iff all units are zero.
//! Not stated by the documentation and therefore not judged: the sign after
//! overwriting the *only* non-zero, negative unit with a positive value.

use super::{ds, fits, hash_of, judge, show, NS};
use jiff::civil::{Date, DateTime};
use jiff::{SignedDuration, Span, SpanArithmetic, SpanRelativeTo, SpanRound, SpanTotal, Unit};
use rayon::prelude::*;
use std::sync::atomic::{AtomicU64, Ordering};
use refmodel::cal;
use serde_json::json;
use std::time::Duration;
use vf::{guard, panic_sig, Report};

type Set = fn(Span, i64) -> Span;
type TrySet = fn(Span, i64) -> Result<Span, jiff::Error>;
type Get = fn(&Span) -> i64;

pub struct UnitDef {
    pub name: &'static str,
    pub limit: i64,
    pub set: Set,
    pub try_set: TrySet,
    pub get: Get,
    /// nanoseconds per unit for invariant units (None for years/months)
    pub ns: Option<i128>,
}

pub const UNITS: [UnitDef; 10] = [
    UnitDef { name: "years", limit: 19_998, set: |s, v| s.years(v), try_set: |s, v| s.try_years(v), get: |s| s.get_years() as i64, ns: None },
    UnitDef { name: "months", limit: 239_976, set: |s, v| s.months(v), try_set: |s, v| s.try_months(v), get: |s| s.get_months() as i64, ns: None },
    UnitDef { name: "weeks", limit: 1_043_497, set: |s, v| s.weeks(v), try_set: |s, v| s.try_weeks(v), get: |s| s.get_weeks() as i64, ns: Some(7 * 86_400 * NS) },
    UnitDef { name: "days", limit: 7_304_484, set: |s, v| s.days(v), try_set: |s, v| s.try_days(v), get: |s| s.get_days() as i64, ns: Some(86_400 * NS) },
    UnitDef { name: "hours", limit: 175_307_616, set: |s, v| s.hours(v), try_set: |s, v| s.try_hours(v), get: |s| s.get_hours() as i64, ns: Some(3_600 * NS) },
    UnitDef { name: "minutes", limit: 10_518_456_960, set: |s, v| s.minutes(v), try_set: |s, v| s.try_minutes(v), get: |s| s.get_minutes(), ns: Some(60 * NS) },
    UnitDef { name: "seconds", limit: 631_107_417_600, set: |s, v| s.seconds(v), try_set: |s, v| s.try_seconds(v), get: |s| s.get_seconds(), ns: Some(NS) },
    UnitDef { name: "milliseconds", limit: 631_107_417_600_000, set: |s, v| s.milliseconds(v), try_set: |s, v| s.try_milliseconds(v), get: |s| s.get_milliseconds(), ns: Some(1_000_000) },
    UnitDef { name: "microseconds", limit: 631_107_417_600_000_000, set: |s, v| s.microseconds(v), try_set: |s, v| s.try_microseconds(v), get: |s| s.get_microseconds(), ns: Some(1_000) },
    UnitDef { name: "nanoseconds", limit: i64::MAX, set: |s, v| s.nanoseconds(v), try_set: |s, v| s.try_nanoseconds(v), get: |s| s.get_nanoseconds(), ns: Some(1) },
];

/// The model span: signed unit values (all non-zero ones share `sign`).
#[derive(Clone, Copy, Debug, PartialEq, Eq, Hash)]
pub struct M {
    pub mag: [i128; 10],
    pub sign: i8,
}

impl M {
    pub fn zero() -> M {
        M { mag: [0; 10], sign: 0 }
    }
    pub fn vals(&self) -> [i128; 10] {
        let mut v = [0i128; 10];
        for i in 0..10 {
            v[i] = self.mag[i] * self.sign as i128;
        }
        v
    }
    /// Set unit `u` to `v` (|v| within the limit). Returns None where the
    /// documentation does not determine the sign.
    pub fn set(&self, u: usize, v: i128) -> Option<M> {
        let mut m = *self;
        m.mag[u] = v.abs();
        let all_zero = m.mag.iter().all(|&x| x == 0);
        if v < 0 {
            m.sign = -1;
        } else if all_zero {
            m.sign = 0;
        } else if self.sign == 0 {
            m.sign = 1;
        } else {
            // non-negative value on a non-zero span: the sign is kept. If the
            // span was negative only through this very unit and the new value
            // is positive, the documentation is silent.
            let others_zero = (0..10).all(|i| i == u || self.mag[i] == 0);
            if v > 0 && self.sign < 0 && others_zero {
                return None;
            }
            m.sign = self.sign;
        }
        Some(m)
    }
    pub fn show(&self) -> String {
        let v = self.vals();
        let parts: Vec<String> = (0..10).filter(|&i| v[i] != 0).map(|i| format!("{}={}", UNITS[i].name, v[i])).collect();
        if parts.is_empty() {
            "zero".into()
        } else {
            parts.join(",")
        }
    }
}

fn getters(s: &Span) -> [i128; 10] {
    let mut v = [0i128; 10];
    for i in 0..10 {
        v[i] = (UNITS[i].get)(s) as i128;
    }
    v
}

/// Raw getters only (Display/Debug of a malformed span might panic).
fn show_span(s: &Span) -> String {
    match guard(|| (getters(s), s.signum())) {
        Err(p) => format!("Span{{accessors panic: {}}}", p),
        Ok((v, sg)) => {
            let parts: Vec<String> = (0..10).filter(|&i| v[i] != 0).map(|i| format!("{}={}", UNITS[i].name, v[i])).collect();
            format!("Span{{signum {}; {}}}", sg, if parts.is_empty() { "all zero".to_string() } else { parts.join(",") })
        }
    }
}

/// Unit values and signum read through the public getters.
type Snap = ([i128; 10], i8);

fn snap(s: &Span) -> Snap {
    (getters(s), s.signum())
}

/// The probe duration added to a span in the behavioural comparisons:
/// 2 w 3 d 4 h 5 min 6 s 7 ms 8 us 9 ns. The sum is balanced up to the
/// largest non-zero unit of the span, so it exposes which units the span
/// believes to be non-zero.
fn probe_duration() -> SignedDuration {
    SignedDuration::new(((2 * 7 + 3) * 86_400) + 4 * 3_600 + 5 * 60 + 6, 7_008_009)
}

/// Civil datetime fields read through the public accessors.
type DtFields = (i16, i8, i8, i8, i8, i8, i32);

/// Light behavioural fingerprint: everything that depends on the span's
/// notion of "which units are non-zero" (jiff caches that set).
#[derive(PartialEq, Debug)]
struct Fp {
    /// 2000-02-29T12:00 + span (dispatches on calendar/time unit presence)
    dt_add: Option<DtFields>,
    /// span + probe duration, days are 24 hours (balances up to the largest unit)
    plus: Option<Snap>,
    /// total nanoseconds without a relative date (refused when the largest
    /// unit is a day or bigger)
    total_ns: Option<u64>,
}

fn fp(x: &Span) -> Fp {
    let dt = Date::new(2000, 2, 29).expect("valid date").at(12, 0, 0, 0);
    Fp {
        dt_add: dt.checked_add(*x).ok().map(|d: DateTime| (d.year(), d.month(), d.day(), d.hour(), d.minute(), d.second(), d.subsec_nanosecond())),
        plus: x.checked_add(SpanArithmetic::from(probe_duration()).days_are_24_hours()).ok().map(|r| snap(&r)),
        total_ns: x.total(Unit::Nanosecond).ok().map(|f| f.to_bits()),
    }
}

/// The fingerprint a span holding only `unit u = v` must have, computed from
/// the model alone (civil arithmetic of `refmodel::cal`, exact i128
/// nanoseconds, greedy balancing from the largest non-zero unit down):
///  * 2000-02-29T12:00 + span: years/months by the calendar with the day
///    clamped to the month's length, weeks/days as days, time units as exact
///    nanoseconds; refused outside -9999-01-01..=9999-12-31;
///  * span + probe duration with 24-hour days: refused for years/months,
///    otherwise the exact sum balanced from the span's (only) non-zero unit
///    down to nanoseconds (weeks only when that unit is weeks), refused when
///    a balanced unit exceeds its limit;
///  * total nanoseconds without a relative date: refused for non-zero
///    years/months/weeks/days, otherwise the exact count.
fn expect_fp(u: usize, v: i128) -> Fp {
    const DAY_NS: i128 = 86_400 * NS;
    let d0 = cal::days_from_civil(2000, 2, 29) as i128;
    let in_range = |days: i128| days >= cal::min_day() as i128 && days <= cal::max_day() as i128;
    let civil = |days: i128, tod: i128| -> Option<DtFields> {
        if !in_range(days) {
            return None;
        }
        let (y, m, d) = cal::civil_from_days(days as i64);
        let secs = tod / NS;
        Some((y as i16, m as i8, d as i8, (secs / 3_600) as i8, (secs / 60 % 60) as i8, (secs % 60) as i8, (tod % NS) as i32))
    };
    let noon = 12 * 3_600 * NS;
    let dt_add = match u {
        0 | 1 => {
            let delta = if u == 0 { v * 12 } else { v };
            // far outside any representable date: refused
            if delta.abs() > 12 * 30_000 {
                None
            } else {
                let (ny, nm) = cal::add_months(2000, 2, delta as i64);
                if !(-9_999..=9_999).contains(&ny) {
                    None
                } else {
                    let nd = 29.min(cal::days_in_month(ny, nm));
                    civil(cal::days_from_civil(ny, nm, nd) as i128, noon)
                }
            }
        }
        2 => civil(d0 + 7 * v, noon),
        3 => civil(d0 + v, noon),
        _ => {
            let t = noon + v * UNITS[u].ns.unwrap();
            civil(d0 + t.div_euclid(DAY_NS), t.rem_euclid(DAY_NS))
        }
    };
    let probe = probe_duration().as_nanos();
    let plus = if v != 0 && u <= 1 {
        None
    } else {
        let largest = if v == 0 { 9 } else { u };
        let sum = if v == 0 { probe } else { v * UNITS[u].ns.unwrap() + probe };
        let mut rem = sum.abs();
        let mut vals = [0i128; 10];
        let mut ok = true;
        for i in largest.max(2)..10 {
            if i == 2 && largest != 2 {
                continue;
            }
            let per = UNITS[i].ns.unwrap();
            let q = rem / per;
            rem %= per;
            if q > UNITS[i].limit as i128 {
                ok = false;
            }
            vals[i] = q * sum.signum();
        }
        if ok {
            Some((vals, sum.signum() as i8))
        } else {
            None
        }
    };
    let total_ns = if v != 0 && u <= 3 { None } else { Some(((v * UNITS[u].ns.unwrap_or(0)) as f64).to_bits()) };
    Fp { dt_add, plus, total_ns }
}

/// Full behavioural fingerprint of a span as a value.
fn fp_full(x: &Span) -> String {
    let date = Date::new(2000, 2, 29).expect("valid date");
    let one_ns = Span::new().nanoseconds(1);
    format!(
        "light={:?} | to_sd={:?} | to_dur24={:?} | std={:?} | ts+={:?} | time+={:?} | date+={:?} | date-={:?} | total_s={:?} | total24_s={:?} | total_rel_h={:?} | +1ns={:?} | -1ns(24h)={:?} | cmp0={:?} | round_ns={:?} | disp={} | alt={:#} | dbg={:?}",
        fp(x),
        SignedDuration::try_from(*x).ok(),
        x.to_duration(SpanRelativeTo::days_are_24_hours()).ok(),
        Duration::try_from(*x).ok(),
        jiff::Timestamp::UNIX_EPOCH.checked_add(*x).ok(),
        jiff::civil::Time::midnight().checked_add(*x).ok(),
        date.checked_add(*x).ok(),
        date.checked_sub(*x).ok(),
        x.total(Unit::Second).ok().map(|f| f.to_bits()),
        x.total(SpanTotal::from(Unit::Second).days_are_24_hours()).ok().map(|f| f.to_bits()),
        x.total((Unit::Hour, date)).ok().map(|f| f.to_bits()),
        x.checked_add(one_ns).ok().map(|r| snap(&r)),
        x.checked_sub((one_ns, SpanRelativeTo::days_are_24_hours())).ok().map(|r| snap(&r)),
        x.compare((Span::new(), SpanRelativeTo::days_are_24_hours())).ok(),
        x.round(SpanRound::new().smallest(Unit::Nanosecond).days_are_24_hours()).ok().map(|r| snap(&r)),
        x,
        x,
        x,
    )
}

pub static JUDGED: AtomicU64 = AtomicU64::new(0);
pub static DECODED_BITS: AtomicU64 = AtomicU64::new(0);
/// model expectations of the decode by outcome: [datetime sum in range, out of
/// range, balanced sum ok, refused, total ok, refused]
pub static EXPECT_CLASSES: [AtomicU64; 6] = [AtomicU64::new(0), AtomicU64::new(0), AtomicU64::new(0), AtomicU64::new(0), AtomicU64::new(0), AtomicU64::new(0)];

/// Does the jiff span denote the model span? Checks every getter, signum,
/// is_zero/is_positive/is_negative and the one-sign invariant; then that the
/// span BEHAVES like a span freshly built from the same integers; then, unit
/// by unit, that its hidden notion of "this unit is non-zero" agrees with the
/// field (`unit-set decode`: every other unit is overwritten with 0 through
/// the public setter, which re-derives that unit's own bookkeeping only; what
/// is left must behave like `Span::new().<unit>(value)`).
fn judge_span(s: &Span, m: &M) -> Option<String> {
    JUDGED.fetch_add(1, Ordering::Relaxed);
    let res = guard(|| {
        let g = getters(s);
        let want = m.vals();
        let mixed = g.iter().any(|&x| x > 0) && g.iter().any(|&x| x < 0);
        let flags = (s.signum(), s.is_zero(), s.is_positive(), s.is_negative());
        let wflags = (m.sign, m.sign == 0, m.sign > 0, m.sign < 0);
        if g != want || mixed || flags != wflags {
            return Some(format!("jiff {} (is_zero {}, is_positive {}, is_negative {}) | model {} signum {}", show_span(s), flags.1, flags.2, flags.3, m.show(), m.sign));
        }
        // A span is a value: it must BEHAVE like any other span holding the
        // same integers, however it was produced (hidden state such as a
        // cached set of non-zero units must not leak into later operations).
        let Some(fresh) = build(m) else {
            return Some(format!("could not build a fresh span with the fields {}", m.show()));
        };
        let (a, b) = (fp_full(s), fp_full(&fresh));
        if a != b {
            return Some(format!("behaves differently from a span built from the same fields {}: {} vs {}", m.show(), a, b));
        }
        if s.fieldwise() != fresh.fieldwise() || hash_of(&s.fieldwise()) != hash_of(&fresh.fieldwise()) {
            return Some(format!("fieldwise view differs (eq or hash) from a span built from the same fields {}", m.show()));
        }
        // unit-set decode
        for u in 0..10 {
            let mut t = *s;
            for i in 0..10 {
                if i != u {
                    t = (UNITS[i].set)(t, 0);
                }
            }
            DECODED_BITS.fetch_add(1, Ordering::Relaxed);
            let mut wsnap: Snap = ([0; 10], want[u].signum() as i8);
            wsnap.0[u] = want[u];
            if snap(&t) != wsnap {
                return Some(format!("after overwriting every unit but {} with 0: jiff {} | model {}={}", UNITS[u].name, show_span(&t), UNITS[u].name, want[u]));
            }
            // independent expectation (a setter that mis-keeps its own
            // bookkeeping would corrupt a jiff-built reference alike)
            let (a, b) = (fp(&t), expect_fp(u, want[u]));
            EXPECT_CLASSES[if b.dt_add.is_some() { 0 } else { 1 }].fetch_add(1, Ordering::Relaxed);
            EXPECT_CLASSES[if b.plus.is_some() { 2 } else { 3 }].fetch_add(1, Ordering::Relaxed);
            EXPECT_CLASSES[if b.total_ns.is_some() { 4 } else { 5 }].fetch_add(1, Ordering::Relaxed);
            if a != b {
                return Some(format!(
                    "unit bookkeeping for {} in a span with fields {}: after overwriting every other unit with 0 it does not behave like a span of {}={}: jiff {:?} | model {:?} [2000-02-29T12:00 + span | span + 2w3d4h5m6s7ms8us9ns (24-hour days) | total nanoseconds]",
                    UNITS[u].name,
                    m.show(),
                    UNITS[u].name,
                    want[u],
                    a,
                    b
                ));
            }
        }
        None
    });
    match res {
        Ok(x) => x,
        Err(p) => Some(format!("accessor panic: {}", p)),
    }
}

fn unit_values(limit: i64) -> Vec<i64> {
    let mut v: Vec<i64> = vec![];
    let l = limit as i128;
    for x in [0i128, 1, -1, 2, -2, l - 1, -(l - 1), l, -l, l + 1, -(l + 1), i64::MIN as i128, i64::MAX as i128, i32::MAX as i128, i32::MIN as i128, i16::MAX as i128 + 1] {
        if let Ok(x) = i64::try_from(x) {
            if !v.contains(&x) {
                v.push(x);
            }
        }
    }
    v
}

/// Each unit alone: values in and just outside the limit through the
/// panicking setter, the try_ setter and all getters.
pub fn units(r: &Report) {
    let (mut ok, mut refused) = (0u64, 0u64);
    for (u, def) in UNITS.iter().enumerate() {
        for v in unit_values(def.limit) {
            let case = format!("{}({})", def.name, v);
            let within = (v as i128).abs() <= def.limit as i128;
            let model = M::zero().set(u, v as i128).expect("fresh span: determined");
            r.add_states(1);
            r.add_transitions(2);
            r.add_validated(2);
            match guard(|| (def.try_set)(Span::new(), v).map_err(|e| e.to_string())) {
                Err(p) => r.viol("span_units", &format!("Span::try_{}/{}", def.name, panic_sig(&p)), case.clone(), p),
                Ok(Err(e)) => {
                    refused += 1;
                    if within {
                        r.viol("span_units", &format!("Span::try_{}/refused-within-limit", def.name), case.clone(), format!("jiff Err({}) | limit {}", e, def.limit));
                    }
                }
                Ok(Ok(s)) => {
                    ok += 1;
                    if !within {
                        r.viol("span_units", &format!("Span::try_{}/accepted-beyond-limit", def.name), case.clone(), format!("jiff {} | limit {}", show_span(&s), def.limit));
                    } else if let Some(d) = judge_span(&s, &model) {
                        r.viol("span_units", &format!("Span::try_{}/value", def.name), case.clone(), d);
                    }
                }
            }
            match guard(|| (def.set)(Span::new(), v)) {
                Err(p) => {
                    if within {
                        r.viol("span_units", &format!("Span::{}/spurious-panic", def.name), case.clone(), format!("panic {} | limit {}", p, def.limit));
                    }
                }
                Ok(s) => {
                    if !within {
                        r.viol("span_units", &format!("Span::{}/no-panic-beyond-limit", def.name), case.clone(), format!("jiff {} | limit {} (documented to panic)", show_span(&s), def.limit));
                    } else if let Some(d) = judge_span(&s, &model) {
                        r.viol("span_units", &format!("Span::{}/value", def.name), case.clone(), d);
                    }
                }
            }
        }
    }
    r.outcome("span_unit_accepted", ok);
    r.outcome("span_unit_refused", refused);
    r.require(ok > 0 && refused > 0, "unit setters both accept and refuse");
    r.sample(json!({"unit": "years", "limit": 19_998, "values": unit_values(19_998)}));
}

/// Setting the same unit twice, alone and next to another non-zero unit.
pub fn overwrite(r: &Report) {
    let mut unspecified = 0u64;
    let mut n = 0u64;
    for (u, def) in UNITS.iter().enumerate() {
        let l = def.limit;
        let vals = [0i64, 1, -1, l, -l];
        // `other`: none, or a different unit set first to +-1
        let other_u = (u + 3) % 10;
        for other in [0i64, 1, -1] {
            for a in vals {
                for b in vals {
                    n += 1;
                    r.add_states(1);
                    r.add_transitions(3);
                    r.add_validated(1);
                    let case = format!("{}({}) then {}({}) then {}({})", UNITS[other_u].name, other, def.name, a, def.name, b);
                    let m = M::zero().set(other_u, other as i128).and_then(|m| m.set(u, a as i128)).and_then(|m| m.set(u, b as i128));
                    let got = guard(|| (def.set)((def.try_set)((UNITS[other_u].set)(Span::new(), other), a).unwrap(), b));
                    match (got, m) {
                        (Err(p), _) => r.viol("span_overwrite", &format!("Span::{}/{}", def.name, panic_sig(&p)), case, p),
                        (Ok(s), Some(m)) => {
                            if let Some(d) = judge_span(&s, &m) {
                                r.viol("span_overwrite", "Span::set(overwrite)/value-or-sign", case, d);
                            }
                        }
                        (Ok(s), None) => {
                            // sign unspecified; magnitudes and the invariant still hold
                            unspecified += 1;
                            let mut pos = M::zero().set(u, b as i128).unwrap();
                            pos.sign = 1;
                            let mut neg = pos;
                            neg.sign = -1;
                            if judge_span(&s, &pos).is_some() && judge_span(&s, &neg).is_some() {
                                r.viol("span_overwrite", "Span::set(overwrite)/magnitude", case, format!("jiff {} | model +-{}", show_span(&s), pos.show()));
                            }
                        }
                    }
                }
            }
        }
    }
    // a value beyond the limit on a span that already holds units: refused
    // by try_*, panic from the infallible setter (limits do not depend on the
    // other units)
    let mut refused = 0u64;
    for (u, def) in UNITS.iter().enumerate() {
        let other_u = (u + 3) % 10;
        let l = def.limit as i128;
        for other in [1i64, -1] {
            for a in [0i64, 1, -1] {
                for b in [l + 1, -(l + 1), i64::MAX as i128, i64::MIN as i128] {
                    let Ok(b) = i64::try_from(b) else { continue };
                    if (b as i128).abs() <= l {
                        continue;
                    }
                    r.add_states(1);
                    r.add_transitions(2);
                    r.add_validated(2);
                    let case = format!("{}({}) then {}({}) then {}({})", UNITS[other_u].name, other, def.name, a, def.name, b);
                    let base = guard(|| (def.set)((UNITS[other_u].set)(Span::new(), other), a));
                    let Ok(base) = base else {
                        r.viol("span_overwrite", "Span::build/panic", case, "could not build the input span");
                        continue;
                    };
                    match guard(|| (def.try_set)(base, b).map_err(|e| e.to_string())) {
                        Err(p) => r.viol("span_overwrite", &format!("Span::try_{}/{}", def.name, panic_sig(&p)), case.clone(), p),
                        Ok(Ok(g)) => r.viol("span_overwrite", &format!("Span::try_{}/accepted-beyond-limit", def.name), case.clone(), format!("jiff {} | limit {}", show_span(&g), def.limit)),
                        Ok(Err(_)) => refused += 1,
                    }
                    if let Ok(g) = guard(|| (def.set)(base, b)) {
                        r.viol("span_overwrite", &format!("Span::{}/no-panic-beyond-limit", def.name), case.clone(), format!("jiff {} | limit {} (documented to panic)", show_span(&g), def.limit));
                    }
                }
            }
        }
    }
    r.outcome("overwrite_beyond_limit_refused", refused);
    r.require(refused > 0, "beyond-limit values on non-empty spans are refused");
    r.outcome("overwrite_sequences", n);
    r.outcome("overwrite_sign_unspecified(not judged)", unspecified);
}

/// All 3-unit subsets (thorough: also all 4-unit subsets) x all sign patterns
/// {-,0,+}^k x all k! setting orders x two magnitude sets (small primes; each
/// unit's own limit): model and jiff in lockstep after every step;
/// negate/abs/Neg on every result.
pub fn orders(r: &Report) {
    fn permutations(k: usize) -> Vec<Vec<usize>> {
        fn rec(cur: &mut Vec<usize>, used: &mut Vec<bool>, k: usize, out: &mut Vec<Vec<usize>>) {
            if cur.len() == k {
                out.push(cur.clone());
                return;
            }
            for i in 0..k {
                if !used[i] {
                    used[i] = true;
                    cur.push(i);
                    rec(cur, used, k, out);
                    cur.pop();
                    used[i] = false;
                }
            }
        }
        let mut out = vec![];
        rec(&mut vec![], &mut vec![false; k], k, &mut out);
        out
    }
    let small = [2i128, 3, 5, 7];
    // (units, values) of every sequence, in setting order
    let mut seqs: Vec<(Vec<usize>, Vec<i128>, usize)> = vec![];
    let ks: &[usize] = if r.thorough() { &[3, 4] } else { &[3] };
    for &k in ks {
        let perms = permutations(k);
        let mut subsets: Vec<Vec<usize>> = vec![];
        for mask in 0u32..1024 {
            if mask.count_ones() as usize == k {
                subsets.push((0..10).filter(|i| mask >> i & 1 == 1).collect());
            }
        }
        for us in &subsets {
            for pat in 0..3usize.pow(k as u32) {
                let signs: Vec<i128> = (0..k).map(|j| ((pat / 3usize.pow(j as u32)) % 3) as i128 - 1).collect();
                for at_limit in [false, true] {
                    let vals: Vec<i128> = (0..k).map(|j| signs[j] * if at_limit { UNITS[us[j]].limit as i128 } else { small[j] }).collect();
                    for perm in &perms {
                        seqs.push((perm.iter().map(|&j| us[j]).collect(), perm.iter().map(|&j| vals[j]).collect(), pat));
                    }
                }
            }
        }
    }
    let (nneg, npos, nzero) = (AtomicU64::new(0), AtomicU64::new(0), AtomicU64::new(0));
    seqs.par_iter().for_each(|(us, vals, pat)| {
        let k = us.len();
        r.add_states(1);
        r.add_transitions(k as u64 + 3);
        r.add_validated(k as u64 + 3);
        let case = (0..k).map(|j| format!("{}({})", UNITS[us[j]].name, vals[j])).collect::<Vec<_>>().join(" ");
        let mut m = M::zero();
        let mut s = match guard(Span::new) {
            Ok(s) => s,
            Err(p) => {
                r.viol("span_orders", &format!("Span::new/{}", panic_sig(&p)), case, p);
                return;
            }
        };
        for step in 0..k {
            let (u, v) = (us[step], vals[step]);
            m = m.set(u, v).expect("each unit set once: determined");
            // alternate between the panicking and the fallible setter
            let res = if (step + pat) % 2 == 0 { guard(|| (UNITS[u].set)(s, v as i64)) } else { guard(|| (UNITS[u].try_set)(s, v as i64).expect("within limit")) };
            match res {
                Err(p) => {
                    r.viol("span_orders", &format!("Span::{}/{}", UNITS[u].name, panic_sig(&p)), case.clone(), p);
                    return;
                }
                Ok(ns) => s = ns,
            }
            if let Some(d) = judge_span(&s, &m) {
                r.viol("span_orders", "Span::set(sequence)/one-sign-or-value", case.clone(), format!("after step {}: {}", step + 1, d));
                return;
            }
        }
        match m.sign {
            -1 => nneg.fetch_add(1, Ordering::Relaxed),
            0 => nzero.fetch_add(1, Ordering::Relaxed),
            _ => npos.fetch_add(1, Ordering::Relaxed),
        };
        unary_ops(r, "span_orders", &s, &m, &case);
    });
    let (nneg, npos, nzero) = (nneg.into_inner(), npos.into_inner(), nzero.into_inner());
    r.outcome("order_sequences", seqs.len() as u64);
    r.outcome("order_results_negative", nneg);
    r.outcome("order_results_positive", npos);
    r.outcome("order_results_zero", nzero);
    r.require(nneg > 0 && npos > 0 && nzero > 0, "setter sequences yield negative, positive and zero spans");
    r.sample(json!({"sequence": "days(2) hours(-3) minutes(5)", "model": "days=-2,hours=-3,minutes=-5"}));
}

/// negate / abs / Neg operator on a span already judged equal to `m`.
fn unary_ops(r: &Report, section: &str, s: &Span, m: &M, case: &str) {
    let s = *s;
    let mut mn = *m;
    mn.sign = -m.sign;
    let mut ma = *m;
    ma.sign = m.sign.abs();
    for (name, got, want) in [("negate", guard(|| s.negate()), mn), ("neg(operator)", guard(|| -s), mn), ("abs", guard(|| s.abs()), ma)] {
        match got {
            Err(p) => r.viol(section, &format!("Span::{}/{}", name, panic_sig(&p)), case.to_string(), p),
            Ok(g) => {
                if let Some(d) = judge_span(&g, &want) {
                    r.viol(section, &format!("Span::{}/value", name), case.to_string(), d);
                }
            }
        }
    }
}

fn build(m: &M) -> Option<Span> {
    // each unit set once; negative values first so that the documented rule
    // (non-negative on a non-zero span keeps the sign) applies throughout
    let v = m.vals();
    guard(|| {
        let mut s = Span::new();
        for i in 0..10 {
            if v[i] != 0 {
                s = (UNITS[i].set)(s, v[i] as i64);
            }
        }
        s
    })
    .ok()
}

/// checked_mul and the `*` operator.
pub fn mul(r: &Report) {
    let mut spans: Vec<M> = vec![M::zero()];
    for (u, def) in UNITS.iter().enumerate() {
        let l = def.limit as i128;
        for v in [1i128, -1, 2, 3, l / 2, l / 2 + 1, -(l / 2 + 1), l, -l] {
            spans.push(M::zero().set(u, v).unwrap());
        }
    }
    // mixed spans: the tightest unit decides
    for (a, b, c) in [(0usize, 3usize, 9usize), (1, 4, 6), (2, 5, 8), (0, 1, 7)] {
        for sg in [1i128, -1] {
            let mut m = M::zero();
            m = m.set(a, sg * 2).unwrap();
            m = m.set(b, sg * 3).unwrap();
            m = m.set(c, sg * (UNITS[c].limit as i128 / 4)).unwrap();
            spans.push(m);
        }
    }
    // every unit non-zero at once: 1, 3, the limit, a third of the limit
    for sg in [1i128, -1] {
        for pick in 0..4 {
            let mut m = M::zero();
            for i in 0..10 {
                let l = UNITS[i].limit as i128;
                m = m.set(i, sg * [1, 3, l, l / 3][pick]).unwrap();
            }
            spans.push(m);
        }
    }
    // all pairs of units (thorough): one small, one at half its limit
    if r.thorough() {
        for a in 0..10 {
            for b in 0..10 {
                if a != b {
                    for sg in [1i128, -1] {
                        spans.push(M::zero().set(a, sg * 3).unwrap().set(b, sg * (UNITS[b].limit as i128 / 2)).unwrap());
                    }
                }
            }
        }
    }
    let (ok_c, err_c) = (AtomicU64::new(0), AtomicU64::new(0));
    spans.par_iter().for_each(|m| {
        let m = *m;
        let (mut ok, mut err) = (0u64, 0u64);
        let Some(s) = build(&m) else {
            r.viol("span_mul", "Span::build/panic", m.show(), "could not build the input span");
            return;
        };
        if let Some(d) = judge_span(&s, &m) {
            r.viol("span_mul", "Span::build/value", m.show(), d);
            return;
        }
        // negate / abs / Neg on every pool span (unit values at the limits)
        r.add_transitions(3);
        r.add_validated(3);
        unary_ops(r, "span_mul", &s, &m, &m.show());
        let mut factors: Vec<i64> = vec![0, 1, -1, 2, -2, 3, 4, i64::MIN, i64::MAX, i64::MIN + 1, i32::MAX as i64, i32::MIN as i64];
        for def in UNITS.iter() {
            for f in [def.limit, -def.limit, def.limit / 2, def.limit.saturating_add(1)] {
                if !factors.contains(&f) {
                    factors.push(f);
                }
            }
        }
        for f in factors {
            let case = format!("{} * {}", m.show(), f);
            r.add_states(1);
            r.add_transitions(2);
            r.add_validated(2);
            // unit by unit; overflow of any unit's limit is an error
            let want: Option<M> = if f == 0 {
                Some(M::zero())
            } else {
                let mut w = m;
                let mut fits_all = true;
                for i in 0..10 {
                    let p = m.mag[i] * (f as i128).abs();
                    if p > UNITS[i].limit as i128 {
                        fits_all = false;
                    }
                    w.mag[i] = p;
                }
                w.sign = m.sign * (f.signum() as i8);
                if fits_all {
                    Some(w)
                } else {
                    None
                }
            };
            let got = guard(|| s.checked_mul(f).map_err(|e| e.to_string()));
            match (&got, &want) {
                (Err(p), _) => r.viol("span_mul", &format!("Span::checked_mul/{}", panic_sig(p)), case.clone(), p.clone()),
                (Ok(Err(e)), Some(w)) => {
                    err += 1;
                    r.viol("span_mul", "Span::checked_mul/spurious-error", case.clone(), format!("jiff Err({}) | model {}", e, w.show()));
                }
                (Ok(Err(_)), None) => err += 1,
                (Ok(Ok(g)), None) => {
                    ok += 1;
                    r.viol("span_mul", "Span::checked_mul/missed-overflow", case.clone(), format!("jiff {} | model: a unit exceeds its limit", show_span(g)));
                }
                (Ok(Ok(g)), Some(w)) => {
                    ok += 1;
                    if let Some(d) = judge_span(g, w) {
                        r.viol("span_mul", "Span::checked_mul/value", case.clone(), d);
                    }
                }
            }
            // operators (both operand orders): panic exactly on overflow
            for (op, res) in [("Span::mul(operator)", guard(|| s * f)), ("Span::mul(operator,i64*span)", guard(|| f * s))] {
                r.add_transitions(1);
                r.add_validated(1);
                match (res, &want) {
                    (Err(p), Some(w)) => r.viol("span_mul", &format!("{}/spurious-panic", op), case.clone(), format!("panic {} | model {}", p, w.show())),
                    (Err(_), None) => {}
                    (Ok(g), None) => r.viol("span_mul", &format!("{}/no-panic", op), case.clone(), format!("jiff {} | model: overflow, documented to panic", show_span(&g))),
                    (Ok(g), Some(w)) => {
                        if let Some(d) = judge_span(&g, w) {
                            r.viol("span_mul", &format!("{}/value", op), case.clone(), d);
                        }
                    }
                }
            }
        }
        ok_c.fetch_add(ok, Ordering::Relaxed);
        err_c.fetch_add(err, Ordering::Relaxed);
    });
    let (ok, err) = (ok_c.into_inner(), err_c.into_inner());
    r.outcome("span_mul_ok", ok);
    r.outcome("span_mul_err", err);
    r.require(ok > 0 && err > 0, "checked_mul both succeeds and overflows");
}

/// fieldwise(): equal and hash-equal exactly when all ten unit values agree,
/// however the spans were built. All ten units take part, with several
/// magnitudes; every comparison impl (`SpanFieldwise == SpanFieldwise`,
/// `== Span`, `Span ==`, `&Span ==`, `&SpanFieldwise ==`), `Neg for
/// SpanFieldwise`, `From` in both directions and `Default`.
pub fn fieldwise(r: &Report) {
    let perms: [[usize; 3]; 6] = [[0, 1, 2], [0, 2, 1], [1, 0, 2], [1, 2, 0], [2, 0, 1], [2, 1, 0]];
    let mut items: Vec<(M, Span)> = vec![];
    for us in [[0usize, 3, 9], [1, 4, 6], [0, 1, 3], [2, 5, 7], [5, 7, 8], [2, 8, 9]] {
        for pat in 0..27i32 {
            let signs = [pat % 3 - 1, (pat / 3) % 3 - 1, (pat / 9) % 3 - 1];
            // magnitudes 1 so that different subsets/patterns collide on purpose
            for perm in perms {
                let mut m = M::zero();
                let s = guard(|| {
                    let mut s = Span::new();
                    for &k in &perm {
                        s = (UNITS[us[k]].set)(s, signs[k] as i64);
                    }
                    s
                });
                for &k in &perm {
                    m = m.set(us[k], signs[k] as i128).unwrap();
                }
                if let Ok(s) = s {
                    items.push((m, s));
                }
            }
        }
    }
    // each unit alone with several magnitudes (values differing only in high
    // or only in low bits), built directly and through negation
    for (u, def) in UNITS.iter().enumerate() {
        let l = def.limit as i128;
        for v in [1i128, 2, 3, 256, 257, l - 1, l] {
            for sg in [1i128, -1] {
                let m = M::zero().set(u, sg * v).unwrap();
                if let Some(s) = build(&m) {
                    items.push((m, s));
                }
                // the same value reached by negating the opposite one
                let mo = M::zero().set(u, -sg * v).unwrap();
                if let Some(Ok(s)) = build(&mo).map(|s| guard(|| -s)) {
                    items.push((m, s));
                }
            }
        }
    }
    // all ten units set: spans that differ in exactly one unit
    for sg in [1i128, -1] {
        let mut base = M::zero();
        for i in 0..10 {
            base = base.set(i, sg * 4).unwrap();
        }
        if let Some(s) = build(&base) {
            items.push((base, s));
        }
        for i in 0..10 {
            for v in [0i128, 5] {
                // units are set in a rotated order, the changed unit last
                let mut m = M::zero();
                let s = guard(|| {
                    let mut s = Span::new();
                    for k in 1..=10 {
                        let j = (i + k) % 10;
                        s = (UNITS[j].set)(s, (sg * if j == i { v } else { 4 }) as i64);
                    }
                    s
                });
                for k in 1..=10 {
                    let j = (i + k) % 10;
                    m = m.set(j, sg * if j == i { v } else { 4 }).unwrap();
                }
                if let Ok(s) = s {
                    items.push((m, s));
                }
            }
        }
    }
    for (m, s) in &items {
        if let Some(d) = judge_span(s, m) {
            r.viol("span_fieldwise", "Span::build/value", m.show(), d);
        }
    }
    let (eqs, nes, hash_split) = (AtomicU64::new(0), AtomicU64::new(0), AtomicU64::new(0));
    items.par_iter().for_each(|(ma, a)| {
        for (mb, b) in &items {
            r.add_transitions(1);
            r.add_validated(1);
            let want = ma.vals() == mb.vals();
            let case = || format!("{} vs {}", ma.show(), mb.show());
            match guard(|| {
                let (fa, fb) = (a.fieldwise(), b.fieldwise());
                let (ca, cb) = (jiff::SpanFieldwise::from(*a), jiff::SpanFieldwise(*b));
                ([fa == fb, fa == *b, *a == fb, &*a == fb, &fa == fb, ca == cb, -fa == -fb, fa != fb], hash_of(&fa) == hash_of(&fb))
            }) {
                Err(p) => r.viol("span_fieldwise", &format!("Span::fieldwise/{}", panic_sig(&p)), case(), p),
                Ok((e, h)) => {
                    if want {
                        eqs.fetch_add(1, Ordering::Relaxed);
                    } else {
                        nes.fetch_add(1, Ordering::Relaxed);
                        if !h {
                            hash_split.fetch_add(1, Ordering::Relaxed);
                        }
                    }
                    let wants = [want, want, want, want, want, want, want, !want];
                    if e != wants {
                        r.viol("span_fieldwise", "SpanFieldwise::eq/value", case(), format!("jiff [ff, f==span, span==f, &span==f, &f==f, from/ctor, neg==neg, !=] = {:?} model {:?}", e, wants));
                    }
                    if want && !h {
                        r.viol("span_fieldwise", "SpanFieldwise::hash/equal-values-hash-differently", case(), "hash differs");
                    }
                }
            }
        }
    });
    // Neg for SpanFieldwise, From<SpanFieldwise> for Span: the wrapped span is
    // a faithful value
    for (m, s) in &items {
        r.add_transitions(2);
        r.add_validated(2);
        let mut mn = *m;
        mn.sign = -m.sign;
        match guard(|| (Span::from(s.fieldwise()), Span::from(-s.fieldwise()), (-s.fieldwise()).0)) {
            Err(p) => r.viol("span_fieldwise", &format!("SpanFieldwise::neg-or-into/{}", panic_sig(&p)), m.show(), p),
            Ok((same, neg, neg0)) => {
                if let Some(d) = judge_span(&same, m) {
                    r.viol("span_fieldwise", "Span::from(SpanFieldwise)/value", m.show(), d);
                }
                for g in [neg, neg0] {
                    if let Some(d) = judge_span(&g, &mn) {
                        r.viol("span_fieldwise", "SpanFieldwise::neg/value", m.show(), d);
                    }
                }
            }
        }
    }
    r.add_validated(3);
    match guard(|| (jiff::SpanFieldwise::default().0, Span::default(), Span::new())) {
        Err(p) => r.viol("span_fieldwise", &format!("Span::default/{}", panic_sig(&p)), "default", p),
        Ok((a, b, c)) => {
            for (name, g) in [("SpanFieldwise::default", a), ("Span::default", b), ("Span::new", c)] {
                if let Some(d) = judge_span(&g, &M::zero()) {
                    r.viol("span_fieldwise", &format!("{}/value", name), "default", d);
                }
            }
        }
    }
    let (eqs, nes, hash_split) = (eqs.into_inner(), nes.into_inner(), hash_split.into_inner());
    r.add_states(items.len() as u64);
    r.outcome("fieldwise_items", items.len() as u64);
    r.outcome("fieldwise_equal_pairs", eqs);
    r.outcome("fieldwise_unequal_pairs", nes);
    r.outcome("fieldwise_unequal_pairs_with_different_hash(informative)", hash_split);
    r.require(eqs > items.len() as u64 && nes > 0, "fieldwise pairs include equal spans built in different orders");
    // every unit decides some comparison on its own
    for u in 0..10 {
        let n = items.iter().filter(|(m, _)| m.mag.iter().all(|&x| x == 4 || x == 5 || x == 0) && m.mag.iter().filter(|&&x| x != 4).count() == 1 && m.mag[u] != 4).count();
        r.require(n >= 2, &format!("fieldwise pool holds spans that differ from the all-4 span only in {}", UNITS[u].name));
    }
}

fn invariant_ns(m: &M) -> i128 {
    let v = m.vals();
    (2..10).map(|i| v[i] * UNITS[i].ns.unwrap()).sum()
}

/// Span -> SignedDuration / std Duration.
pub fn to_duration(r: &Report) {
    let mut spans: Vec<M> = vec![M::zero()];
    for (u, def) in UNITS.iter().enumerate() {
        let l = def.limit as i128;
        for v in [1i128, -1, 2, l - 1, l, -l] {
            spans.push(M::zero().set(u, v).unwrap());
        }
    }
    for sg in [1i128, -1] {
        // everything at its limit, from weeks / from hours down
        for from in [2usize, 3, 4, 6] {
            let mut m = M::zero();
            for i in from..10 {
                m = m.set(i, sg * UNITS[i].limit as i128).unwrap();
            }
            spans.push(m);
        }
        for (a, b, c) in [(4usize, 5usize, 9usize), (3, 4, 9), (6, 7, 8), (2, 3, 6), (0, 4, 9), (1, 3, 5)] {
            let mut m = M::zero();
            m = m.set(a, sg * 2).unwrap();
            m = m.set(b, sg * 3).unwrap();
            m = m.set(c, sg * 999_999_999).unwrap();
            spans.push(m);
        }
    }
    // the three sub-second units together: every combination of sub-second
    // remainders {0, 1, half, just under one second} (times whole-second
    // parts 0 / a few seconds), so that their sum crosses one, two and - for
    // three large remainders - 2^31 nanoseconds (a carry or a narrow
    // accumulator shows only when all three are large at once)
    for sg in [1i128, -1] {
        for ms in [0i128, 1, 500, 750, 999, 4_800] {
            for us in [0i128, 1, 500_000, 750_000, 999_999, 7_900_000] {
                for ns in [0i128, 1, 500_000_000, 750_000_000, 999_999_999, 12_950_000_000] {
                    let mut m = M::zero();
                    m = m.set(7, sg * ms).unwrap();
                    m = m.set(8, sg * us).unwrap();
                    m = m.set(9, sg * ns).unwrap();
                    spans.push(m);
                    spans.push(m.set(6, sg * 59).unwrap());
                }
            }
        }
    }
    let (mut ok, mut err) = (0u64, 0u64);
    for m in &spans {
        let Some(s) = build(m) else {
            r.viol("span_to_duration", "Span::build/panic", m.show(), "could not build the input span");
            continue;
        };
        if let Some(d) = judge_span(&s, m) {
            r.viol("span_to_duration", "Span::build/value", m.show(), d);
            continue;
        }
        let case = m.show();
        let v = m.vals();
        let cal_units = v[0] != 0 || v[1] != 0;
        let above_hours = cal_units || v[2] != 0 || v[3] != 0;
        r.add_states(1);
        r.add_transitions(3);
        r.add_validated(3);
        // TryFrom<Span> for SignedDuration: units above hours need a relative date
        let exact = invariant_ns(m);
        match guard(|| SignedDuration::try_from(s).map_err(|e| e.to_string())) {
            Err(p) => r.viol("span_to_duration", &format!("SignedDuration::try_from(Span)/{}", panic_sig(&p)), case.clone(), p),
            Ok(Err(e)) => {
                err += 1;
                if !above_hours {
                    r.viol("span_to_duration", "SignedDuration::try_from(Span)/spurious-error", case.clone(), format!("jiff Err({}) | model {}", e, ds(exact)));
                }
            }
            Ok(Ok(d)) => {
                ok += 1;
                if above_hours {
                    r.viol("span_to_duration", "SignedDuration::try_from(Span)/accepted-units-above-hours", case.clone(), format!("jiff {}", show(d)));
                } else if let Ok(Some(detail)) = guard(|| judge(d, exact)) {
                    r.viol("span_to_duration", "SignedDuration::try_from(Span)/value", case.clone(), detail);
                }
            }
        }
        // TryFrom<Span> for std Duration: additionally refuses negative spans
        match guard(|| Duration::try_from(s).map_err(|e| e.to_string())) {
            Err(p) => r.viol("span_to_duration", &format!("std::Duration::try_from(Span)/{}", panic_sig(&p)), case.clone(), p),
            Ok(Err(e)) => {
                err += 1;
                if !above_hours && m.sign >= 0 {
                    r.viol("span_to_duration", "std::Duration::try_from(Span)/spurious-error", case.clone(), format!("jiff Err({}) | model {} ns", e, exact));
                }
            }
            Ok(Ok(d)) => {
                ok += 1;
                if above_hours || m.sign < 0 {
                    r.viol("span_to_duration", "std::Duration::try_from(Span)/accepted", case.clone(), format!("jiff {:?} | model: refusal (negative or units above hours)", d));
                } else if d.as_nanos() as i128 != exact {
                    r.viol("span_to_duration", "std::Duration::try_from(Span)/value", case.clone(), format!("jiff {:?} | model {} ns", d, exact));
                }
            }
        }
        // to_duration with 24-hour days: weeks and days become invariant;
        // years/months are an error
        match guard(|| s.to_duration(SpanRelativeTo::days_are_24_hours()).map_err(|e| e.to_string())) {
            Err(p) => r.viol("span_to_duration", &format!("Span::to_duration(days_are_24_hours)/{}", panic_sig(&p)), case.clone(), p),
            Ok(Err(e)) => {
                err += 1;
                if !cal_units {
                    r.viol("span_to_duration", "Span::to_duration(days_are_24_hours)/spurious-error", case.clone(), format!("jiff Err({}) | model {}", e, ds(exact)));
                }
            }
            Ok(Ok(d)) => {
                ok += 1;
                if cal_units {
                    r.viol("span_to_duration", "Span::to_duration(days_are_24_hours)/accepted-calendar-units", case.clone(), format!("jiff {}", show(d)));
                } else if let Ok(Some(detail)) = guard(|| judge(d, exact)) {
                    r.viol("span_to_duration", "Span::to_duration(days_are_24_hours)/value", case.clone(), detail);
                }
            }
        }
    }
    // relative to a civil date: years and months by the calendar (month
    // arithmetic with day clamping, then days, then the time units)
    let rels: [(i64, i64, i64); 3] = [(2024, 1, 31), (2023, 3, 31), (1970, 1, 1)];
    let mut nrel = 0u64;
    for &(y, mo, d) in &rels {
        let start = cal::days_from_civil(y, mo, d);
        for years in [0i128, 1, -1] {
            for months in [0i128, 1, -1, 13, -13] {
                for days in [0i128, 1, -31] {
                    for hours in [0i128, 25, -25] {
                      for weeks in [0i128, 1, -1] {
                        for nanos in [0i128, 999_999_999, -999_999_999] {
                        // a span has one sign: skip mixed-sign combinations
                        let all = [years, months, days, hours, weeks, nanos];
                        if all.iter().any(|&x| x > 0) && all.iter().any(|&x| x < 0) {
                            continue;
                        }
                        let mut m = M::zero();
                        for (u, v) in [(0usize, years), (1, months), (2, weeks), (3, days), (4, hours), (9, nanos)] {
                            if v != 0 {
                                m = m.set(u, v).unwrap();
                            }
                        }
                        let Some(s) = build(&m) else { continue };
                        nrel += 1;
                        r.add_states(1);
                        r.add_transitions(1);
                        r.add_validated(1);
                        let (ny, nm) = cal::add_months(y, mo, (years * 12 + months) as i64);
                        let nd = d.min(cal::days_in_month(ny, nm));
                        let end = cal::days_from_civil(ny, nm, nd) as i128 + 7 * weeks + days;
                        let exact = (end - start as i128) * 86_400 * NS + hours * 3_600 * NS + nanos;
                        // relative to the civil date, to a civil datetime late in
                        // that day, and to zoned datetimes in UTC and at a fixed
                        // offset (no transitions: every day has 24 hours)
                        for kind in ["date", "datetime", "zoned-utc", "zoned-fixed"] {
                            r.add_transitions(1);
                            r.add_validated(1);
                            let got = guard(|| {
                                let date = Date::new(y as i16, mo as i8, d as i8).expect("valid date");
                                let dt = date.at(23, 59, 59, 999_999_999);
                                match kind {
                                    "date" => s.to_duration(date),
                                    "datetime" => s.to_duration(dt),
                                    "zoned-utc" => s.to_duration(&dt.to_zoned(jiff::tz::TimeZone::UTC).expect("utc")),
                                    _ => s.to_duration(&dt.to_zoned(jiff::tz::TimeZone::fixed(jiff::tz::Offset::from_seconds(-5 * 3600 - 1800).expect("offset"))).expect("fixed")),
                                }
                                .map_err(|e| e.to_string())
                            });
                            let case = format!("{} relative to {:04}-{:02}-{:02}{}", m.show(), y, mo, d, if kind == "date" { String::new() } else { format!(" ({})", kind) });
                            match got {
                                Err(p) => r.viol("span_to_duration", &format!("Span::to_duration({})/{}", kind, panic_sig(&p)), case, p),
                                Ok(Err(e)) => r.viol("span_to_duration", &format!("Span::to_duration({})/spurious-error", kind), case, format!("jiff Err({}) | model {}", e, ds(exact))),
                                Ok(Ok(dur)) => {
                                    if let Ok(Some(detail)) = guard(|| judge(dur, exact)) {
                                        r.viol("span_to_duration", &format!("Span::to_duration({})/value", kind), case, detail);
                                    }
                                }
                            }
                        }
                        }
                      }
                    }
                }
            }
        }
    }
    r.outcome("span_to_duration_ok", ok);
    r.outcome("span_to_duration_err", err);
    r.outcome("span_to_duration_relative_date_cases", nrel);
    r.require(ok > 0 && err > 0 && nrel > 0, "span->duration conversions both succeed and fail");
}

/// SignedDuration / std Duration -> Span.
pub fn from_duration(r: &Report) {
    let lim = UNITS[6].limit as i128; // seconds
    let mut ns: Vec<i128> = super::pool().into_iter().map(|(n, _)| n).collect();
    for s in [lim - 1, lim, lim + 1] {
        for f in [0i128, 1, 123_456_789, 999_999_999] {
            ns.push(s * NS + f);
            ns.push(-(s * NS + f));
        }
    }
    ns.extend([86_400 * NS + 123_456_789, -(86_400 * NS + 123_456_789), 1_001_001, -1_001_001, 999_999, 1_000]);
    let (mut ok, mut err) = (0u64, 0u64);
    let model_of = |n: i128| -> Option<M> {
        // seconds beyond the span limit are refused; the sub-second part is
        // split into milli/micro/nano
        if (n / NS).abs() > lim {
            return None;
        }
        let sub = (n % NS).abs();
        let mut m = M::zero();
        m.mag[6] = (n / NS).abs();
        m.mag[7] = sub / 1_000_000;
        m.mag[8] = (sub / 1_000) % 1_000;
        m.mag[9] = sub % 1_000;
        m.sign = n.signum() as i8;
        Some(m)
    };
    for n in ns {
        if !fits(n) {
            continue;
        }
        let case = ds(n);
        let want = model_of(n);
        r.add_states(1);
        r.add_transitions(1);
        r.add_validated(1);
        let got = guard(|| {
            let d = SignedDuration::new((n / NS) as i64, (n % NS) as i32);
            Span::try_from(d).map_err(|e| e.to_string())
        });
        match (got, &want) {
            (Err(p), _) => r.viol("span_from_duration", &format!("Span::try_from(SignedDuration)/{}", panic_sig(&p)), case.clone(), p),
            (Ok(Err(e)), Some(w)) => {
                err += 1;
                r.viol("span_from_duration", "Span::try_from(SignedDuration)/spurious-error", case.clone(), format!("jiff Err({}) | model {}", e, w.show()));
            }
            (Ok(Err(_)), None) => err += 1,
            (Ok(Ok(s)), None) => {
                ok += 1;
                r.viol("span_from_duration", "Span::try_from(SignedDuration)/accepted-beyond-limit", case.clone(), format!("jiff {} | model: seconds exceed the span limit", show_span(&s)));
            }
            (Ok(Ok(s)), Some(w)) => {
                ok += 1;
                if let Some(d) = judge_span(&s, w) {
                    r.viol("span_from_duration", "Span::try_from(SignedDuration)/value", case.clone(), d);
                }
            }
        }
        if n >= 0 {
            r.add_transitions(1);
            r.add_validated(1);
            let got = guard(|| Span::try_from(Duration::new((n / NS) as u64, (n % NS) as u32)).map_err(|e| e.to_string()));
            match (got, &want) {
                (Err(p), _) => r.viol("span_from_duration", &format!("Span::try_from(std Duration)/{}", panic_sig(&p)), case.clone(), p),
                (Ok(Err(e)), Some(w)) => r.viol("span_from_duration", "Span::try_from(std Duration)/spurious-error", case.clone(), format!("jiff Err({}) | model {}", e, w.show())),
                (Ok(Err(_)), None) => {}
                (Ok(Ok(s)), None) => r.viol("span_from_duration", "Span::try_from(std Duration)/accepted-beyond-limit", case.clone(), format!("jiff {}", show_span(&s))),
                (Ok(Ok(s)), Some(w)) => {
                    if let Some(d) = judge_span(&s, w) {
                        r.viol("span_from_duration", "Span::try_from(std Duration)/value", case.clone(), d);
                    }
                }
            }
        }
    }
    // std durations beyond i64 seconds
    for s in [i64::MAX as u64, i64::MAX as u64 + 1, u64::MAX] {
        r.add_validated(1);
        match guard(|| Span::try_from(Duration::new(s, 1)).is_ok()) {
            Err(p) => r.viol("span_from_duration", &format!("Span::try_from(std Duration)/{}", panic_sig(&p)), format!("std Duration({}s,1ns)", s), p),
            Ok(true) => r.viol("span_from_duration", "Span::try_from(std Duration)/accepted-beyond-limit", format!("std Duration({}s,1ns)", s), "Ok"),
            Ok(false) => err += 1,
        }
    }
    r.outcome("span_from_duration_ok", ok);
    r.outcome("span_from_duration_err", err);
    r.require(ok > 0 && err > 0, "duration->span conversions both succeed and fail");
}

/// `ToSpan` for i8/i16/i32/i64: plural and singular method of every unit on
/// the type's extremes, small values and the unit limit (where the type can
/// hold it). Documented: panics exactly when `Span::new().<unit>(v)` would.
pub fn tospan(r: &Report) {
    use jiff::ToSpan;
    let (mut ok, mut panics) = (0u64, 0u64);
    macro_rules! width {
        ($ty:ty, $tname:expr) => {{
            type Mk = fn($ty) -> Span;
            let methods: [(Mk, Mk); 10] = [
                (<$ty as ToSpan>::years, <$ty as ToSpan>::year),
                (<$ty as ToSpan>::months, <$ty as ToSpan>::month),
                (<$ty as ToSpan>::weeks, <$ty as ToSpan>::week),
                (<$ty as ToSpan>::days, <$ty as ToSpan>::day),
                (<$ty as ToSpan>::hours, <$ty as ToSpan>::hour),
                (<$ty as ToSpan>::minutes, <$ty as ToSpan>::minute),
                (<$ty as ToSpan>::seconds, <$ty as ToSpan>::second),
                (<$ty as ToSpan>::milliseconds, <$ty as ToSpan>::millisecond),
                (<$ty as ToSpan>::microseconds, <$ty as ToSpan>::microsecond),
                (<$ty as ToSpan>::nanoseconds, <$ty as ToSpan>::nanosecond),
            ];
            for (u, def) in UNITS.iter().enumerate() {
                let l = def.limit as i128;
                let mut vals: Vec<$ty> = vec![];
                for x in [0i128, 1, -1, 2, -2, <$ty>::MIN as i128, <$ty>::MAX as i128, <$ty>::MIN as i128 + 1, l - 1, l, l + 1, -(l - 1), -l, -(l + 1)] {
                    if let Ok(x) = <$ty>::try_from(x) {
                        if !vals.contains(&x) {
                            vals.push(x);
                        }
                    }
                }
                for v in vals {
                    let within = (v as i128).abs() <= l;
                    let model = M::zero().set(u, v as i128).expect("fresh span: determined");
                    for (which, f) in [("plural", methods[u].0), ("singular", methods[u].1)] {
                        let case = format!("{}{}.{}({})", v, $tname, def.name, which);
                        r.add_states(1);
                        r.add_transitions(1);
                        r.add_validated(1);
                        match guard(|| f(v)) {
                            Err(p) => {
                                panics += 1;
                                if within {
                                    r.viol("span_tospan", &format!("ToSpan::{}/spurious-panic", def.name), case, format!("panic {} | limit {}", p, def.limit));
                                }
                            }
                            Ok(s) => {
                                ok += 1;
                                if !within {
                                    r.viol("span_tospan", &format!("ToSpan::{}/no-panic-beyond-limit", def.name), case, format!("jiff {} | limit {} (documented to panic)", show_span(&s), def.limit));
                                } else if let Some(d) = judge_span(&s, &model) {
                                    r.viol("span_tospan", &format!("ToSpan::{}/value", def.name), case, d);
                                }
                            }
                        }
                    }
                }
            }
        }};
    }
    width!(i8, "i8");
    width!(i16, "i16");
    width!(i32, "i32");
    width!(i64, "i64");
    r.outcome("tospan_ok", ok);
    r.outcome("tospan_panic", panics);
    r.require(ok > 0 && panics > 0, "ToSpan constructors both succeed and panic");
}

/// `Unit`: documented total order (bigger units compare greater), Eq and
/// Hash consistent with it.
pub fn unit_enum(r: &Report) {
    // smallest to biggest, as documented
    let units = [Unit::Nanosecond, Unit::Microsecond, Unit::Millisecond, Unit::Second, Unit::Minute, Unit::Hour, Unit::Day, Unit::Week, Unit::Month, Unit::Year];
    let mut distinct_hashes = std::collections::BTreeSet::new();
    for (i, a) in units.iter().enumerate() {
        distinct_hashes.insert(hash_of(a));
        for (j, b) in units.iter().enumerate() {
            r.add_states(1);
            r.add_transitions(1);
            r.add_validated(1);
            let case = format!("{:?} vs {:?}", a, b);
            match guard(|| (a.cmp(b), a.partial_cmp(b), a == b, a < b, a >= b, (*a).max(*b), hash_of(a) == hash_of(b))) {
                Err(p) => r.viol("span_unit_enum", &format!("Unit::cmp/{}", panic_sig(&p)), case, p),
                Ok((c, pc, e, lt, ge, mx, h)) => {
                    let w = i.cmp(&j);
                    if c != w || pc != Some(w) || e != (i == j) || lt != (i < j) || ge != (i >= j) || mx != units[i.max(j)] {
                        r.viol("span_unit_enum", "Unit::cmp/value", case, format!("jiff cmp {:?} partial {:?} eq {} lt {} ge {} max {:?} | model {:?}", c, pc, e, lt, ge, mx, w));
                    } else if i == j && !h {
                        r.viol("span_unit_enum", "Unit::hash/equal-values-hash-differently", case, "hash differs");
                    }
                }
            }
        }
    }
    r.outcome("unit_distinct_hashes(informative)", distinct_hashes.len() as u64);
}

/// Spans RETURNED by other operations (arithmetic between spans, rounding,
/// differences of dates/times/instants, parsing) are values too: whatever the
/// operation computed, the result must hold one sign, and behave - including
/// its hidden unit bookkeeping - like a span freshly built from the integers
/// its getters report. No value oracle is involved here (the values belong to
/// C07/C08/C11/C15); only the internal consistency of each result is judged.
pub fn derived(r: &Report) {
    use jiff::civil::Time;
    use jiff::{RoundMode, Timestamp};
    let n = AtomicU64::new(0);
    let errs = AtomicU64::new(0);
    let consistent = |op: &str, case: String, got: Result<Result<Span, jiff::Error>, String>| {
        r.add_states(1);
        r.add_transitions(1);
        r.add_validated(1);
        match got {
            Err(p) => r.viol("span_derived", &format!("{}/{}", op, panic_sig(&p)), case, p),
            Ok(Err(_)) => {
                errs.fetch_add(1, Ordering::Relaxed);
            }
            Ok(Ok(s)) => {
                n.fetch_add(1, Ordering::Relaxed);
                let Ok((g, sg)) = guard(|| snap(&s)) else {
                    r.viol("span_derived", &format!("{}/span-result-accessors-panic", op), case, "getters panic");
                    return;
                };
                let mixed = g.iter().any(|&x| x > 0) && g.iter().any(|&x| x < 0);
                let mut m = M::zero();
                for i in 0..10 {
                    m.mag[i] = g[i].abs();
                }
                m.sign = if g.iter().any(|&x| x < 0) { -1 } else if g.iter().any(|&x| x > 0) { 1 } else { 0 };
                if mixed || sg != m.sign {
                    r.viol("span_derived", &format!("{}/span-result-sign", op), case, format!("jiff {}", show_span(&s)));
                } else if let Some(d) = judge_span(&s, &m) {
                    r.viol("span_derived", &format!("{}/span-result-inconsistent", op), case, d);
                }
            }
        }
    };
    // ---- span (+|-) span, span + duration, rounding
    let mut pool: Vec<M> = vec![M::zero()];
    for (u, v) in [(0usize, 1i128), (1, 13), (2, 3), (3, 40), (4, 25), (5, 90), (6, 3_601), (7, 1_500), (8, 2_000_001), (9, 1_000_000_123)] {
        for sg in [1i128, -1] {
            pool.push(M::zero().set(u, sg * v).unwrap());
        }
    }
    for sg in [1i128, -1] {
        pool.push(M::zero().set(3, sg * 1).unwrap().set(4, sg * 23).unwrap().set(5, sg * 59).unwrap().set(9, sg * 999_999_999).unwrap());
        pool.push(M::zero().set(0, sg * 1).unwrap().set(1, sg * 11).unwrap().set(3, sg * 30).unwrap());
        pool.push(M::zero().set(2, sg * 1).unwrap().set(6, sg * 59).unwrap().set(7, sg * 999).unwrap());
    }
    let built: Vec<(M, Span)> = pool.iter().filter_map(|m| build(m).map(|s| (*m, s))).collect();
    let date = Date::new(2024, 1, 31).expect("valid date");
    let units = [Unit::Nanosecond, Unit::Microsecond, Unit::Millisecond, Unit::Second, Unit::Minute, Unit::Hour, Unit::Day, Unit::Week, Unit::Month, Unit::Year];
    built.par_iter().for_each(|(ma, a)| {
        for (mb, b) in &built {
            let case = |op: &str| format!("{} {} {}", ma.show(), op, mb.show());
            consistent("Span::checked_add(span,date)", case("+(rel 2024-01-31)"), guard(|| a.checked_add((*b, date))));
            consistent("Span::checked_sub(span,date)", case("-(rel 2024-01-31)"), guard(|| a.checked_sub((*b, date))));
            consistent("Span::checked_add(span,24h)", case("+(24h days)"), guard(|| a.checked_add((*b, SpanRelativeTo::days_are_24_hours()))));
            consistent("Span::checked_sub(span)", case("-"), guard(|| a.checked_sub(*b)));
        }
        consistent("Span::checked_add(duration,date)", format!("{} + probe duration (rel 2024-01-31)", ma.show()), guard(|| a.checked_add((probe_duration(), date))));
        consistent("Span::checked_sub(duration)", format!("{} - probe duration", ma.show()), guard(|| a.checked_sub(probe_duration())));
        for &smallest in &units {
            for &largest in &units {
                if largest < smallest {
                    continue;
                }
                for (inc, mode) in [(1i64, RoundMode::HalfExpand), (2, RoundMode::Trunc), (1, RoundMode::Floor)] {
                    let case = format!("{} round smallest={:?} largest={:?} inc={} {:?} (rel 2024-01-31)", ma.show(), smallest, largest, inc, mode);
                    consistent("Span::round", case, guard(|| a.round(SpanRound::new().smallest(smallest).largest(largest).increment(inc).mode(mode).relative(date))));
                }
            }
        }
    });
    // ---- differences
    let dates = [(2024i16, 1i8, 31i8), (2024, 2, 29), (2023, 3, 1), (1970, 1, 1), (-9999, 1, 1), (9999, 12, 31), (2024, 1, 31)];
    let times = [(0i8, 0i8, 0i8, 0i32), (23, 59, 59, 999_999_999), (12, 30, 0, 1), (12, 30, 0, 0)];
    for &(y1, m1, d1) in &dates {
        for &(y2, m2, d2) in &dates {
            let (a, b) = (Date::new(y1, m1, d1).expect("date"), Date::new(y2, m2, d2).expect("date"));
            for &largest in &units[6..] {
                let case = format!("{} until {} largest={:?}", a, b, largest);
                consistent("Date::until", case.clone(), guard(|| a.until((largest, b))));
                consistent("Date::since", case, guard(|| a.since((largest, b))));
            }
            for &(h1, mi1, s1, n1) in &times {
                for &(h2, mi2, s2, n2) in &times {
                    let (da, db) = (a.at(h1, mi1, s1, n1), b.at(h2, mi2, s2, n2));
                    for &largest in &[Unit::Nanosecond, Unit::Second, Unit::Hour, Unit::Day, Unit::Month, Unit::Year] {
                        let case = format!("{} until {} largest={:?}", da, db, largest);
                        consistent("DateTime::until", case.clone(), guard(|| da.until((largest, db))));
                        if let (Ok(za), Ok(zb)) = (da.to_zoned(jiff::tz::TimeZone::UTC), db.to_zoned(jiff::tz::TimeZone::UTC)) {
                            consistent("Zoned::until", case.clone(), guard(|| za.until((largest, &zb))));
                            if largest <= Unit::Hour {
                                consistent("Timestamp::until", case, guard(|| za.timestamp().until((largest, zb.timestamp()))));
                            }
                        }
                    }
                }
            }
        }
    }
    for &(h1, mi1, s1, n1) in &times {
        for &(h2, mi2, s2, n2) in &times {
            let (a, b) = (Time::new(h1, mi1, s1, n1).expect("time"), Time::new(h2, mi2, s2, n2).expect("time"));
            for &largest in &units[..6] {
                consistent("Time::until", format!("{} until {} largest={:?}", a, b, largest), guard(|| a.until((largest, b))));
            }
        }
    }
    consistent("Timestamp::until", "MIN until MAX largest=Second".into(), guard(|| Timestamp::MIN.until((Unit::Second, Timestamp::MAX))));
    consistent("Timestamp::since", "MIN since MAX largest=Hour".into(), guard(|| Timestamp::MIN.since((Unit::Hour, Timestamp::MAX))));
    // ---- parsing (ISO 8601 and friendly)
    for text in ["P1Y2M3W4DT5H6M7.008009010S", "-P1Y2M3W4DT5H6M7.008009010S", "PT0S", "P0D", "-PT0.000000001S", "PT1.5H", "P19998Y", "PT631107417600S", "1y 2mo 3w 4d 5h 6m 7s 8ms 9us 10ns", "1h ago", "0s", "2 days, 03:04:05.5", "-PT9223372036.854775807S"] {
        consistent("Span::from_str", format!("parse {:?}", text), guard(|| text.parse::<Span>()));
    }
    let (n, errs) = (n.into_inner(), errs.into_inner());
    r.outcome("span_derived_results_judged", n);
    r.outcome("span_derived_operations_refused(not judged)", errs);
    r.require(n > 1_000, "other operations return spans to judge");
}
