//! Span: per-unit limits, the one-sign rule, negate/abs/checked_mul,
//! fieldwise equality/hash and conversions to/from exact durations.
//!
//! Model: ten magnitudes plus one sign. Documented rules encoded (src/span.rs,
//! type-level docs "The sign of a span applies to the entire span"):
//!  * a unit value within its limit is stored exactly, otherwise refused;
//!  * setting a negative value makes the whole span negative;
//!  * setting a non-negative value on a non-zero span keeps the span's sign;
//!  * setting a positive value on a zero span makes it positive;
//!  * a span is zero iff all units are zero.
//! Not stated by the documentation and therefore not judged: the sign after
//! overwriting the *only* non-zero, negative unit with a positive value.

use super::{ds, fits, hash_of, judge, show, NS};
use jiff::civil::Date;
use jiff::{SignedDuration, Span, SpanRelativeTo};
use refmodel::cal;
use serde_json::json;
use std::time::Duration;
use vf::{guard, panic_sig, Report};

type Set = fn(Span, i64) -> Span;
type TrySet = fn(Span, i64) -> Result<Span, jiff::Error>;
type Get = fn(&Span) -> i64;

pub struct UnitDef {
    pub name: &'static str,
    pub limit: i64,
    pub set: Set,
    pub try_set: TrySet,
    pub get: Get,
    /// nanoseconds per unit for invariant units (None for years/months)
    pub ns: Option<i128>,
}

pub const UNITS: [UnitDef; 10] = [
    UnitDef { name: "years", limit: 19_998, set: |s, v| s.years(v), try_set: |s, v| s.try_years(v), get: |s| s.get_years() as i64, ns: None },
    UnitDef { name: "months", limit: 239_976, set: |s, v| s.months(v), try_set: |s, v| s.try_months(v), get: |s| s.get_months() as i64, ns: None },
    UnitDef { name: "weeks", limit: 1_043_497, set: |s, v| s.weeks(v), try_set: |s, v| s.try_weeks(v), get: |s| s.get_weeks() as i64, ns: Some(7 * 86_400 * NS) },
    UnitDef { name: "days", limit: 7_304_484, set: |s, v| s.days(v), try_set: |s, v| s.try_days(v), get: |s| s.get_days() as i64, ns: Some(86_400 * NS) },
    UnitDef { name: "hours", limit: 175_307_616, set: |s, v| s.hours(v), try_set: |s, v| s.try_hours(v), get: |s| s.get_hours() as i64, ns: Some(3_600 * NS) },
    UnitDef { name: "minutes", limit: 10_518_456_960, set: |s, v| s.minutes(v), try_set: |s, v| s.try_minutes(v), get: |s| s.get_minutes(), ns: Some(60 * NS) },
    UnitDef { name: "seconds", limit: 631_107_417_600, set: |s, v| s.seconds(v), try_set: |s, v| s.try_seconds(v), get: |s| s.get_seconds(), ns: Some(NS) },
    UnitDef { name: "milliseconds", limit: 631_107_417_600_000, set: |s, v| s.milliseconds(v), try_set: |s, v| s.try_milliseconds(v), get: |s| s.get_milliseconds(), ns: Some(1_000_000) },
    UnitDef { name: "microseconds", limit: 631_107_417_600_000_000, set: |s, v| s.microseconds(v), try_set: |s, v| s.try_microseconds(v), get: |s| s.get_microseconds(), ns: Some(1_000) },
    UnitDef { name: "nanoseconds", limit: i64::MAX, set: |s, v| s.nanoseconds(v), try_set: |s, v| s.try_nanoseconds(v), get: |s| s.get_nanoseconds(), ns: Some(1) },
];

/// The model span: signed unit values (all non-zero ones share `sign`).
#[derive(Clone, Copy, Debug, PartialEq, Eq, Hash)]
pub struct M {
    pub mag: [i128; 10],
    pub sign: i8,
}

impl M {
    pub fn zero() -> M {
        M { mag: [0; 10], sign: 0 }
    }
    pub fn vals(&self) -> [i128; 10] {
        let mut v = [0i128; 10];
        for i in 0..10 {
            v[i] = self.mag[i] * self.sign as i128;
        }
        v
    }
    /// Set unit `u` to `v` (|v| within the limit). Returns None where the
    /// documentation does not determine the sign.
    pub fn set(&self, u: usize, v: i128) -> Option<M> {
        let mut m = *self;
        m.mag[u] = v.abs();
        let all_zero = m.mag.iter().all(|&x| x == 0);
        if v < 0 {
            m.sign = -1;
        } else if all_zero {
            m.sign = 0;
        } else if self.sign == 0 {
            m.sign = 1;
        } else {
            // non-negative value on a non-zero span: the sign is kept. If the
            // span was negative only through this very unit and the new value
            // is positive, the documentation is silent.
            let others_zero = (0..10).all(|i| i == u || self.mag[i] == 0);
            if v > 0 && self.sign < 0 && others_zero {
                return None;
            }
            m.sign = self.sign;
        }
        Some(m)
    }
    pub fn show(&self) -> String {
        let v = self.vals();
        let parts: Vec<String> = (0..10).filter(|&i| v[i] != 0).map(|i| format!("{}={}", UNITS[i].name, v[i])).collect();
        if parts.is_empty() {
            "zero".into()
        } else {
            parts.join(",")
        }
    }
}

fn getters(s: &Span) -> [i128; 10] {
    let mut v = [0i128; 10];
    for i in 0..10 {
        v[i] = (UNITS[i].get)(s) as i128;
    }
    v
}

/// Raw getters only (Display/Debug of a malformed span might panic).
fn show_span(s: &Span) -> String {
    match guard(|| (getters(s), s.signum())) {
        Err(p) => format!("Span{{accessors panic: {}}}", p),
        Ok((v, sg)) => {
            let parts: Vec<String> = (0..10).filter(|&i| v[i] != 0).map(|i| format!("{}={}", UNITS[i].name, v[i])).collect();
            format!("Span{{signum {}; {}}}", sg, if parts.is_empty() { "all zero".to_string() } else { parts.join(",") })
        }
    }
}

/// Does the jiff span denote the model span? Checks every getter, signum,
/// is_zero/is_positive/is_negative and the one-sign invariant.
fn judge_span(s: &Span, m: &M) -> Option<String> {
    let res = guard(|| {
        let g = getters(s);
        let want = m.vals();
        let mixed = g.iter().any(|&x| x > 0) && g.iter().any(|&x| x < 0);
        let flags = (s.signum(), s.is_zero(), s.is_positive(), s.is_negative());
        let wflags = (m.sign, m.sign == 0, m.sign > 0, m.sign < 0);
        if g != want || mixed || flags != wflags {
            return Some(format!("jiff {} (is_zero {}, is_positive {}, is_negative {}) | model {} signum {}", show_span(s), flags.1, flags.2, flags.3, m.show(), m.sign));
        }
        // A span is a value: it must BEHAVE like any other span holding the
        // same integers, however it was produced (hidden state such as a
        // cached set of non-zero units must not leak into later operations).
        if let Some(fresh) = build(m) {
            let probe = |x: &Span| -> String {
                format!(
                    "{:?}|{:?}|{:?}|{:?}",
                    jiff::SignedDuration::try_from(*x).ok(),
                    jiff::Timestamp::UNIX_EPOCH.checked_add(*x).ok(),
                    jiff::civil::Time::midnight().checked_add(*x).ok(),
                    x.total(jiff::Unit::Second).ok().map(|f| f.to_bits()),
                )
            };
            let (a, b) = (probe(s), probe(&fresh));
            if a != b {
                return Some(format!("behaves differently from a span built from the same fields {}: [try_into SignedDuration | epoch+span | midnight+span | total(Second)] = {} vs {}", m.show(), a, b));
            }
        }
        None
    });
    match res {
        Ok(x) => x,
        Err(p) => Some(format!("accessor panic: {}", p)),
    }
}

fn unit_values(limit: i64) -> Vec<i64> {
    let mut v: Vec<i64> = vec![];
    let l = limit as i128;
    for x in [0i128, 1, -1, 2, -2, l - 1, -(l - 1), l, -l, l + 1, -(l + 1), i64::MIN as i128, i64::MAX as i128, i32::MAX as i128, i32::MIN as i128, i16::MAX as i128 + 1] {
        if let Ok(x) = i64::try_from(x) {
            if !v.contains(&x) {
                v.push(x);
            }
        }
    }
    v
}

/// Each unit alone: values in and just outside the limit through the
/// panicking setter, the try_ setter and all getters.
pub fn units(r: &Report) {
    let (mut ok, mut refused) = (0u64, 0u64);
    for (u, def) in UNITS.iter().enumerate() {
        for v in unit_values(def.limit) {
            let case = format!("{}({})", def.name, v);
            let within = (v as i128).abs() <= def.limit as i128;
            let model = M::zero().set(u, v as i128).expect("fresh span: determined");
            r.add_states(1);
            r.add_transitions(2);
            r.add_validated(2);
            match guard(|| (def.try_set)(Span::new(), v).map_err(|e| e.to_string())) {
                Err(p) => r.viol("span_units", &format!("Span::try_{}/{}", def.name, panic_sig(&p)), case.clone(), p),
                Ok(Err(e)) => {
                    refused += 1;
                    if within {
                        r.viol("span_units", &format!("Span::try_{}/refused-within-limit", def.name), case.clone(), format!("jiff Err({}) | limit {}", e, def.limit));
                    }
                }
                Ok(Ok(s)) => {
                    ok += 1;
                    if !within {
                        r.viol("span_units", &format!("Span::try_{}/accepted-beyond-limit", def.name), case.clone(), format!("jiff {} | limit {}", show_span(&s), def.limit));
                    } else if let Some(d) = judge_span(&s, &model) {
                        r.viol("span_units", &format!("Span::try_{}/value", def.name), case.clone(), d);
                    }
                }
            }
            match guard(|| (def.set)(Span::new(), v)) {
                Err(p) => {
                    if within {
                        r.viol("span_units", &format!("Span::{}/spurious-panic", def.name), case.clone(), format!("panic {} | limit {}", p, def.limit));
                    }
                }
                Ok(s) => {
                    if !within {
                        r.viol("span_units", &format!("Span::{}/no-panic-beyond-limit", def.name), case.clone(), format!("jiff {} | limit {} (documented to panic)", show_span(&s), def.limit));
                    } else if let Some(d) = judge_span(&s, &model) {
                        r.viol("span_units", &format!("Span::{}/value", def.name), case.clone(), d);
                    }
                }
            }
        }
    }
    r.outcome("span_unit_accepted", ok);
    r.outcome("span_unit_refused", refused);
    r.require(ok > 0 && refused > 0, "unit setters both accept and refuse");
    r.sample(json!({"unit": "years", "limit": 19_998, "values": unit_values(19_998)}));
}

/// Setting the same unit twice, alone and next to another non-zero unit.
pub fn overwrite(r: &Report) {
    let mut unspecified = 0u64;
    let mut n = 0u64;
    for (u, def) in UNITS.iter().enumerate() {
        let l = def.limit;
        let vals = [0i64, 1, -1, l, -l];
        // `other`: none, or a different unit set first to +-1
        let other_u = (u + 3) % 10;
        for other in [0i64, 1, -1] {
            for a in vals {
                for b in vals {
                    n += 1;
                    r.add_states(1);
                    r.add_transitions(3);
                    r.add_validated(1);
                    let case = format!("{}({}) then {}({}) then {}({})", UNITS[other_u].name, other, def.name, a, def.name, b);
                    let m = M::zero().set(other_u, other as i128).and_then(|m| m.set(u, a as i128)).and_then(|m| m.set(u, b as i128));
                    let got = guard(|| (def.set)((def.try_set)((UNITS[other_u].set)(Span::new(), other), a).unwrap(), b));
                    match (got, m) {
                        (Err(p), _) => r.viol("span_overwrite", &format!("Span::{}/{}", def.name, panic_sig(&p)), case, p),
                        (Ok(s), Some(m)) => {
                            if let Some(d) = judge_span(&s, &m) {
                                r.viol("span_overwrite", "Span::set(overwrite)/value-or-sign", case, d);
                            }
                        }
                        (Ok(s), None) => {
                            // sign unspecified; magnitudes and the invariant still hold
                            unspecified += 1;
                            let mut pos = M::zero().set(u, b as i128).unwrap();
                            pos.sign = 1;
                            let mut neg = pos;
                            neg.sign = -1;
                            if judge_span(&s, &pos).is_some() && judge_span(&s, &neg).is_some() {
                                r.viol("span_overwrite", "Span::set(overwrite)/magnitude", case, format!("jiff {} | model +-{}", show_span(&s), pos.show()));
                            }
                        }
                    }
                }
            }
        }
    }
    r.outcome("overwrite_sequences", n);
    r.outcome("overwrite_sign_unspecified(not judged)", unspecified);
}

/// All 3-unit subsets x all sign patterns {-,0,+}^3 x all 6 setting orders:
/// model and jiff in lockstep after every step; negate/abs on every result.
pub fn orders(r: &Report) {
    let perms: [[usize; 3]; 6] = [[0, 1, 2], [0, 2, 1], [1, 0, 2], [1, 2, 0], [2, 0, 1], [2, 1, 0]];
    let mags = [2i128, 3, 5];
    let (mut nseq, mut nneg, mut npos, mut nzero) = (0u64, 0u64, 0u64, 0u64);
    for a in 0..10 {
        for b in a + 1..10 {
            for c in b + 1..10 {
                let us = [a, b, c];
                for pat in 0..27 {
                    let signs = [pat % 3 - 1, (pat / 3) % 3 - 1, (pat / 9) % 3 - 1];
                    let vals: [i128; 3] = [signs[0] as i128 * mags[0], signs[1] as i128 * mags[1], signs[2] as i128 * mags[2]];
                    for perm in perms {
                        nseq += 1;
                        r.add_states(1);
                        r.add_transitions(5);
                        r.add_validated(5);
                        let case = format!(
                            "{}({}) {}({}) {}({})",
                            UNITS[us[perm[0]]].name, vals[perm[0]], UNITS[us[perm[1]]].name, vals[perm[1]], UNITS[us[perm[2]]].name, vals[perm[2]]
                        );
                        let mut m = M::zero();
                        let mut s = match guard(Span::new) {
                            Ok(s) => s,
                            Err(p) => {
                                r.viol("span_orders", &format!("Span::new/{}", panic_sig(&p)), case, p);
                                continue;
                            }
                        };
                        let mut failed = false;
                        for (step, &k) in perm.iter().enumerate() {
                            let u = us[k];
                            let v = vals[k];
                            m = m.set(u, v).expect("each unit set once: determined");
                            // alternate between the panicking and the fallible setter
                            let res = if (step + pat as usize) % 2 == 0 {
                                guard(|| (UNITS[u].set)(s, v as i64))
                            } else {
                                guard(|| (UNITS[u].try_set)(s, v as i64).expect("within limit"))
                            };
                            match res {
                                Err(p) => {
                                    r.viol("span_orders", &format!("Span::{}/{}", UNITS[u].name, panic_sig(&p)), case.clone(), p);
                                    failed = true;
                                    break;
                                }
                                Ok(ns) => s = ns,
                            }
                            if let Some(d) = judge_span(&s, &m) {
                                r.viol("span_orders", "Span::set(sequence)/one-sign-or-value", case.clone(), format!("after step {}: {}", step + 1, d));
                                failed = true;
                                break;
                            }
                        }
                        if failed {
                            continue;
                        }
                        match m.sign {
                            -1 => nneg += 1,
                            0 => nzero += 1,
                            _ => npos += 1,
                        }
                        // negate / abs / Neg operator
                        let mut mn = m;
                        mn.sign = -m.sign;
                        let mut ma = m;
                        ma.sign = m.sign.abs();
                        for (name, got, want) in [("negate", guard(|| s.negate()), mn), ("neg(operator)", guard(|| -s), mn), ("abs", guard(|| s.abs()), ma)] {
                            match got {
                                Err(p) => r.viol("span_orders", &format!("Span::{}/{}", name, panic_sig(&p)), case.clone(), p),
                                Ok(g) => {
                                    if let Some(d) = judge_span(&g, &want) {
                                        r.viol("span_orders", &format!("Span::{}/value", name), case.clone(), d);
                                    }
                                }
                            }
                        }
                    }
                }
            }
        }
    }
    r.outcome("order_sequences", nseq);
    r.outcome("order_results_negative", nneg);
    r.outcome("order_results_positive", npos);
    r.outcome("order_results_zero", nzero);
    r.require(nneg > 0 && npos > 0 && nzero > 0, "setter sequences yield negative, positive and zero spans");
    r.sample(json!({"sequence": "days(2) hours(-3) minutes(5)", "model": "days=-2,hours=-3,minutes=-5"}));
}

fn build(m: &M) -> Option<Span> {
    // each unit set once; negative values first so that the documented rule
    // (non-negative on a non-zero span keeps the sign) applies throughout
    let v = m.vals();
    guard(|| {
        let mut s = Span::new();
        for i in 0..10 {
            if v[i] != 0 {
                s = (UNITS[i].set)(s, v[i] as i64);
            }
        }
        s
    })
    .ok()
}

/// checked_mul and the `*` operator.
pub fn mul(r: &Report) {
    let (mut ok, mut err) = (0u64, 0u64);
    let mut spans: Vec<M> = vec![M::zero()];
    for (u, def) in UNITS.iter().enumerate() {
        let l = def.limit as i128;
        for v in [1i128, -1, 2, 3, l / 2, l / 2 + 1, -(l / 2 + 1), l, -l] {
            spans.push(M::zero().set(u, v).unwrap());
        }
    }
    // mixed spans: the tightest unit decides
    for (a, b, c) in [(0usize, 3usize, 9usize), (1, 4, 6), (2, 5, 8), (0, 1, 7)] {
        for sg in [1i128, -1] {
            let mut m = M::zero();
            m = m.set(a, sg * 2).unwrap();
            m = m.set(b, sg * 3).unwrap();
            m = m.set(c, sg * (UNITS[c].limit as i128 / 4)).unwrap();
            spans.push(m);
        }
    }
    for m in spans {
        let Some(s) = build(&m) else {
            r.viol("span_mul", "Span::build/panic", m.show(), "could not build the input span");
            continue;
        };
        if let Some(d) = judge_span(&s, &m) {
            r.viol("span_mul", "Span::build/value", m.show(), d);
            continue;
        }
        let mut factors: Vec<i64> = vec![0, 1, -1, 2, -2, 3, 4, i64::MIN, i64::MAX, i32::MAX as i64, i32::MIN as i64];
        for def in UNITS.iter() {
            for f in [def.limit, -def.limit, def.limit / 2, def.limit.saturating_add(1)] {
                if !factors.contains(&f) {
                    factors.push(f);
                }
            }
        }
        for f in factors {
            let case = format!("{} * {}", m.show(), f);
            r.add_states(1);
            r.add_transitions(2);
            r.add_validated(2);
            // unit by unit; overflow of any unit's limit is an error
            let want: Option<M> = if f == 0 {
                Some(M::zero())
            } else {
                let mut w = m;
                let mut fits_all = true;
                for i in 0..10 {
                    let p = m.mag[i] * (f as i128).abs();
                    if p > UNITS[i].limit as i128 {
                        fits_all = false;
                    }
                    w.mag[i] = p;
                }
                w.sign = m.sign * (f.signum() as i8);
                if fits_all {
                    Some(w)
                } else {
                    None
                }
            };
            let got = guard(|| s.checked_mul(f).map_err(|e| e.to_string()));
            match (&got, &want) {
                (Err(p), _) => r.viol("span_mul", &format!("Span::checked_mul/{}", panic_sig(p)), case.clone(), p.clone()),
                (Ok(Err(e)), Some(w)) => {
                    err += 1;
                    r.viol("span_mul", "Span::checked_mul/spurious-error", case.clone(), format!("jiff Err({}) | model {}", e, w.show()));
                }
                (Ok(Err(_)), None) => err += 1,
                (Ok(Ok(g)), None) => {
                    ok += 1;
                    r.viol("span_mul", "Span::checked_mul/missed-overflow", case.clone(), format!("jiff {} | model: a unit exceeds its limit", show_span(g)));
                }
                (Ok(Ok(g)), Some(w)) => {
                    ok += 1;
                    if let Some(d) = judge_span(g, w) {
                        r.viol("span_mul", "Span::checked_mul/value", case.clone(), d);
                    }
                }
            }
            // operator: panics exactly on overflow
            match (guard(|| s * f), &want) {
                (Err(p), Some(w)) => r.viol("span_mul", "Span::mul(operator)/spurious-panic", case.clone(), format!("panic {} | model {}", p, w.show())),
                (Err(_), None) => {}
                (Ok(g), None) => r.viol("span_mul", "Span::mul(operator)/no-panic", case.clone(), format!("jiff {} | model: overflow, documented to panic", show_span(&g))),
                (Ok(g), Some(w)) => {
                    if let Some(d) = judge_span(&g, w) {
                        r.viol("span_mul", "Span::mul(operator)/value", case.clone(), d);
                    }
                }
            }
        }
    }
    r.outcome("span_mul_ok", ok);
    r.outcome("span_mul_err", err);
    r.require(ok > 0 && err > 0, "checked_mul both succeeds and overflows");
}

/// fieldwise(): equal and hash-equal exactly when all ten unit values agree,
/// however the spans were built.
pub fn fieldwise(r: &Report) {
    let perms: [[usize; 3]; 6] = [[0, 1, 2], [0, 2, 1], [1, 0, 2], [1, 2, 0], [2, 0, 1], [2, 1, 0]];
    let mut items: Vec<(M, Span)> = vec![];
    for us in [[0usize, 3, 9], [1, 4, 6], [0, 1, 3]] {
        for pat in 0..27i32 {
            let signs = [pat % 3 - 1, (pat / 3) % 3 - 1, (pat / 9) % 3 - 1];
            // magnitudes 1 so that different subsets/patterns collide on purpose
            for perm in perms {
                let mut m = M::zero();
                let s = guard(|| {
                    let mut s = Span::new();
                    for &k in &perm {
                        s = (UNITS[us[k]].set)(s, signs[k] as i64);
                    }
                    s
                });
                for &k in &perm {
                    m = m.set(us[k], signs[k] as i128).unwrap();
                }
                if let Ok(s) = s {
                    items.push((m, s));
                }
            }
        }
    }
    let (mut eqs, mut nes) = (0u64, 0u64);
    for (ma, a) in &items {
        for (mb, b) in &items {
            r.add_transitions(1);
            r.add_validated(1);
            let want = ma.vals() == mb.vals();
            let case = || format!("{} vs {}", ma.show(), mb.show());
            match guard(|| {
                let (fa, fb) = (a.fieldwise(), b.fieldwise());
                (fa == fb, fa == *b, *a == fb, hash_of(&fa) == hash_of(&fb))
            }) {
                Err(p) => r.viol("span_fieldwise", &format!("Span::fieldwise/{}", panic_sig(&p)), case(), p),
                Ok((e1, e2, e3, h)) => {
                    if want {
                        eqs += 1
                    } else {
                        nes += 1
                    }
                    if e1 != want || e2 != want || e3 != want {
                        r.viol("span_fieldwise", "SpanFieldwise::eq/value", case(), format!("jiff {} {} {} model {}", e1, e2, e3, want));
                    }
                    if want && !h {
                        r.viol("span_fieldwise", "SpanFieldwise::hash/equal-values-hash-differently", case(), "hash differs");
                    }
                }
            }
        }
    }
    r.add_states(items.len() as u64);
    r.outcome("fieldwise_equal_pairs", eqs);
    r.outcome("fieldwise_unequal_pairs", nes);
    r.require(eqs > items.len() as u64 && nes > 0, "fieldwise pairs include equal spans built in different orders");
}

fn invariant_ns(m: &M) -> i128 {
    let v = m.vals();
    (2..10).map(|i| v[i] * UNITS[i].ns.unwrap()).sum()
}

/// Span -> SignedDuration / std Duration.
pub fn to_duration(r: &Report) {
    let mut spans: Vec<M> = vec![M::zero()];
    for (u, def) in UNITS.iter().enumerate() {
        let l = def.limit as i128;
        for v in [1i128, -1, 2, l - 1, l, -l] {
            spans.push(M::zero().set(u, v).unwrap());
        }
    }
    for sg in [1i128, -1] {
        // everything at its limit, from weeks / from hours down
        for from in [2usize, 3, 4, 6] {
            let mut m = M::zero();
            for i in from..10 {
                m = m.set(i, sg * UNITS[i].limit as i128).unwrap();
            }
            spans.push(m);
        }
        for (a, b, c) in [(4usize, 5usize, 9usize), (3, 4, 9), (6, 7, 8), (2, 3, 6), (0, 4, 9), (1, 3, 5)] {
            let mut m = M::zero();
            m = m.set(a, sg * 2).unwrap();
            m = m.set(b, sg * 3).unwrap();
            m = m.set(c, sg * 999_999_999).unwrap();
            spans.push(m);
        }
    }
    let (mut ok, mut err) = (0u64, 0u64);
    for m in &spans {
        let Some(s) = build(m) else {
            r.viol("span_to_duration", "Span::build/panic", m.show(), "could not build the input span");
            continue;
        };
        if let Some(d) = judge_span(&s, m) {
            r.viol("span_to_duration", "Span::build/value", m.show(), d);
            continue;
        }
        let case = m.show();
        let v = m.vals();
        let cal_units = v[0] != 0 || v[1] != 0;
        let above_hours = cal_units || v[2] != 0 || v[3] != 0;
        r.add_states(1);
        r.add_transitions(3);
        r.add_validated(3);
        // TryFrom<Span> for SignedDuration: units above hours need a relative date
        let exact = invariant_ns(m);
        match guard(|| SignedDuration::try_from(s).map_err(|e| e.to_string())) {
            Err(p) => r.viol("span_to_duration", &format!("SignedDuration::try_from(Span)/{}", panic_sig(&p)), case.clone(), p),
            Ok(Err(e)) => {
                err += 1;
                if !above_hours {
                    r.viol("span_to_duration", "SignedDuration::try_from(Span)/spurious-error", case.clone(), format!("jiff Err({}) | model {}", e, ds(exact)));
                }
            }
            Ok(Ok(d)) => {
                ok += 1;
                if above_hours {
                    r.viol("span_to_duration", "SignedDuration::try_from(Span)/accepted-units-above-hours", case.clone(), format!("jiff {}", show(d)));
                } else if let Ok(Some(detail)) = guard(|| judge(d, exact)) {
                    r.viol("span_to_duration", "SignedDuration::try_from(Span)/value", case.clone(), detail);
                }
            }
        }
        // TryFrom<Span> for std Duration: additionally refuses negative spans
        match guard(|| Duration::try_from(s).map_err(|e| e.to_string())) {
            Err(p) => r.viol("span_to_duration", &format!("std::Duration::try_from(Span)/{}", panic_sig(&p)), case.clone(), p),
            Ok(Err(e)) => {
                err += 1;
                if !above_hours && m.sign >= 0 {
                    r.viol("span_to_duration", "std::Duration::try_from(Span)/spurious-error", case.clone(), format!("jiff Err({}) | model {} ns", e, exact));
                }
            }
            Ok(Ok(d)) => {
                ok += 1;
                if above_hours || m.sign < 0 {
                    r.viol("span_to_duration", "std::Duration::try_from(Span)/accepted", case.clone(), format!("jiff {:?} | model: refusal (negative or units above hours)", d));
                } else if d.as_nanos() as i128 != exact {
                    r.viol("span_to_duration", "std::Duration::try_from(Span)/value", case.clone(), format!("jiff {:?} | model {} ns", d, exact));
                }
            }
        }
        // to_duration with 24-hour days: weeks and days become invariant;
        // years/months are an error
        match guard(|| s.to_duration(SpanRelativeTo::days_are_24_hours()).map_err(|e| e.to_string())) {
            Err(p) => r.viol("span_to_duration", &format!("Span::to_duration(days_are_24_hours)/{}", panic_sig(&p)), case.clone(), p),
            Ok(Err(e)) => {
                err += 1;
                if !cal_units {
                    r.viol("span_to_duration", "Span::to_duration(days_are_24_hours)/spurious-error", case.clone(), format!("jiff Err({}) | model {}", e, ds(exact)));
                }
            }
            Ok(Ok(d)) => {
                ok += 1;
                if cal_units {
                    r.viol("span_to_duration", "Span::to_duration(days_are_24_hours)/accepted-calendar-units", case.clone(), format!("jiff {}", show(d)));
                } else if let Ok(Some(detail)) = guard(|| judge(d, exact)) {
                    r.viol("span_to_duration", "Span::to_duration(days_are_24_hours)/value", case.clone(), detail);
                }
            }
        }
    }
    // relative to a civil date: years and months by the calendar (month
    // arithmetic with day clamping, then days, then the time units)
    let rels: [(i64, i64, i64); 3] = [(2024, 1, 31), (2023, 3, 31), (1970, 1, 1)];
    let mut nrel = 0u64;
    for &(y, mo, d) in &rels {
        let start = cal::days_from_civil(y, mo, d);
        for years in [0i128, 1, -1] {
            for months in [0i128, 1, -1, 13, -13] {
                for days in [0i128, 1, -31] {
                    for hours in [0i128, 25, -25] {
                        // a span has one sign: skip mixed-sign combinations
                        let all = [years, months, days, hours];
                        if all.iter().any(|&x| x > 0) && all.iter().any(|&x| x < 0) {
                            continue;
                        }
                        let mut m = M::zero();
                        for (u, v) in [(0usize, years), (1, months), (3, days), (4, hours)] {
                            if v != 0 {
                                m = m.set(u, v).unwrap();
                            }
                        }
                        let Some(s) = build(&m) else { continue };
                        nrel += 1;
                        r.add_states(1);
                        r.add_transitions(1);
                        r.add_validated(1);
                        let (ny, nm) = cal::add_months(y, mo, (years * 12 + months) as i64);
                        let nd = d.min(cal::days_in_month(ny, nm));
                        let end = cal::days_from_civil(ny, nm, nd) as i128 + days;
                        let exact = (end - start as i128) * 86_400 * NS + hours * 3_600 * NS;
                        let case = format!("{} relative to {:04}-{:02}-{:02}", m.show(), y, mo, d);
                        let got = guard(|| {
                            let date = Date::new(y as i16, mo as i8, d as i8).expect("valid date");
                            s.to_duration(date).map_err(|e| e.to_string())
                        });
                        match got {
                            Err(p) => r.viol("span_to_duration", &format!("Span::to_duration(date)/{}", panic_sig(&p)), case, p),
                            Ok(Err(e)) => r.viol("span_to_duration", "Span::to_duration(date)/spurious-error", case, format!("jiff Err({}) | model {}", e, ds(exact))),
                            Ok(Ok(dur)) => {
                                if let Ok(Some(detail)) = guard(|| judge(dur, exact)) {
                                    r.viol("span_to_duration", "Span::to_duration(date)/value", case, detail);
                                }
                            }
                        }
                    }
                }
            }
        }
    }
    r.outcome("span_to_duration_ok", ok);
    r.outcome("span_to_duration_err", err);
    r.outcome("span_to_duration_relative_date_cases", nrel);
    r.require(ok > 0 && err > 0 && nrel > 0, "span->duration conversions both succeed and fail");
}

/// SignedDuration / std Duration -> Span.
pub fn from_duration(r: &Report) {
    let lim = UNITS[6].limit as i128; // seconds
    let mut ns: Vec<i128> = super::pool().into_iter().map(|(n, _)| n).collect();
    for s in [lim - 1, lim, lim + 1] {
        for f in [0i128, 1, 123_456_789, 999_999_999] {
            ns.push(s * NS + f);
            ns.push(-(s * NS + f));
        }
    }
    ns.extend([86_400 * NS + 123_456_789, -(86_400 * NS + 123_456_789), 1_001_001, -1_001_001, 999_999, 1_000]);
    let (mut ok, mut err) = (0u64, 0u64);
    let model_of = |n: i128| -> Option<M> {
        // seconds beyond the span limit are refused; the sub-second part is
        // split into milli/micro/nano
        if (n / NS).abs() > lim {
            return None;
        }
        let sub = (n % NS).abs();
        let mut m = M::zero();
        m.mag[6] = (n / NS).abs();
        m.mag[7] = sub / 1_000_000;
        m.mag[8] = (sub / 1_000) % 1_000;
        m.mag[9] = sub % 1_000;
        m.sign = n.signum() as i8;
        Some(m)
    };
    for n in ns {
        if !fits(n) {
            continue;
        }
        let case = ds(n);
        let want = model_of(n);
        r.add_states(1);
        r.add_transitions(1);
        r.add_validated(1);
        let got = guard(|| {
            let d = SignedDuration::new((n / NS) as i64, (n % NS) as i32);
            Span::try_from(d).map_err(|e| e.to_string())
        });
        match (got, &want) {
            (Err(p), _) => r.viol("span_from_duration", &format!("Span::try_from(SignedDuration)/{}", panic_sig(&p)), case.clone(), p),
            (Ok(Err(e)), Some(w)) => {
                err += 1;
                r.viol("span_from_duration", "Span::try_from(SignedDuration)/spurious-error", case.clone(), format!("jiff Err({}) | model {}", e, w.show()));
            }
            (Ok(Err(_)), None) => err += 1,
            (Ok(Ok(s)), None) => {
                ok += 1;
                r.viol("span_from_duration", "Span::try_from(SignedDuration)/accepted-beyond-limit", case.clone(), format!("jiff {} | model: seconds exceed the span limit", show_span(&s)));
            }
            (Ok(Ok(s)), Some(w)) => {
                ok += 1;
                if let Some(d) = judge_span(&s, w) {
                    r.viol("span_from_duration", "Span::try_from(SignedDuration)/value", case.clone(), d);
                }
            }
        }
        if n >= 0 {
            r.add_transitions(1);
            r.add_validated(1);
            let got = guard(|| Span::try_from(Duration::new((n / NS) as u64, (n % NS) as u32)).map_err(|e| e.to_string()));
            match (got, &want) {
                (Err(p), _) => r.viol("span_from_duration", &format!("Span::try_from(std Duration)/{}", panic_sig(&p)), case.clone(), p),
                (Ok(Err(e)), Some(w)) => r.viol("span_from_duration", "Span::try_from(std Duration)/spurious-error", case.clone(), format!("jiff Err({}) | model {}", e, w.show())),
                (Ok(Err(_)), None) => {}
                (Ok(Ok(s)), None) => r.viol("span_from_duration", "Span::try_from(std Duration)/accepted-beyond-limit", case.clone(), format!("jiff {}", show_span(&s))),
                (Ok(Ok(s)), Some(w)) => {
                    if let Some(d) = judge_span(&s, w) {
                        r.viol("span_from_duration", "Span::try_from(std Duration)/value", case.clone(), d);
                    }
                }
            }
        }
    }
    // std durations beyond i64 seconds
    for s in [i64::MAX as u64, i64::MAX as u64 + 1, u64::MAX] {
        r.add_validated(1);
        match guard(|| Span::try_from(Duration::new(s, 1)).is_ok()) {
            Err(p) => r.viol("span_from_duration", &format!("Span::try_from(std Duration)/{}", panic_sig(&p)), format!("std Duration({}s,1ns)", s), p),
            Ok(true) => r.viol("span_from_duration", "Span::try_from(std Duration)/accepted-beyond-limit", format!("std Duration({}s,1ns)", s), "Ok"),
            Ok(false) => err += 1,
        }
    }
    r.outcome("span_from_duration_ok", ok);
    r.outcome("span_from_duration_err", err);
    r.require(ok > 0 && err > 0, "duration->span conversions both succeed and fail");
}
