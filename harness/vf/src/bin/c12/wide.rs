//! Exact helpers for the float oracles of C12: a tiny unsigned 256-bit
//! integer, exact magnitude of `n * x` and `n / x` for an integer `n` and a
//! float `x`, correctly rounded ratios, and ulp-step distances.

#[derive(Clone, Copy, Debug, PartialEq, Eq)]
pub struct U256(pub [u64; 4]); // little endian limbs

impl U256 {
    pub fn from_u128(x: u128) -> U256 {
        U256([x as u64, (x >> 64) as u64, 0, 0])
    }
    pub fn mul(a: u128, b: u128) -> U256 {
        let al = [a as u64, (a >> 64) as u64];
        let bl = [b as u64, (b >> 64) as u64];
        let mut out = [0u64; 4];
        for i in 0..2 {
            let mut carry: u128 = 0;
            for j in 0..2 {
                let cur = out[i + j] as u128 + (al[i] as u128) * (bl[j] as u128) + carry;
                out[i + j] = cur as u64;
                carry = cur >> 64;
            }
            out[i + 2] = carry as u64;
        }
        U256(out)
    }
    pub fn is_zero(&self) -> bool {
        self.0 == [0; 4]
    }
    pub fn bitlen(&self) -> u32 {
        for i in (0..4).rev() {
            if self.0[i] != 0 {
                return 64 * i as u32 + (64 - self.0[i].leading_zeros());
            }
        }
        0
    }
    /// Left shift; the caller guarantees the result fits.
    pub fn shl(&self, k: u32) -> U256 {
        assert!(self.bitlen() + k <= 256);
        let limbs = (k / 64) as usize;
        let bits = k % 64;
        let mut out = [0u64; 4];
        for i in (0..4).rev() {
            if i < limbs {
                continue;
            }
            let src = i - limbs;
            let mut v = self.0[src] << bits;
            if bits > 0 && src > 0 {
                v |= self.0[src - 1] >> (64 - bits);
            }
            out[i] = v;
        }
        U256(out)
    }
    /// Right shift, also reporting whether no set bit was dropped.
    pub fn shr(&self, k: u32) -> (U256, bool) {
        if k >= 256 {
            return (U256([0; 4]), self.is_zero());
        }
        let limbs = (k / 64) as usize;
        let bits = k % 64;
        let mut exact = true;
        for i in 0..limbs {
            if self.0[i] != 0 {
                exact = false;
            }
        }
        if bits > 0 && self.0[limbs] & ((1u64 << bits) - 1) != 0 {
            exact = false;
        }
        let mut out = [0u64; 4];
        for i in 0..4 {
            let src = i + limbs;
            if src >= 4 {
                break;
            }
            let mut v = self.0[src] >> bits;
            if bits > 0 && src + 1 < 4 {
                v |= self.0[src + 1] << (64 - bits);
            }
            out[i] = v;
        }
        (U256(out), exact)
    }
    pub fn div_u64(&self, d: u64) -> (U256, u64) {
        assert!(d != 0);
        let mut out = [0u64; 4];
        let mut rem: u128 = 0;
        for i in (0..4).rev() {
            let cur = (rem << 64) | self.0[i] as u128;
            out[i] = (cur / d as u128) as u64;
            rem = cur % d as u128;
        }
        (U256(out), rem as u64)
    }
    pub fn to_u128(&self) -> Option<u128> {
        if self.0[2] != 0 || self.0[3] != 0 {
            None
        } else {
            Some(self.0[0] as u128 | (self.0[1] as u128) << 64)
        }
    }
}

/// Magnitude of an exact real: either beyond 2^125 or floor + exactness.
#[derive(Clone, Copy, Debug, PartialEq, Eq)]
pub enum Mag {
    Huge,
    Val { floor: u128, exact: bool },
}

fn bl(x: u128) -> u32 {
    128 - x.leading_zeros()
}

/// |n * m * 2^e| for n, m >= 0.
pub fn mul_mag(n: u128, m: u128, e: i32) -> Mag {
    let p = U256::mul(n, m);
    if p.is_zero() {
        return Mag::Val { floor: 0, exact: true };
    }
    if e >= 0 {
        if p.bitlen() as i64 + e as i64 > 125 {
            return Mag::Huge;
        }
        Mag::Val { floor: p.shl(e as u32).to_u128().unwrap(), exact: true }
    } else {
        let (q, exact) = p.shr((-e) as u32);
        match q.to_u128() {
            Some(f) if bl(f) <= 125 => Mag::Val { floor: f, exact },
            _ => Mag::Huge,
        }
    }
}

/// |n / (m * 2^e)| for n >= 0, m > 0.
pub fn div_mag(n: u128, m: u128, e: i32) -> Mag {
    assert!(m != 0 && m < (1u128 << 64));
    if n == 0 {
        return Mag::Val { floor: 0, exact: true };
    }
    if e <= 0 {
        let s = (-e) as u32;
        if bl(n) as i64 + s as i64 - bl(m) as i64 > 125 {
            return Mag::Huge;
        }
        // bl(n) + s <= 125 + bl(m) + 1 <= 190
        let nn = U256::from_u128(n).shl(s);
        let (q, rem) = nn.div_u64(m as u64);
        match q.to_u128() {
            Some(f) if bl(f) <= 125 => Mag::Val { floor: f, exact: rem == 0 },
            _ => Mag::Huge,
        }
    } else {
        if bl(m) + e as u32 > 127 {
            return Mag::Val { floor: 0, exact: false };
        }
        let d = m << e;
        Mag::Val { floor: n / d, exact: n % d == 0 }
    }
}

/// `num / den` (den > 0) rounded to nearest-even with `prec` significant bits,
/// returned as an `f64` holding that value exactly, plus whether the ratio was
/// exactly representable. Only for results in the normal range of the target
/// type.
pub fn round_ratio(num: u128, den: u128, prec: u32) -> (f64, bool) {
    assert!(den != 0 && prec <= 53);
    if num == 0 {
        return (0.0, true);
    }
    assert!(bl(den) <= 120 && bl(num) <= 120);
    let want = prec + 2;
    let mut acc = num / den;
    let mut r = num % den;
    let mut exp: i32 = 0;
    let mut sticky = false;
    if bl(acc) > want {
        let drop = bl(acc) - want;
        sticky = acc & ((1u128 << drop) - 1) != 0;
        acc >>= drop;
        exp += drop as i32;
    } else {
        let mut iters = 0;
        while bl(acc) < want {
            r <<= 1;
            let bit = r >= den;
            if bit {
                r -= den;
            }
            acc = (acc << 1) | bit as u128;
            exp -= 1;
            iters += 1;
            assert!(iters < 400);
        }
    }
    sticky |= r != 0;
    let low2 = acc & 3;
    let mut q = acc >> 2;
    exp += 2;
    let exact = low2 == 0 && !sticky;
    if low2 == 3 || (low2 == 2 && (sticky || q & 1 == 1)) {
        q += 1;
    }
    ((q as f64) * 2f64.powi(exp), exact)
}

fn key64(x: f64) -> i64 {
    let b = x.to_bits() as i64;
    if b >= 0 {
        b
    } else {
        i64::MIN.wrapping_sub(b)
    }
}
/// Number of representable `f64` values between two finite floats.
pub fn steps64(a: f64, b: f64) -> u64 {
    (key64(a) as i128 - key64(b) as i128).unsigned_abs() as u64
}
fn key32(x: f32) -> i32 {
    let b = x.to_bits() as i32;
    if b >= 0 {
        b
    } else {
        i32::MIN.wrapping_sub(b)
    }
}
pub fn steps32(a: f32, b: f32) -> u64 {
    (key32(a) as i64 - key32(b) as i64).unsigned_abs()
}

/// Decompose a finite f64 into (negative, mantissa, exponent): |x| = m * 2^e.
pub fn decomp(x: f64) -> (bool, u128, i32) {
    let (m, e) = refmodel::num::f64_decompose(x).expect("finite");
    (x.is_sign_negative(), m.unsigned_abs(), e)
}

/// Run at start-up by the check (the helpers are part of the oracle).
pub fn selftest() {
    {
        assert_eq!(U256::mul(u128::MAX, u128::MAX).bitlen(), 256);
        assert_eq!(mul_mag(3, 5, 1), Mag::Val { floor: 30, exact: true });
        assert_eq!(mul_mag(3, 5, -1), Mag::Val { floor: 7, exact: false });
        assert_eq!(div_mag(30, 4, 0), Mag::Val { floor: 7, exact: false });
        assert_eq!(div_mag(30, 3, -1), Mag::Val { floor: 20, exact: true });
        assert_eq!(div_mag(30, 3, 1), Mag::Val { floor: 5, exact: true });
        assert_eq!(round_ratio(1, 3, 53).0, 1.0 / 3.0);
        assert_eq!(round_ratio(10, 4, 53), (2.5, true));
        assert_eq!(round_ratio(1, 3, 24).0 as f32, 1.0f32 / 3.0f32);
        assert_eq!(steps64(1.0, 1.0 + f64::EPSILON), 1);
        assert_eq!(steps64(-0.0, 0.0), 0);
        // cross-check round_ratio against hardware division on exactly representable operands
        for a in [1u128, 3, 7, 10, 1_000_000_007, (1 << 53) - 1, 123_456_789_012_345] {
            for b in [1u128, 3, 7, 1_000_000_000, (1 << 53) - 1, 1 << 40, 999_999_937] {
                assert_eq!(round_ratio(a, b, 53).0, a as f64 / b as f64, "{}/{}", a, b);
                if a < (1 << 24) && b < (1 << 24) {
                    assert_eq!(round_ratio(a, b, 24).0 as f32, a as f32 / b as f32, "{}/{} f32", a, b);
                }
            }
        }
        assert_eq!(mul_mag(1 << 93, 1 << 52, 11), Mag::Huge);
        assert_eq!(mul_mag(1 << 93, 1 << 52, -100), Mag::Val { floor: 1 << 45, exact: true });
        assert_eq!(div_mag(1 << 93, 1 << 52, -60), Mag::Val { floor: 1 << 101, exact: true });
        assert_eq!(div_mag(1 << 93, 1 << 52, -100), Mag::Huge);
        assert_eq!(div_mag(5, 1 << 52, 100), Mag::Val { floor: 0, exact: false });
    }
}
