//! SignedDuration: float constructors, float views, mul_f64/div_f64 and
//! div_duration_*. Exact arithmetic on the float's dyadic expansion.
//!
//! jiff's float constructors *round* the nanosecond (documented), so a
//! produced value is accepted when it is within one nanosecond of the exact
//! dyadic value; the overflow verdict gets no slack wherever the float
//! computation is exact.

use super::wide::{decomp, div_mag, mul_mag, round_ratio, steps32, steps64, Mag};
use super::{ds, fits, judge, pool, show, HI, LO, NS};
use jiff::SignedDuration;
use rayon::prelude::*;
use serde_json::json;
use vf::{guard, panic_sig, Report};

pub fn f64_pool() -> Vec<f64> {
    let two63 = 9_223_372_036_854_775_808.0f64;
    let base = [
        0.0,
        5e-324,
        1e-10,
        0.49e-9,
        0.5e-9,
        1e-9,
        1.5e-9,
        0.999_999_999,
        0.999_999_999_5,
        0.999_999_999_6,
        1.0,
        1.5,
        2.0,
        12.123_456_789,
        4_294_967_296.75,
        4_503_599_627_370_496.5, // 2^52 + 0.5
        9_007_199_254_740_992.0, // 2^53
        two63 - 1024.0,
        two63,
        two63 + 2048.0,
        1e19,
        1e300,
        f64::MAX,
        f64::INFINITY,
        // added by the coverage audit
        f64::MIN_POSITIVE,
        f64::EPSILON,
        2.5e-9,
        0.1,
        0.5,
        0.999_999_999_999_999_9, // 1 - 2^-53: the nanoseconds round up to a whole second
        4.0,
        86_400.0,
        1_000_000_000.0,
        4_503_599_627_370_495.5, // 2^52 - 0.5
        9_007_199_254_740_991.0, // 2^53 - 1
        9_007_199_254_740_994.0, // 2^53 + 2
        1e18,
        4_611_686_018_427_387_904.0, // 2^62
    ];
    let mut v = vec![];
    for x in base {
        v.push(x);
        v.push(-x);
    }
    v.push(f64::NAN);
    v
}

pub fn f32_pool() -> Vec<f32> {
    let two63 = 9_223_372_036_854_775_808.0f32;
    let base = [
        0.0f32,
        1e-45,
        1e-10,
        0.5e-9,
        1e-9,
        1.5e-9,
        0.999_999_94,
        1.0,
        1.5,
        12.123_456_789,
        16_777_216.0,
        4_294_967_296.0,
        9_007_199_254_740_992.0,
        f32::from_bits(two63.to_bits() - 1), // largest f32 below 2^63
        two63,
        f32::from_bits(two63.to_bits() + 1),
        1e19,
        f32::MAX,
        f32::INFINITY,
        // added by the coverage audit
        f32::MIN_POSITIVE,
        f32::EPSILON,
        0.1,
        0.5,
        2.0,
        4.0,
        86_400.0,
        8_388_608.5, // 2^23 + 0.5
        16_777_215.0, // 2^24 - 1
        4_611_686_018_427_387_904.0, // 2^62
    ];
    let mut v = vec![];
    for x in base {
        v.push(x);
        v.push(-x);
    }
    v.push(f32::NAN);
    v
}

/// What the model allows for a result whose exact value has magnitude `mag`
/// and sign `neg`, with absolute slack `tol` (nanoseconds).
struct Allowed {
    must_ok: bool,
    must_err: bool,
    /// admissible signed results if Ok
    lo: i128,
    hi: i128,
    exact_desc: String,
}

fn allowed(mag: Mag, neg: bool, tol: u128) -> Allowed {
    let limit: u128 = if neg { LO.unsigned_abs() } else { HI as u128 };
    match mag {
        Mag::Huge => Allowed { must_ok: false, must_err: true, lo: 0, hi: 0, exact_desc: "|exact| > 2^125 ns".into() },
        Mag::Val { floor: f, exact } => {
            let upper = if exact { f } else { f + 1 }; // |E| <= upper, |E| >= f
            let must_ok = if tol == 0 { f < limit || (f == limit && exact) } else { upper + tol <= limit };
            let must_err = f >= limit + 1 + tol;
            let lo_m = f.saturating_sub(tol) as i128;
            let hi_m = (upper + tol) as i128;
            let (lo, hi) = if neg { (-hi_m, -lo_m) } else { (lo_m, hi_m) };
            let desc = format!("exact {}{}{} ns", if neg { "-" } else { "" }, f, if exact { "" } else { "+fraction" });
            Allowed { must_ok, must_err, lo, hi, exact_desc: desc }
        }
    }
}

/// Compare an outcome (`None` = error/panic, `Some(d)` = value) with `Allowed`.
/// Returns the failure class if any.
fn verdict(a: &Allowed, got: &Option<SignedDuration>) -> Option<(&'static str, String)> {
    match got {
        None => {
            if a.must_ok {
                Some(("spurious-overflow", format!("jiff refused | model {} is representable", a.exact_desc)))
            } else {
                None
            }
        }
        Some(d) => {
            if a.must_err {
                return Some(("accepted-out-of-range", format!("jiff {} | model {} does not fit: refusal required", show(*d), a.exact_desc)));
            }
            let rn = match guard(|| d.as_nanos()) {
                Ok(x) => x,
                Err(p) => return Some(("views-panic", p)),
            };
            if fits(rn) {
                if let Ok(Some(detail)) = guard(|| judge(*d, rn)) {
                    return Some(("denormalised", detail));
                }
            }
            if rn < a.lo || rn > a.hi {
                return Some(("value", format!("jiff {} = {} ns | model {} (admissible {}..={})", show(*d), rn, a.exact_desc, a.lo, a.hi)));
            }
            None
        }
    }
}

const TWO63: f64 = 9_223_372_036_854_775_808.0;

/// try_from_secs_f64/f32 and from_secs_f64/f32.
pub fn ctor(r: &Report) {
    let mut ok = 0u64;
    let mut err = 0u64;
    // f64
    for x in f64_pool() {
        let case = format!("secs={:e} (bits {:#018x})", x, x.to_bits());
        r.add_states(1);
        r.add_transitions(2);
        r.add_validated(2);
        let a = if !x.is_finite() {
            Allowed { must_ok: false, must_err: true, lo: 0, hi: 0, exact_desc: "non-finite".into() }
        } else {
            let (neg, m, e) = decomp(x);
            allowed(mul_mag(NS as u128, m, e), neg, 0)
        };
        let class = if x == TWO63 { ":secs==2^63" } else { "" };
        match guard(|| SignedDuration::try_from_secs_f64(x).ok()) {
            Err(p) => r.viol("sd_float_ctor", &format!("SignedDuration::try_from_secs_f64/{}{}", panic_sig(&p), class), case.clone(), p),
            Ok(got) => {
                if got.is_some() {
                    ok += 1
                } else {
                    err += 1
                }
                if let Some((kind, detail)) = verdict(&a, &got) {
                    r.viol("sd_float_ctor", &format!("SignedDuration::try_from_secs_f64/{}{}", kind, class), case.clone(), detail);
                }
            }
        }
        let got = guard(|| SignedDuration::from_secs_f64(x)).ok();
        if let Some((kind, detail)) = verdict(&a, &got) {
            let kind = match kind {
                "accepted-out-of-range" => "no-panic",
                "spurious-overflow" => "spurious-panic",
                k => k,
            };
            r.viol("sd_float_ctor", &format!("SignedDuration::from_secs_f64/{}{}", kind, class), case.clone(), detail);
        }
    }
    // f32: the fractional part is scaled in f32 arithmetic (24 bits), which the
    // documentation's own examples show ("loss of precision"); whole-second
    // inputs convert exactly.
    for x in f32_pool() {
        let case = format!("secs={:e}f32 (bits {:#010x})", x, x.to_bits());
        r.add_states(1);
        r.add_transitions(2);
        r.add_validated(2);
        let a = if !x.is_finite() {
            Allowed { must_ok: false, must_err: true, lo: 0, hi: 0, exact_desc: "non-finite".into() }
        } else {
            let (neg, m, e) = decomp(x as f64);
            let tol = if x.fract() == 0.0 { 0 } else { 64 };
            allowed(mul_mag(NS as u128, m, e), neg, tol)
        };
        let class = if x as f64 == TWO63 { ":secs==2^63" } else { "" };
        match guard(|| SignedDuration::try_from_secs_f32(x).ok()) {
            Err(p) => r.viol("sd_float_ctor", &format!("SignedDuration::try_from_secs_f32/{}{}", panic_sig(&p), class), case.clone(), p),
            Ok(got) => {
                if got.is_some() {
                    ok += 1
                } else {
                    err += 1
                }
                if let Some((kind, detail)) = verdict(&a, &got) {
                    r.viol("sd_float_ctor", &format!("SignedDuration::try_from_secs_f32/{}{}", kind, class), case.clone(), detail);
                }
            }
        }
        let got = guard(|| SignedDuration::from_secs_f32(x)).ok();
        if let Some((kind, detail)) = verdict(&a, &got) {
            let kind = match kind {
                "accepted-out-of-range" => "no-panic",
                "spurious-overflow" => "spurious-panic",
                k => k,
            };
            r.viol("sd_float_ctor", &format!("SignedDuration::from_secs_f32/{}{}", kind, class), case.clone(), detail);
        }
    }
    r.outcome("float_ctor_ok", ok);
    r.outcome("float_ctor_err", err);
    r.require(ok > 0 && err > 0, "float constructors both accept and refuse");
    r.sample(json!({"try_from_secs_f64": "2^63", "model": "refusal required: 2^63 s > SignedDuration::MAX"}));
}

/// as_secs_f64/f32, as_millis_f64/f32: within 3 representable steps of the
/// correctly rounded quotient.
pub fn views(r: &Report) {
    let mut classes = std::collections::BTreeSet::new();
    for (n, d) in pool() {
        let case = ds(n);
        r.add_states(1);
        r.add_transitions(4);
        r.add_validated(4);
        let sign = if n < 0 { -1.0 } else { 1.0 };
        let m = n.unsigned_abs();
        let w_s64 = sign * round_ratio(m, NS as u128, 53).0;
        let w_ms64 = sign * round_ratio(m, 1_000_000, 53).0;
        let w_s32 = (sign * round_ratio(m, NS as u128, 24).0) as f32;
        let w_ms32 = (sign * round_ratio(m, 1_000_000, 24).0) as f32;
        let got = guard(|| (d.as_secs_f64(), d.as_millis_f64(), d.as_secs_f32(), d.as_millis_f32()));
        match got {
            Err(p) => r.viol("sd_float_view", &format!("SignedDuration::as_*_f*/{}", panic_sig(&p)), case, p),
            Ok((s64, ms64, s32, ms32)) => {
                for (name, g, w) in [("as_secs_f64", s64, w_s64), ("as_millis_f64", ms64, w_ms64)] {
                    let st = if g.is_finite() { steps64(g, w) } else { u64::MAX };
                    classes.insert(st.min(9));
                    if st > 3 {
                        r.viol("sd_float_view", &format!("SignedDuration::{}/value", name), case.clone(), format!("jiff {:e} model {:e} ({} steps apart)", g, w, st));
                    }
                }
                for (name, g, w) in [("as_secs_f32", s32, w_s32), ("as_millis_f32", ms32, w_ms32)] {
                    let st = if g.is_finite() { steps32(g, w) } else { u64::MAX };
                    if st > 3 {
                        r.viol("sd_float_view", &format!("SignedDuration::{}/value", name), case.clone(), format!("jiff {:e} model {:e} ({} steps apart)", g, w, st));
                    }
                }
            }
        }
    }
    r.outcome("float_view_distinct_step_distances", classes.len() as u64);
}

fn is_pow2(m: u128) -> bool {
    m != 0 && m & (m - 1) == 0
}

/// mul_f64 / div_f64: pool x float pool.
///
/// jiff computes these in f64 seconds, so in general only a relative accuracy
/// of a few ulps can be demanded (2^-50 here) and the overflow verdict is
/// only required outside that band. Where the float computation is exact
/// (the duration is an exactly representable number of seconds and the
/// product/quotient is exactly representable) the result must be within one
/// nanosecond and the overflow verdict is exact.
pub fn muldiv(r: &Report) {
    let xs = f64_pool();
    let p = pool();
    let idx: Vec<(usize, usize)> = (0..p.len()).flat_map(|i| (0..xs.len()).map(move |j| (i, j))).collect();
    let tallies: Vec<[u64; 5]> = idx
        .par_iter()
        .map(|&(i, j)| {
            let (n, d) = p[i];
            let x = xs[j];
            let mut t = [0u64; 5]; // ok, panic, strict cases, lenient-verdict cases, div-by-inf
            let case = || format!("d={} rhs={:e} (bits {:#018x})", ds(n), x, x.to_bits());
            r.add_states(1);
            r.add_transitions(2);
            r.add_validated(2);
            let nm = n.unsigned_abs();
            let (c, c_exact) = round_ratio(nm, NS as u128, 53);
            // ---- mul_f64
            {
                let (a, class) = if !x.is_finite() {
                    (Allowed { must_ok: false, must_err: true, lo: 0, hi: 0, exact_desc: "non-finite product".into() }, "")
                } else {
                    let (xneg, m, e) = decomp(x);
                    let neg = (n < 0) != xneg;
                    let mag = mul_mag(nm, m, e);
                    let strict = nm == 0 || m == 0 || (c_exact && {
                        let (_, mc, _) = decomp(c);
                        let prod = mc * m; // < 2^106
                        let prod = prod >> prod.trailing_zeros();
                        128 - prod.leading_zeros() <= 53
                    });
                    let tol = match (strict, mag) {
                        (true, _) => 0,
                        (false, Mag::Val { floor, .. }) => 2 + (floor >> 50),
                        (false, Mag::Huge) => 0,
                    };
                    if strict {
                        t[2] += 1;
                    }
                    let class = if strict && !neg && mag == (Mag::Val { floor: HI as u128 + 1, exact: true }) { ":product==2^63s" } else { "" };
                    (allowed(mag, neg, tol), class)
                };
                if !a.must_ok && !a.must_err {
                    t[3] += 1;
                }
                let got = guard(|| d.mul_f64(x)).ok();
                t[if got.is_some() { 0 } else { 1 }] += 1;
                if let Some((kind, detail)) = verdict(&a, &got) {
                    let kind = match kind {
                        "accepted-out-of-range" => "no-panic",
                        "spurious-overflow" => "spurious-panic",
                        k => k,
                    };
                    r.viol("sd_float_muldiv", &format!("SignedDuration::mul_f64/{}{}", kind, class), case(), detail);
                }
            }
            // ---- div_f64
            {
                let got = guard(|| d.div_f64(x)).ok();
                t[if got.is_some() { 0 } else { 1 }] += 1;
                if x.is_infinite() {
                    // quotient is 0: a zero result or a refusal of the
                    // non-finite operand are both accepted
                    t[4] += 1;
                    if let Some(g) = got {
                        if !matches!(guard(|| g.is_zero()), Ok(true)) {
                            r.viol("sd_float_muldiv", "SignedDuration::div_f64/value:rhs-infinite", case(), format!("jiff {} model 0", show(g)));
                        }
                    }
                } else {
                    let (a, class) = if x.is_nan() || x == 0.0 {
                        (Allowed { must_ok: false, must_err: true, lo: 0, hi: 0, exact_desc: "non-finite quotient".into() }, if x == 0.0 { ":rhs==0" } else { "" })
                    } else {
                        let (xneg, m, e) = decomp(x);
                        let neg = (n < 0) != xneg;
                        let mag = div_mag(nm, m, e);
                        let strict = nm == 0 || (c_exact && is_pow2(m));
                        let tol = match (strict, mag) {
                            (true, _) => 0,
                            (false, Mag::Val { floor, .. }) => 2 + (floor >> 50),
                            (false, Mag::Huge) => 0,
                        };
                        if strict {
                            t[2] += 1;
                        }
                        let class = if strict && !neg && mag == (Mag::Val { floor: HI as u128 + 1, exact: true }) { ":quotient==2^63s" } else { "" };
                        (allowed(mag, neg, tol), class)
                    };
                    if !a.must_ok && !a.must_err {
                        t[3] += 1;
                    }
                    if let Some((kind, detail)) = verdict(&a, &got) {
                        let kind = match kind {
                            "accepted-out-of-range" => "no-panic",
                            "spurious-overflow" => "spurious-panic",
                            k => k,
                        };
                        r.viol("sd_float_muldiv", &format!("SignedDuration::div_f64/{}{}", kind, class), case(), detail);
                    }
                }
            }
            t
        })
        .collect();
    let mut t = [0u64; 5];
    for x in tallies {
        for k in 0..5 {
            t[k] += x[k];
        }
    }
    r.outcome("muldiv_ok", t[0]);
    r.outcome("muldiv_panic", t[1]);
    r.outcome("muldiv_exact_float_path(strict oracle)", t[2]);
    r.outcome("muldiv_verdict_in_tolerance_band(either accepted)", t[3]);
    r.outcome("div_by_infinity(zero or refusal accepted)", t[4]);
    r.require(t[0] > 0 && t[1] > 0 && t[2] > 0, "mul/div both succeed and panic; strict oracle exercised");
}

/// Is the magnitude `v` (an integer) exactly representable with `prec`
/// significant bits?
fn fits_bits(v: u128, prec: u32) -> bool {
    v == 0 || 128 - (v >> v.trailing_zeros()).leading_zeros() <= prec
}

/// mul_f32 / div_f32: pool x f32 pool.
///
/// Same oracle as `muldiv`, for a computation carried out in `f32` seconds
/// (24 significant bits): in general a relative accuracy of 2^-21 plus the
/// 64 ns of the `f32` constructor is all that can be demanded, and the
/// overflow verdict is only required outside that band. Where every `f32`
/// step is exact (the duration's seconds, nanoseconds and their sum are
/// `f32` values and the product/quotient is one too) the result must be
/// exact for whole seconds (within 64 ns otherwise) and the overflow verdict
/// is exact.
pub fn muldiv32(r: &Report) {
    let xs = f32_pool();
    let p = pool();
    let idx: Vec<(usize, usize)> = (0..p.len()).flat_map(|i| (0..xs.len()).map(move |j| (i, j))).collect();
    let tallies: Vec<[u64; 5]> = idx
        .par_iter()
        .map(|&(i, j)| {
            let (n, d) = p[i];
            let x = xs[j];
            let mut t = [0u64; 5]; // ok, panic, strict cases, lenient-verdict cases, div-by-inf
            let case = || format!("d={} rhs={:e}f32 (bits {:#010x})", ds(n), x, x.to_bits());
            r.add_states(1);
            r.add_transitions(2);
            r.add_validated(2);
            let nm = n.unsigned_abs();
            let (c, c_exact) = round_ratio(nm, NS as u128, 24);
            // every step of as_secs_f32 is exact
            let c_exact = c_exact && fits_bits(nm % NS as u128, 24);
            let whole = |mag: Mag| matches!(mag, Mag::Val { floor, exact: true } if floor % NS as u128 == 0);
            let lenient = |mag: Mag| match mag {
                Mag::Val { floor, .. } => 66 + (floor >> 21),
                Mag::Huge => 0,
            };
            // ---- mul_f32
            {
                let (a, class) = if !x.is_finite() {
                    (Allowed { must_ok: false, must_err: true, lo: 0, hi: 0, exact_desc: "non-finite product".into() }, "")
                } else {
                    let (xneg, m, e) = decomp(x as f64);
                    let neg = (n < 0) != xneg;
                    let mag = mul_mag(nm, m, e);
                    let strict = nm == 0 || m == 0 || (c_exact && {
                        let (_, mc, _) = decomp(c);
                        fits_bits(mc * m, 24)
                    });
                    let tol = if strict { if whole(mag) { 0 } else { 64 } } else { lenient(mag) };
                    if strict {
                        t[2] += 1;
                    }
                    let class = if strict && !neg && mag == (Mag::Val { floor: HI as u128 + 1, exact: true }) { ":product==2^63s" } else { "" };
                    (allowed(mag, neg, tol), class)
                };
                if !a.must_ok && !a.must_err {
                    t[3] += 1;
                }
                let got = guard(|| d.mul_f32(x)).ok();
                t[if got.is_some() { 0 } else { 1 }] += 1;
                if let Some((kind, detail)) = verdict(&a, &got) {
                    let kind = match kind {
                        "accepted-out-of-range" => "no-panic",
                        "spurious-overflow" => "spurious-panic",
                        k => k,
                    };
                    r.viol("sd_float_muldiv32", &format!("SignedDuration::mul_f32/{}{}", kind, class), case(), detail);
                }
            }
            // ---- div_f32
            {
                let got = guard(|| d.div_f32(x)).ok();
                t[if got.is_some() { 0 } else { 1 }] += 1;
                if x.is_infinite() {
                    // quotient is 0: a zero result or a refusal of the
                    // non-finite operand are both accepted
                    t[4] += 1;
                    if let Some(g) = got {
                        if !matches!(guard(|| g.is_zero()), Ok(true)) {
                            r.viol("sd_float_muldiv32", "SignedDuration::div_f32/value:rhs-infinite", case(), format!("jiff {} model 0", show(g)));
                        }
                    }
                } else {
                    let (a, class) = if x.is_nan() || x == 0.0 {
                        (Allowed { must_ok: false, must_err: true, lo: 0, hi: 0, exact_desc: "non-finite quotient".into() }, if x == 0.0 { ":rhs==0" } else { "" })
                    } else {
                        let (xneg, m, e) = decomp(x as f64);
                        let neg = (n < 0) != xneg;
                        let mag = div_mag(nm, m, e);
                        // the f32 quotient is exact and finite: power-of-two
                        // divisor, result within the normal f32 range
                        let strict = nm == 0
                            || (c_exact && is_pow2(m) && {
                                let q = c / x as f64; // exact in f64 (power-of-two scaling)
                                q.abs() >= f32::MIN_POSITIVE as f64 && q.abs() <= f32::MAX as f64
                            });
                        let tol = if strict { if whole(mag) { 0 } else { 64 } } else { lenient(mag) };
                        if strict {
                            t[2] += 1;
                        }
                        let class = if strict && !neg && mag == (Mag::Val { floor: HI as u128 + 1, exact: true }) { ":quotient==2^63s" } else { "" };
                        (allowed(mag, neg, tol), class)
                    };
                    if !a.must_ok && !a.must_err {
                        t[3] += 1;
                    }
                    if let Some((kind, detail)) = verdict(&a, &got) {
                        let kind = match kind {
                            "accepted-out-of-range" => "no-panic",
                            "spurious-overflow" => "spurious-panic",
                            k => k,
                        };
                        r.viol("sd_float_muldiv32", &format!("SignedDuration::div_f32/{}{}", kind, class), case(), detail);
                    }
                }
            }
            t
        })
        .collect();
    let mut t = [0u64; 5];
    for x in tallies {
        for k in 0..5 {
            t[k] += x[k];
        }
    }
    r.outcome("muldiv32_ok", t[0]);
    r.outcome("muldiv32_panic", t[1]);
    r.outcome("muldiv32_exact_float_path(strict oracle)", t[2]);
    r.outcome("muldiv32_verdict_in_tolerance_band(either accepted)", t[3]);
    r.outcome("div32_by_infinity(zero or refusal accepted)", t[4]);
    r.require(t[0] > 0 && t[1] > 0 && t[2] > 0, "mul_f32/div_f32 both succeed and panic; strict oracle exercised");
}

/// div_duration_f64 / div_duration_f32 over all ordered pairs.
pub fn ratio(r: &Report) {
    let p = pool();
    let idx: Vec<(usize, usize)> = (0..p.len()).flat_map(|i| (0..p.len()).map(move |j| (i, j))).collect();
    let t: Vec<[u64; 3]> = idx
        .par_iter()
        .map(|&(i, j)| {
            let (na, a) = p[i];
            let (nb, b) = p[j];
            let case = || format!("a={} b={}", ds(na), ds(nb));
            r.add_states(1);
            r.add_transitions(2);
            r.add_validated(2);
            let mut t = [0u64; 3]; // finite, inf, nan
            match guard(|| (a.div_duration_f64(b), a.div_duration_f32(b))) {
                Err(pn) => r.viol("sd_float_ratio", &format!("SignedDuration::div_duration_f*/{}", panic_sig(&pn)), case(), pn),
                Ok((g64, g32)) => {
                    if nb == 0 {
                        if na == 0 {
                            t[2] += 1;
                            if !g64.is_nan() || !g32.is_nan() {
                                r.viol("sd_float_ratio", "SignedDuration::div_duration_f*/value:0/0", case(), format!("jiff {:e} / {:e} model NaN", g64, g32));
                            }
                        } else {
                            t[1] += 1;
                            let ok64 = g64.is_infinite() && (g64 < 0.0) == (na < 0);
                            let ok32 = g32.is_infinite() && (g32 < 0.0) == (na < 0);
                            if !ok64 || !ok32 {
                                r.viol("sd_float_ratio", "SignedDuration::div_duration_f*/value:x/0", case(), format!("jiff {:e} / {:e} model infinity with the sign of a", g64, g32));
                            }
                        }
                    } else {
                        t[0] += 1;
                        let sign = if (na < 0) != (nb < 0) { -1.0 } else { 1.0 };
                        let w64 = sign * round_ratio(na.unsigned_abs(), nb.unsigned_abs(), 53).0;
                        let w32 = (sign * round_ratio(na.unsigned_abs(), nb.unsigned_abs(), 24).0) as f32;
                        let s64 = if g64.is_finite() { steps64(g64, w64) } else { u64::MAX };
                        if s64 > 6 {
                            r.viol("sd_float_ratio", "SignedDuration::div_duration_f64/value", case(), format!("jiff {:e} model {:e} ({} steps apart)", g64, w64, s64));
                        }
                        let s32 = if g32.is_finite() { steps32(g32, w32) } else { u64::MAX };
                        if s32 > 8 {
                            r.viol("sd_float_ratio", "SignedDuration::div_duration_f32/value", case(), format!("jiff {:e} model {:e} ({} steps apart)", g32, w32, s32));
                        }
                    }
                }
            }
            t
        })
        .collect();
    let mut s = [0u64; 3];
    for x in t {
        for k in 0..3 {
            s[k] += x[k];
        }
    }
    r.outcome("ratio_finite", s[0]);
    r.outcome("ratio_infinite", s[1]);
    r.outcome("ratio_nan", s[2]);
}
