//! SignedDuration: integer semantics against an exact i128 nanosecond count.

use super::{ctor_inputs, ds, fits, hash_of, judge, pool, show, HI, LO, NS};
use jiff::SignedDuration;
use rayon::prelude::*;
use serde_json::json;
use std::time::Duration;
use vf::{guard, panic_sig, Report};

/// Compare an `Option<SignedDuration>` result with the exact model result.
/// `class` refines the signature from the input (may be empty).
fn cmp_checked(r: &Report, section: &str, op: &str, class: &str, case: &dyn Fn() -> String, got: Result<Option<SignedDuration>, String>, exact: Option<i128>, tally: &mut [u64; 2]) {
    let want = exact.filter(|&n| fits(n));
    let suffix = if class.is_empty() { String::new() } else { format!(":{}", class) };
    match got {
        Err(p) => r.viol(section, &format!("SignedDuration::{}/{}{}", op, panic_sig(&p), suffix), case(), p),
        Ok(None) => {
            tally[1] += 1;
            if let Some(n) = want {
                r.viol(section, &format!("SignedDuration::{}/spurious-overflow{}", op, suffix), case(), format!("jiff None | model {} is representable", ds(n)));
            }
        }
        Ok(Some(d)) => {
            tally[0] += 1;
            match want {
                None => r.viol(section, &format!("SignedDuration::{}/missed-overflow{}", op, suffix), case(), format!("jiff {} | model: exact result {:?} ns does not fit", show(d), exact)),
                Some(n) => {
                    if let Ok(Some(detail)) = guard(|| judge(d, n)) {
                        r.viol(section, &format!("SignedDuration::{}/value{}", op, suffix), case(), detail);
                    }
                }
            }
        }
    }
}

/// A function documented to panic on overflow: must panic iff `exact` does
/// not fit; otherwise the value must be exact.
fn cmp_panicking(r: &Report, section: &str, op: &str, class: &str, case: &dyn Fn() -> String, got: Result<SignedDuration, String>, exact: Option<i128>, tally: &mut [u64; 2]) {
    let want = exact.filter(|&n| fits(n));
    let suffix = if class.is_empty() { String::new() } else { format!(":{}", class) };
    match got {
        Err(p) => {
            tally[1] += 1;
            if let Some(n) = want {
                r.viol(section, &format!("SignedDuration::{}/spurious-panic{}", op, suffix), case(), format!("jiff panicked ({}) | model {} is representable", p, ds(n)));
            }
        }
        Ok(d) => {
            tally[0] += 1;
            match want {
                None => r.viol(section, &format!("SignedDuration::{}/no-panic{}", op, suffix), case(), format!("jiff {} | model: exact result {:?} ns does not fit, documented to panic", show(d), exact)),
                Some(n) => {
                    if let Ok(Some(detail)) = guard(|| judge(d, n)) {
                        r.viol(section, &format!("SignedDuration::{}/value{}", op, suffix), case(), detail);
                    }
                }
            }
        }
    }
}

fn sat(n: i128) -> i128 {
    n.clamp(LO, HI)
}

/// `new` over the 132 inputs, the constants, and all integer views of every
/// pool value.
pub fn new_and_views(r: &Report) {
    let mut tally = [0u64; 2];
    for (s, n) in ctor_inputs() {
        let exact = s as i128 * NS + n as i128;
        r.add_states(1);
        r.add_transitions(1);
        r.add_validated(1);
        let case = || format!("new({}, {})", s, n);
        cmp_panicking(r, "sd_new", "new", "", &case, guard(|| SignedDuration::new(s, n)), Some(exact), &mut tally);
    }
    r.outcome("new_ok", tally[0]);
    r.outcome("new_panic", tally[1]);
    r.require(tally[0] > 0 && tally[1] > 0, "SignedDuration::new both succeeds and overflows on the pool");
    for (name, d, n) in [("ZERO", SignedDuration::ZERO, 0), ("MIN", SignedDuration::MIN, LO), ("MAX", SignedDuration::MAX, HI)] {
        r.add_validated(1);
        if let Ok(Some(detail)) = guard(|| judge(d, n)) {
            r.viol("sd_new", &format!("SignedDuration::{}/value", name), name, detail);
        }
    }
    for (n, d) in pool() {
        r.add_states(1);
        r.add_validated(14);
        let case = ds(n);
        let res = guard(|| -> Vec<(&'static str, String)> {
            let mut bad = vec![];
            macro_rules! chk {
                ($name:expr, $got:expr, $want:expr) => {
                    let g = $got;
                    let w = $want;
                    if g != w {
                        bad.push(($name, format!("jiff {:?} model {:?}", g, w)));
                    }
                };
            }
            let sub = n % NS;
            chk!("as_secs", d.as_secs() as i128, n / NS);
            chk!("subsec_nanos", d.subsec_nanos() as i128, sub);
            chk!("subsec_micros", d.subsec_micros() as i128, sub / 1_000);
            chk!("subsec_millis", d.subsec_millis() as i128, sub / 1_000_000);
            chk!("as_nanos", d.as_nanos(), n);
            chk!("as_micros", d.as_micros(), n / 1_000);
            chk!("as_millis", d.as_millis(), n / 1_000_000);
            chk!("as_mins", d.as_mins() as i128, n / (60 * NS));
            chk!("as_hours", d.as_hours() as i128, n / (3600 * NS));
            chk!("is_zero", d.is_zero(), n == 0);
            chk!("is_positive", d.is_positive(), n > 0);
            chk!("is_negative", d.is_negative(), n < 0);
            chk!("signum", d.signum() as i128, n.signum());
            if let Some(detail) = judge(d, n) {
                bad.push(("canonical", detail));
            }
            bad
        });
        match res {
            Err(p) => r.viol("sd_new", &format!("SignedDuration::views/{}", panic_sig(&p)), case, p),
            Ok(bad) => {
                for (name, detail) in bad {
                    r.viol("sd_new", &format!("SignedDuration::{}/value", name), case.clone(), detail);
                }
            }
        }
    }
    // Debug / Display: must not panic; distinct values counted (non-vacuity
    // only - the formats belong to C15)
    let mut texts = std::collections::BTreeSet::new();
    let mut values = std::collections::BTreeSet::new();
    for (n, d) in pool() {
        values.insert(n);
        match guard(|| format!("{:?}|{}|{:#}", d, d, d)) {
            Err(p) => r.viol("sd_new", &format!("SignedDuration::fmt/{}", panic_sig(&p)), ds(n), p),
            Ok(t) => {
                texts.insert(t);
            }
        }
    }
    r.outcome("sd_distinct_values", values.len() as u64);
    r.outcome("sd_distinct_debug_display_texts(informative)", texts.len() as u64);
    r.sample(json!({"new": [i64::MIN, 1_999_999_999], "model_ns": (i64::MIN as i128 * NS + 1_999_999_999).to_string()}));
}

/// Every two-operand operation on one ordered pair.
fn pair_ops(r: &Report, (na, a): (i128, SignedDuration), (nb, b): (i128, SignedDuration)) -> [u64; 4] {
    let case = || format!("a={} b={}", ds(na), ds(nb));
    let mut t_add = [0u64; 2];
    let mut t_sub = [0u64; 2];
    let rhs_min = nb / NS == i64::MIN as i128;
    let class_sub = if rhs_min { "rhs.secs==i64::MIN" } else { "" };
    r.add_states(1);
    r.add_transitions(12);
    r.add_validated(12);
    cmp_checked(r, "sd_pairs", "checked_add", "", &case, guard(|| a.checked_add(b)), Some(na + nb), &mut t_add);
    cmp_checked(r, "sd_pairs", "checked_sub", class_sub, &case, guard(|| a.checked_sub(b)), Some(na - nb), &mut t_sub);
    let mut scratch = [0u64; 2];
    cmp_panicking(r, "sd_pairs", "add(operator)", "", &case, guard(|| a + b), Some(na + nb), &mut scratch);
    cmp_panicking(r, "sd_pairs", "sub(operator)", class_sub, &case, guard(|| a - b), Some(na - nb), &mut scratch);
    // compound assignment and Sum (owned items / references): panic exactly
    // like the operators
    cmp_panicking(
        r,
        "sd_pairs",
        "add_assign",
        "",
        &case,
        guard(|| {
            let mut x = a;
            x += b;
            x
        }),
        Some(na + nb),
        &mut scratch,
    );
    cmp_panicking(
        r,
        "sd_pairs",
        "sub_assign",
        class_sub,
        &case,
        guard(|| {
            let mut x = a;
            x -= b;
            x
        }),
        Some(na - nb),
        &mut scratch,
    );
    cmp_panicking(r, "sd_pairs", "sum(owned)", "", &case, guard(|| [a, b].into_iter().sum::<SignedDuration>()), Some(na + nb), &mut scratch);
    cmp_panicking(r, "sd_pairs", "sum(refs)", "", &case, guard(|| [a, b].iter().sum::<SignedDuration>()), Some(na + nb), &mut scratch);
    for (op, class, got, exact) in [
        ("saturating_add", "", guard(|| a.saturating_add(b)), na + nb),
        ("saturating_sub", class_sub, guard(|| a.saturating_sub(b)), na - nb),
    ] {
        let suffix = if class.is_empty() { String::new() } else { format!(":{}", class) };
        match got {
            Err(pn) => r.viol("sd_pairs", &format!("SignedDuration::{}/{}{}", op, panic_sig(&pn), suffix), case(), pn),
            Ok(d) => {
                if let Ok(Some(detail)) = guard(|| judge(d, sat(exact))) {
                    let kind = if fits(exact) { "value" } else { "saturation-value" };
                    r.viol("sd_pairs", &format!("SignedDuration::{}/{}{}", op, kind, suffix), case(), format!("{} (exact {} ns)", detail, exact));
                }
            }
        }
    }
    // comparisons
    let res = guard(|| {
        let mut bad: Vec<&'static str> = vec![];
        if (a == b) != (na == nb) || (a != b) != (na != nb) {
            bad.push("eq");
        }
        if a.cmp(&b) != na.cmp(&nb) {
            bad.push("cmp");
        }
        if a.partial_cmp(&b) != Some(na.cmp(&nb)) {
            bad.push("partial_cmp");
        }
        if (a < b) != (na < nb) || (a >= b) != (na >= nb) || (a > b) != (na > nb) || (a <= b) != (na <= nb) {
            bad.push("lt/ge");
        }
        if a.max(b) != if na >= nb { a } else { b } || a.min(b) != if na <= nb { a } else { b } {
            bad.push("max/min");
        }
        if na == nb && hash_of(&a) != hash_of(&b) {
            bad.push("hash");
        }
        bad
    });
    match res {
        Err(pn) => r.viol("sd_pairs", &format!("SignedDuration::cmp/{}", panic_sig(&pn)), case(), pn),
        Ok(bad) => {
            for b in bad {
                r.viol("sd_pairs", &format!("SignedDuration::{}/value", b), case(), format!("model {:?}", na.cmp(&nb)));
            }
        }
    }
    [t_add[0], t_add[1], t_sub[0], t_sub[1]]
}

/// All ordered pairs: add, sub (checked, saturating, operators, compound
/// assignment, Sum), comparisons. Besides the Cartesian square of the pool,
/// every pool value `a` is paired with the partners that put the exact sum
/// and the exact difference on and one nanosecond beyond each end of the
/// representable range (`a + b` and `a - b` in {MAX, MAX + 1 ns, MIN,
/// MIN - 1 ns}), in both operand orders.
pub fn pairs(r: &Report) {
    let p = pool();
    r.count("sd_pool_values", p.len() as u64);
    let mut idx: Vec<((i128, SignedDuration), (i128, SignedDuration))> = (0..p.len()).flat_map(|i| (0..p.len()).map(move |j| (i, j))).map(|(i, j)| (p[i], p[j])).collect();
    let mut derived = 0u64;
    for &(na, a) in &p {
        for t in [HI, HI + 1, LO, LO - 1, 0, 1, -1] {
            for nb in [t - na, na - t] {
                if fits(nb) {
                    if let Ok(b) = guard(|| SignedDuration::new((nb / NS) as i64, (nb % NS) as i32)) {
                        derived += 2;
                        idx.push(((na, a), (nb, b)));
                        idx.push(((nb, b), (na, a)));
                    }
                }
            }
        }
    }
    r.outcome("sd_pairs_cartesian", (p.len() * p.len()) as u64);
    r.outcome("sd_pairs_boundary_partners", derived);
    let tallies: Vec<[u64; 4]> = idx.par_iter().map(|&(x, y)| pair_ops(r, x, y)).collect();
    let mut t = [0u64; 4];
    for x in tallies {
        for k in 0..4 {
            t[k] += x[k];
        }
    }
    // Sum of nothing is zero
    r.add_validated(2);
    match guard(|| (Vec::<SignedDuration>::new().into_iter().sum::<SignedDuration>(), Vec::<SignedDuration>::new().iter().sum::<SignedDuration>(), SignedDuration::default())) {
        Err(pn) => r.viol("sd_pairs", &format!("SignedDuration::sum(empty)/{}", panic_sig(&pn)), "empty", pn),
        Ok((x, y, z)) => {
            for (name, d) in [("sum(empty,owned)", x), ("sum(empty,refs)", y), ("default", z)] {
                if let Ok(Some(detail)) = guard(|| judge(d, 0)) {
                    r.viol("sd_pairs", &format!("SignedDuration::{}/value", name), "empty", detail);
                }
            }
        }
    }
    r.outcome("checked_add_some", t[0]);
    r.outcome("checked_add_none", t[1]);
    r.outcome("checked_sub_some", t[2]);
    r.outcome("checked_sub_none", t[3]);
    r.require(t[0] > 0 && t[1] > 0 && t[2] > 0 && t[3] > 0 && derived > 0, "add/sub both succeed and overflow on the pool");
    r.sample(json!({"checked_sub": {"a": ds(LO), "b": ds(LO)}, "model": ds(0)}));
}

/// pool x i32 factors: checked_mul, saturating_mul, checked_div, operators
/// and compound assignment. For every factor the pool is extended by the
/// durations whose exact product lies on and one nanosecond-step beyond each
/// end of the range (floor/ceil of MAX / f and MIN / f, and their
/// neighbours).
pub fn scalar(r: &Report) {
    let mut factors: Vec<i32> = vec![0, 1, -1, 2, -2, 3, 7, 1_000, -1_000, 1_000_000_007, i32::MAX, i32::MIN, i32::MIN + 1, -7];
    if r.thorough() {
        factors.extend([4, -3, 10, 60, -60, 3_600, 86_400, 999_999_999, 1_000_000_000, -1_000_000_000, 1_000_000_001, 65_536, -65_537, i32::MAX - 1]);
    }
    let base = pool();
    let mut cases: Vec<((i128, SignedDuration), i32)> = vec![];
    let mut derived = 0u64;
    for &f in &factors {
        for &x in &base {
            cases.push((x, f));
        }
        if f != 0 {
            for t in [HI, LO] {
                let q = t / f as i128;
                for n in [q - 1, q, q + 1] {
                    if fits(n) {
                        if let Ok(d) = guard(|| SignedDuration::new((n / NS) as i64, (n % NS) as i32)) {
                            derived += 1;
                            cases.push(((n, d), f));
                        }
                    }
                }
            }
        }
    }
    r.outcome("sd_scalar_boundary_inputs", derived);
    let tallies: Vec<[u64; 4]> = cases
        .par_iter()
        .map(|&((n, d), f)| {
            let mut t_mul = [0u64; 2];
            let mut t_div = [0u64; 2];
            let mut scratch = [0u64; 2];
            let case = || format!("d={} rhs={}", ds(n), f);
            r.add_states(1);
            r.add_transitions(8);
            r.add_validated(8);
            let prod = n * f as i128;
            cmp_checked(r, "sd_scalar", "checked_mul", "", &case, guard(|| d.checked_mul(f)), Some(prod), &mut t_mul);
            cmp_panicking(r, "sd_scalar", "mul(operator)", "", &case, guard(|| d * f), Some(prod), &mut scratch);
            cmp_panicking(r, "sd_scalar", "mul(operator,i32*d)", "", &case, guard(|| f * d), Some(prod), &mut scratch);
            cmp_panicking(
                r,
                "sd_scalar",
                "mul_assign",
                "",
                &case,
                guard(|| {
                    let mut x = d;
                    x *= f;
                    x
                }),
                Some(prod),
                &mut scratch,
            );
            match guard(|| d.saturating_mul(f)) {
                Err(p) => r.viol("sd_scalar", &format!("SignedDuration::saturating_mul/{}", panic_sig(&p)), case(), p),
                Ok(g) => {
                    if let Ok(Some(detail)) = guard(|| judge(g, sat(prod))) {
                        let kind = if fits(prod) { "value" } else { "saturation-value" };
                        r.viol("sd_scalar", &format!("SignedDuration::saturating_mul/{}", kind), case(), format!("{} (exact {} ns)", detail, prod));
                    }
                }
            }
            // division truncates toward zero (i128 `/` does too); by zero: None
            let quot = if f == 0 { None } else { Some(n / f as i128) };
            let class = if f == 0 { "rhs==0" } else { "" };
            cmp_checked(r, "sd_scalar", "checked_div", class, &case, guard(|| d.checked_div(f)), quot, &mut t_div);
            cmp_panicking(r, "sd_scalar", "div(operator)", class, &case, guard(|| d / f), quot, &mut scratch);
            cmp_panicking(
                r,
                "sd_scalar",
                "div_assign",
                class,
                &case,
                guard(|| {
                    let mut x = d;
                    x /= f;
                    x
                }),
                quot,
                &mut scratch,
            );
            [t_mul[0], t_mul[1], t_div[0], t_div[1]]
        })
        .collect();
    let mut t = [0u64; 4];
    for x in tallies {
        for k in 0..4 {
            t[k] += x[k];
        }
    }
    r.outcome("checked_mul_some", t[0]);
    r.outcome("checked_mul_none", t[1]);
    r.outcome("checked_div_some", t[2]);
    r.outcome("checked_div_none", t[3]);
    r.require(t[0] > 0 && t[1] > 0 && t[2] > 0 && t[3] > 0 && derived > 0, "mul/div both succeed and fail on the pool");
}

/// Unit constructors.
pub fn units(r: &Report) {
    let max_h = i64::MAX / 3600;
    let max_m = i64::MAX / 60;
    let mut vals: Vec<i64> = vec![0, 1, -1, 59, 60, 61, 999, 1_000, 1_001, 999_999, 1_000_000, 1_000_001, 999_999_999, 1_000_000_000, 1_000_000_001, 1 << 32, 1 << 53];
    vals.extend([max_h - 1, max_h, max_h + 1, max_m - 1, max_m, max_m + 1, i64::MAX - 1, i64::MAX]);
    let mut all: Vec<i64> = vec![];
    for v in vals {
        for x in [v, v.wrapping_neg()] {
            if !all.contains(&x) {
                all.push(x);
            }
        }
    }
    all.push(i64::MIN);
    all.push(i64::MIN + 1);
    let mut tally = [0u64; 2];
    type Ctor = fn(i64) -> SignedDuration;
    let ctors: [(&str, Ctor, i128); 6] = [
        ("from_hours", SignedDuration::from_hours, 3600 * NS),
        ("from_mins", SignedDuration::from_mins, 60 * NS),
        ("from_secs", SignedDuration::from_secs, NS),
        ("from_millis", SignedDuration::from_millis, 1_000_000),
        ("from_micros", SignedDuration::from_micros, 1_000),
        ("from_nanos", SignedDuration::from_nanos, 1),
    ];
    for (name, f, scale) in ctors {
        for &v in &all {
            r.add_states(1);
            r.add_transitions(1);
            r.add_validated(1);
            let case = || format!("{}({})", name, v);
            // hours/minutes are documented to panic when the seconds overflow
            // i64, i.e. exactly when the (whole-second) result does not fit;
            // the finer constructors are total.
            let exact = v as i128 * scale;
            cmp_panicking(r, "sd_units", name, "", &case, guard(|| f(v)), Some(exact), &mut tally);
        }
    }
    r.outcome("unit_ctor_ok", tally[0]);
    r.outcome("unit_ctor_panic", tally[1]);
    r.require(tally[0] > 0 && tally[1] > 0, "unit constructors both succeed and overflow");
}

/// abs, unsigned_abs, checked_neg, Neg.
pub fn unary(r: &Report) {
    let mut t_abs = [0u64; 2];
    let mut t_neg = [0u64; 2];
    let mut scratch = [0u64; 2];
    for (n, d) in pool() {
        let case = || ds(n);
        r.add_states(1);
        r.add_transitions(4);
        r.add_validated(4);
        let secs_min = n / NS == i64::MIN as i128;
        let class = if secs_min { "secs==i64::MIN" } else { "" };
        cmp_panicking(r, "sd_unary", "abs", class, &case, guard(|| d.abs()), Some(n.abs()), &mut t_abs);
        cmp_checked(r, "sd_unary", "checked_neg", class, &case, guard(|| d.checked_neg()), Some(-n), &mut t_neg);
        cmp_panicking(r, "sd_unary", "neg(operator)", class, &case, guard(|| -d), Some(-n), &mut scratch);
        match guard(|| d.unsigned_abs()) {
            Err(p) => r.viol("sd_unary", &format!("SignedDuration::unsigned_abs/{}", panic_sig(&p)), case(), p),
            Ok(u) => {
                let m = n.unsigned_abs();
                if u.as_nanos() != m {
                    r.viol("sd_unary", "SignedDuration::unsigned_abs/value", case(), format!("jiff {:?} model {} ns", u, m));
                }
            }
        }
    }
    r.outcome("abs_ok", t_abs[0]);
    r.outcome("abs_panic", t_abs[1]);
    r.outcome("checked_neg_some", t_neg[0]);
    r.outcome("checked_neg_none", t_neg[1]);
    r.require(t_neg[0] > 0 && t_neg[1] > 0 && t_abs[0] > 0 && t_abs[1] > 0, "negation and abs both succeed and overflow");
}

/// std::time::Duration <-> SignedDuration.
pub fn std_conv(r: &Report) {
    let mut ok = 0u64;
    let mut err = 0u64;
    let secs: [u64; 10] = [0, 1, 2, 1 << 32, 1 << 53, i64::MAX as u64 - 1, i64::MAX as u64, i64::MAX as u64 + 1, u64::MAX - 1, u64::MAX];
    for s in secs {
        for ns in [0u32, 1, 500_000_000, 999_999_999] {
            let u = Duration::new(s, ns);
            let exact = u.as_nanos() as i128; // < 2^64 * 1e9 < 2^94
            let case = format!("std Duration({}s,{}ns)", s, ns);
            r.add_states(1);
            r.add_transitions(1);
            r.add_validated(1);
            match guard(|| SignedDuration::try_from(u).map_err(|e| e.to_string())) {
                Err(p) => r.viol("sd_std", &format!("SignedDuration::try_from(std)/{}", panic_sig(&p)), case, p),
                Ok(Err(e)) => {
                    err += 1;
                    if fits(exact) {
                        r.viol("sd_std", "SignedDuration::try_from(std)/spurious-error", case, format!("jiff Err({}) model {}", e, ds(exact)));
                    }
                }
                Ok(Ok(d)) => {
                    ok += 1;
                    if !fits(exact) {
                        r.viol("sd_std", "SignedDuration::try_from(std)/missed-overflow", case, format!("jiff {} model: does not fit", show(d)));
                    } else if let Ok(Some(detail)) = guard(|| judge(d, exact)) {
                        r.viol("sd_std", "SignedDuration::try_from(std)/value", case, detail);
                    }
                }
            }
        }
    }
    for (n, d) in pool() {
        let case = ds(n);
        r.add_states(1);
        r.add_transitions(1);
        r.add_validated(1);
        match guard(|| Duration::try_from(d).map_err(|e| e.to_string())) {
            Err(p) => r.viol("sd_std", &format!("std::Duration::try_from(SignedDuration)/{}", panic_sig(&p)), case, p),
            Ok(Err(e)) => {
                err += 1;
                if n >= 0 {
                    r.viol("sd_std", "std::Duration::try_from(SignedDuration)/spurious-error", case, format!("jiff Err({}) model: non-negative, representable", e));
                }
            }
            Ok(Ok(u)) => {
                ok += 1;
                if n < 0 {
                    r.viol("sd_std", "std::Duration::try_from(SignedDuration)/accepted-negative", case, format!("jiff {:?}", u));
                } else if u.as_nanos() as i128 != n {
                    r.viol("sd_std", "std::Duration::try_from(SignedDuration)/value", case, format!("jiff {:?} model {} ns", u, n));
                }
            }
        }
    }
    r.outcome("std_conv_ok", ok);
    r.outcome("std_conv_err", err);
    r.require(ok > 0 && err > 0, "std conversions both succeed and fail");
}

/// `SignedDuration::system_until(t1, t2)`: exact `t2 - t1`, an error exactly
/// when that does not fit (never a panic). System times are built from the
/// epoch with checked arithmetic; what the platform cannot represent is
/// skipped and counted.
pub fn system_until(r: &Report) {
    use std::time::SystemTime;
    let mut offs: Vec<i128> = vec![];
    for s in [0i128, 1, 2, 86_400, 1 << 32, 1 << 53, 1 << 61, (1 << 62) - 1, 1 << 62, (1 << 62) + 1, (1i128 << 63) - 2, (1i128 << 63) - 1] {
        for f in [0i128, 1, 500_000_000, 999_999_999] {
            for sg in [1i128, -1] {
                let n = sg * (s * NS + f);
                if !offs.contains(&n) {
                    offs.push(n);
                }
            }
        }
    }
    let mk = |n: i128| -> Option<SystemTime> {
        let d = Duration::new((n.unsigned_abs() / NS as u128) as u64, (n.unsigned_abs() % NS as u128) as u32);
        if n >= 0 {
            SystemTime::UNIX_EPOCH.checked_add(d)
        } else {
            SystemTime::UNIX_EPOCH.checked_sub(d)
        }
    };
    let times: Vec<(i128, SystemTime)> = offs.iter().filter_map(|&n| mk(n).map(|t| (n, t))).collect();
    r.outcome("system_time_points", times.len() as u64);
    r.outcome("system_time_points_unrepresentable_on_this_platform(skipped)", (offs.len() - times.len()) as u64);
    let (mut ok, mut err) = (0u64, 0u64);
    for &(n1, t1) in &times {
        for &(n2, t2) in &times {
            let exact = n2 - n1;
            let case = format!("t1=epoch{:+}ns t2=epoch{:+}ns", n1, n2);
            r.add_states(1);
            r.add_transitions(1);
            r.add_validated(1);
            match guard(|| SignedDuration::system_until(t1, t2).map_err(|e| e.to_string())) {
                Err(p) => r.viol("sd_system_until", &format!("SignedDuration::system_until/{}", panic_sig(&p)), case, p),
                Ok(Err(e)) => {
                    err += 1;
                    if fits(exact) {
                        // input-derived class: a representable difference
                        // whose whole seconds are i64::MIN (its magnitude is
                        // not a SignedDuration)
                        let class = if exact / NS == i64::MIN as i128 { ":result.secs==i64::MIN" } else { "" };
                        r.viol("sd_system_until", &format!("SignedDuration::system_until/spurious-error{}", class), case, format!("jiff Err({}) | model {}", e, ds(exact)));
                    }
                }
                Ok(Ok(d)) => {
                    ok += 1;
                    if !fits(exact) {
                        r.viol("sd_system_until", "SignedDuration::system_until/missed-overflow", case, format!("jiff {} | model: {} ns does not fit", show(d), exact));
                    } else if let Ok(Some(detail)) = guard(|| judge(d, exact)) {
                        r.viol("sd_system_until", "SignedDuration::system_until/value", case, detail);
                    }
                }
            }
        }
    }
    r.outcome("system_until_ok", ok);
    r.outcome("system_until_err", err);
    r.require(ok > 0 && err > 0, "system_until both succeeds and overflows");
}

/// `From<Offset> for SignedDuration`: the offset's whole seconds.
pub fn from_offset(r: &Report) {
    let mut n = 0u64;
    for secs in [0i32, 1, -1, 59, -59, 60, 3_600, -3_600, 19_800, -34_200, 93_599, -93_599, 86_400, -86_400] {
        let case = format!("Offset::from_seconds({})", secs);
        r.add_states(1);
        r.add_transitions(1);
        r.add_validated(1);
        match guard(|| jiff::tz::Offset::from_seconds(secs).ok().map(SignedDuration::from)) {
            Err(p) => r.viol("sd_from_offset", &format!("SignedDuration::from(Offset)/{}", panic_sig(&p)), case, p),
            Ok(None) => {}
            Ok(Some(d)) => {
                n += 1;
                if let Ok(Some(detail)) = guard(|| judge(d, secs as i128 * NS)) {
                    r.viol("sd_from_offset", "SignedDuration::from(Offset)/value", case, detail);
                }
            }
        }
    }
    r.outcome("from_offset_values", n);
    r.require(n > 0, "offsets convert");
}
