//! C14: transition iterators yield exactly the instants where the zone's
//! offset information changes. E1 over all zones: from every probe instant the
//! first items of `following`/`preceding`, and both iterators to exhaustion
//! from the range limits, against the R-tz breakpoint list.
//!
//! Zone kinds: TZif from the system, bundled and zic-compiled corpora (slim and
//! fat, with a DST footer, with a footer without DST, without footer: the
//! `right/` zones), the hand-built TZif files of C03 (`c03/hb.rs`: extreme
//! offsets, consecutive-second transitions, abbreviation-only and flag-only
//! changes, version-1-only data, empty footer, transitions outside the
//! timestamp range), POSIX strings (the product alphabet, plus the small
//! every-year alphabet with explicit, negative and fractional DST offsets),
//! `static` zones (`jiff::tz::get!` and `jiff::tz::include!`: their tables are
//! produced at compile time by the *copy* of the TZif reader and fattener in
//! `jiff-static`), fixed offsets, UTC and the unknown zone.
//!
//! Start instants: on / 1 ns / 0.5 s / 1 s before and after every selected
//! transition, the middle of every piece next to a selected transition (this
//! includes the hand-over piece between the last recorded and the first
//! rule-generated transition), the same seven instants around every selected
//! UTC year boundary (the per-year evaluation of POSIX rules switches years
//! there), and MIN, MAX, the epoch and their neighbours for every zone.

use jiff::tz::{TimeZone, TimeZoneTransition};
use jiff::Timestamp;
use rayon::prelude::*;
use refmodel::cal;
use refmodel::tz::{self as rtz, Eff};
use serde_json::json;
use std::sync::atomic::{AtomicU64, Ordering};
use vf::zones::{self, Pair, ZoneSrc};
use vf::{guard, panic_sig, Report};

#[path = "c03/hb.rs"]
mod hb;
use hb::Agg;

const NS: i128 = 1_000_000_000;
/// Known finding F48 (see C03): a recorded transition outside the timestamp
/// range is clamped onto the first / last second of the range.
const F48: &str = ":recorded-transition-outside-timestamp-range-clamped-onto-MIN-or-MAX";

type Item = (i128, i32, bool, String);

/// How much of the rule-governed part of a zone is probed.
#[derive(Clone, Copy, PartialEq, Eq, Debug)]
enum Walk {
    /// every rule year: exhaustion from MIN, MAX and the epoch, probes at every transition
    Full,
    /// exhaustion from MIN / MAX, probes in the selected rule years
    EndsAndWindows,
    /// exhaustion over the first / last millennium, probes in the selected rule years
    MillenniaAndWindows,
}

macro_rules! static_get {
    ($($n:literal),* $(,)?) => { vec![$(($n, jiff::tz::get!($n))),*] };
}

fn main() {
    let r = Report::from_args("C14");
    let items_total = AtomicU64::new(0);
    let runs_total = AtomicU64::new(0);
    let tally = |a: (u64, u64)| {
        runs_total.fetch_add(a.0, Ordering::Relaxed);
        items_total.fetch_add(a.1, Ordering::Relaxed);
    };

    let mut corpus: Vec<(&str, Vec<ZoneSrc>)> = vec![];
    corpus.push(("sys", zones::sys(true)));
    corpus.push(("synth-slim", zones::synth("slim")));
    corpus.push(("synth-fat", zones::synth("fat")));
    if r.thorough() {
        corpus.push(("bundled", zones::bundled()));
        corpus.push(("tzdata-slim", zones::tzdata("slim")));
        corpus.push(("tzdata-fat", zones::tzdata("fat")));
    } else {
        // quick: all bundled zones too (slim data: this is where in-memory
        // fattening from the footer actually adds transitions)
        corpus.push(("bundled", zones::bundled()));
    }
    for (tag, zs) in &corpus {
        let sec = format!("tzif:{}", tag);
        r.section(&sec, || {
            zs.par_iter().for_each(|z| {
                let Ok(pair) = zones::load_pair(z) else {
                    r.count("zones_not_loaded(see C03)", 1);
                    return;
                };
                // thorough: every zone over every rule year. quick: the
                // representative zones over every rule year, the others to
                // exhaustion from both ends with probes in the selected years
                let walk = if r.thorough() || (pair.origin == "sys" && zones::REP.contains(&pair.name.as_str())) { Walk::Full } else { Walk::EndsAndWindows };
                tally(check_zone(&r, &sec, &pair, walk));
                r.add_states(1);
            });
        });
    }
    r.section("handbuilt", || {
        // hand-built TZif shapes zic does not emit; every one walked in full
        let mut zs = hb::handbuilt();
        zs.extend(extra_handbuilt());
        zs.par_iter().for_each(|z| {
            let Ok(pair) = zones::load_pair(z) else {
                r.count("handbuilt_zones_not_loaded(see C03)", 1);
                return;
            };
            r.count("handbuilt_zones", 1);
            let eff = pair.model.effective();
            let flag_only = (1..eff.len()).filter(|&i| {
                let (a, b) = (&pair.model.infos[eff[i - 1].info as usize], &pair.model.infos[eff[i].info as usize]);
                eff[i].changing && a.utoff == b.utoff
            });
            r.count("handbuilt_transitions_changing_only_abbreviation_or_dst_flag", flag_only.count() as u64);
            tally(check_zone(&r, "handbuilt", &pair, Walk::Full));
            r.add_states(1);
        });
    });
    r.section("static", || {
        // STATIC_TZIF zones. `get!` reads the bundled database at compile time,
        // `include!` a file; the model reads the same bytes at run time.
        let got: Vec<(&str, TimeZone)> = static_get![
            "America/New_York",
            "Europe/London",
            "Europe/Dublin",
            "Europe/Berlin",
            "Australia/Lord_Howe",
            "Australia/Sydney",
            "Pacific/Apia",
            "Pacific/Kiritimati",
            "Africa/Casablanca",
            "America/Sao_Paulo",
            "Asia/Kathmandu",
            "Pacific/Honolulu",
            "Africa/Abidjan",
            "Africa/Monrovia",
            "Antarctica/Troll",
            "America/St_Johns",
            "Asia/Tehran",
            "America/Caracas",
            "America/Ojinaga",
            "America/Nuuk",
            "Asia/Gaza",
            "UTC",
        ];
        let mut pairs: Vec<Pair> = vec![];
        for (n, tz) in got {
            let Some((_, bytes)) = jiff_tzdb::get(n) else {
                r.count("static_zones_without_bundled_bytes", 1);
                continue;
            };
            match rtz::zone_from_tzif(bytes) {
                Ok(model) => pairs.push(Pair { name: n.to_string(), origin: "static-get".into(), model, jiff: tz }),
                Err(_) => r.count("static_zones_model_refused", 1),
            }
        }
        let included: Vec<(&str, &str, TimeZone)> = vec![
            // no footer at all (leap-second flavour of the system database)
            ("right/America/New_York", "/usr/share/zoneinfo/right/America/New_York", jiff::tz::include!("/usr/share/zoneinfo/right/America/New_York")),
            ("Australia/Melbourne", "/usr/share/zoneinfo/Australia/Melbourne", jiff::tz::include!("/usr/share/zoneinfo/Australia/Melbourne")),
            ("Asia/Kolkata", "/usr/share/zoneinfo/Asia/Kolkata", jiff::tz::include!("/usr/share/zoneinfo/Asia/Kolkata")),
        ];
        for (n, path, tz) in included {
            // the file may have changed since compile time only if the system
            // database was updated without rebuilding; the harness is rebuilt
            // by `check` on every run
            let Ok(bytes) = std::fs::read(path) else {
                r.count("static_zones_file_unreadable", 1);
                continue;
            };
            match rtz::zone_from_tzif(&bytes) {
                Ok(model) => pairs.push(Pair { name: n.to_string(), origin: "static-include".into(), model, jiff: tz }),
                Err(_) => r.count("static_zones_model_refused", 1),
            }
        }
        pairs.par_iter().for_each(|pair| {
            r.count("static_zones", 1);
            if pair.model.footer.is_none() && pair.model.n_recorded > 0 {
                r.count("static_zones_without_footer", 1);
            }
            tally(check_zone(&r, "static", pair, Walk::Full));
            r.add_states(1);
        });
    });
    r.section("posix", || {
        let strs = zones::posix_alphabet(if r.quick() { 0 } else { 1 });
        strs.par_iter().enumerate().for_each(|(k, s)| {
            let Ok(pair) = zones::load_posix_pair(s) else {
                r.count("zones_not_loaded(see C03)", 1);
                return;
            };
            // POSIX strings run to exhaustion over the last / first millennium
            // only; thorough: every 17th string of the alphabet (17 is prime to
            // the sizes of all factors of the product) over every rule year
            let walk = if r.thorough() && k % 17 == 0 { Walk::Full } else { Walk::MillenniaAndWindows };
            if walk == Walk::Full {
                r.count("posix_strings_walked_over_every_rule_year", 1);
            }
            tally(check_zone(&r, "posix", &pair, walk));
            r.add_states(1);
        });
    });
    r.section("posix-every-year", || {
        // the small alphabet (explicit, negative and fractional DST offsets,
        // DST periods shorter than the DST shift, the F7 family), every rule
        // year from -9999 to 9999 in both tiers
        let strs = hb::posix_every_year_level(if r.quick() { 0 } else { 1 });
        strs.par_iter().for_each(|s| {
            let Ok(pair) = zones::load_posix_pair(s) else {
                r.count("zones_not_loaded(see C03)", 1);
                return;
            };
            r.count("posix_strings_walked_over_every_rule_year", 1);
            tally(check_zone(&r, "posix-every-year", &pair, Walk::Full));
            r.add_states(1);
        });
    });
    r.section("fixed", || {
        // fixed zones, UTC and the unknown zone have no transitions at all;
        // the iterators stay exhausted (FusedIterator)
        let starts: Vec<Timestamp> = [Timestamp::MIN.as_nanosecond(), Timestamp::MIN.as_nanosecond() + 1, -NS, -1, 0, 1, NS, Timestamp::MAX.as_nanosecond() - 1, Timestamp::MAX.as_nanosecond()]
            .iter()
            .map(|&n| Timestamp::from_nanosecond(n).unwrap())
            .collect();
        let mut tzs: Vec<(String, TimeZone)> = vec![];
        for secs in [-93599, -86400, -3600, -1, 0, 1, 19800, 86400, 93599] {
            tzs.push((format!("fixed {}", secs), TimeZone::fixed(jiff::tz::Offset::from_seconds(secs).unwrap())));
        }
        tzs.push(("UTC".into(), TimeZone::UTC));
        tzs.push(("unknown".into(), TimeZone::unknown()));
        tzs.push(("fixed(Offset::UTC)".into(), TimeZone::fixed(jiff::tz::Offset::UTC)));
        tzs.push(("static fixed".into(), FIXED_STATIC.clone()));
        for (name, tz) in &tzs {
            for &t in &starts {
                for forward in [true, false] {
                    let case = format!("{} {} from {}", name, if forward { "following" } else { "preceding" }, t);
                    let got = guard(|| if forward { run_iter(tz.following(t), 8, true) } else { run_iter(tz.preceding(t), 8, true) });
                    match got {
                        Err(p) => r.viol("fixed", &format!("fixed-zone/{}", panic_sig(&p)), case, p),
                        Ok(run) => {
                            if !run.items.is_empty() {
                                r.viol("fixed", "fixed-zone/yields-transitions", case.clone(), format!("{} items", run.items.len()));
                            }
                            if let Some(what) = run.contract_failure() {
                                r.viol("fixed", &format!("fixed-zone/iterator-contract:{}", what), case, format!("{:?}", run.hint));
                            }
                        }
                    }
                    r.add_transitions(1);
                    r.count("fixed_zone_runs", 1);
                }
            }
        }
    });
    r.count("iterator_runs", runs_total.load(Ordering::Relaxed));
    r.count("items_checked", items_total.load(Ordering::Relaxed));
    if r.only_section.is_none() {
        r.require(items_total.load(Ordering::Relaxed) > 1_000_000, "more than 1M yielded items checked");
        r.require(r.get_count("exhaustive_runs") > 1000, "exhaustive runs happened");
        r.require(r.get_count("handbuilt_zones") >= 18, "the 12 hand-built TZif zones of C03 and the 6 of C14 were loaded and walked");
        r.require(r.get_count("handbuilt_transitions_changing_only_abbreviation_or_dst_flag") >= 3, "hand-built zones contain transitions that change only the abbreviation or the DST flag");
        r.require(r.get_count("static_zones") >= 20, "static zones (get! and include!) were walked");
        r.require(r.get_count("static_zones_without_footer") >= 1, "a static zone without footer was walked");
        r.require(r.get_count("posix_strings_walked_over_every_rule_year") >= 10, "POSIX strings were walked over every rule year");
        r.require(r.get_count("starts_at_utc_year_boundaries") > 10_000, "starts at UTC year boundaries were probed");
        r.require(r.get_count("starts_inside_hand_over_piece") > 100, "starts between the last recorded and the first rule-generated transition were probed");
        r.require(r.get_count("starts_in_rule_years_below_1970") > 1000, "rule years before the epoch (incl. negative years) were probed");
        r.require(r.get_count("iterator_contract_runs") > 1000, "Iterator/FusedIterator/Clone/Debug contract checked on exhaustive runs");
        r.require(r.get_count("following_vs_preceding_sequences_compared") > 100, "following(MIN) compared with reversed preceding(MAX)");
    }
    r.finish();
}

/// More hand-built TZif shapes, for the index arithmetic of the table lookups
/// (`index == 0`, `index == len - 1`) and for the places where the table ends
/// and the lazy evaluation of the footer begins: in-memory fattening stops at
/// UTC year 2038 *or* after 300 generated transitions, whichever comes first.
fn extra_handbuilt() -> Vec<ZoneSrc> {
    let d = |y: i64, m: i64, dd: i64, h: i64| cal::days_from_civil(y, m, dd) * 86400 + h * 3600;
    let specs = vec![
        // one recorded transition, DST footer: the 300-transition bound of the
        // fattening is reached around 2030, before the year bound
        hb::Spec {
            name: "C14/OneTransDstFooter",
            version: 2,
            types: vec![(-17762, false, "LMT"), (-18000, false, "EST"), (-14400, true, "EDT")],
            trans: vec![(d(1880, 1, 1, 12), 1)],
            footer: "EST5EDT,M3.2.0,M11.1.0",
            share_suffix: false,
        },
        // one recorded transition, no footer
        hb::Spec { name: "C14/OneTransNoFooter", version: 2, types: vec![(3600, false, "AAA"), (7200, true, "BBB")], trans: vec![(d(1985, 6, 1, 0), 1)], footer: "", share_suffix: false },
        // no transition, no footer: one local time type only
        hb::Spec { name: "C14/ZeroTransNoFooter", version: 2, types: vec![(19800, false, "IST")], trans: vec![], footer: "", share_suffix: false },
        // one recorded transition, footer without DST
        hb::Spec { name: "C14/OneTransFooterNoDst", version: 3, types: vec![(-1800, false, "LMT"), (-3600, false, "WAT")], trans: vec![(d(1912, 1, 1, 0), 1)], footer: "WAT1", share_suffix: false },
        // last recorded transition after 2037: nothing is fattened, the footer
        // is evaluated lazily from 2050 on; the last recorded type is DST
        hb::Spec {
            name: "C14/LastTrans2050DstFooter",
            version: 2,
            types: vec![(34200, false, "ACST"), (37800, true, "ACDT")],
            trans: vec![(d(1971, 10, 31, 2) - 34200, 1), (d(1972, 2, 27, 3) - 37800, 0), (d(2050, 10, 2, 2) - 34200, 1)],
            footer: "ACST-9:30ACDT,M10.1.0,M4.1.0/3",
            share_suffix: false,
        },
        // no-op recorded transitions (same local time type twice, as fat data
        // has them), one of them the last one before a DST footer
        hb::Spec {
            name: "C14/NoopRecorded",
            version: 2,
            types: vec![(3600, false, "CET"), (7200, true, "CEST")],
            trans: vec![(d(1980, 4, 6, 1), 1), (d(1980, 9, 28, 1), 0), (d(1981, 1, 1, 0), 0), (d(1996, 3, 31, 1), 1), (d(1996, 10, 27, 1), 0), (d(1997, 1, 1, 0), 0)],
            footer: "CET-1CEST,M3.5.0,M10.5.0/3",
            share_suffix: false,
        },
    ];
    specs.iter().map(|s| ZoneSrc { name: s.name.to_string(), origin: "handbuilt".into(), bytes: hb::build(s), aliases: vec![] }).collect()
}

static FIXED_STATIC: TimeZone = TimeZone::fixed(jiff::tz::Offset::constant(-7));

/// One iterator run, with what the `Iterator` contract observations gave.
struct RunOut {
    items: Vec<Item>,
    ended: bool,
    hint: (usize, Option<usize>),
    /// `None` was followed by `Some` (FusedIterator promises it is not)
    not_fused: bool,
    /// a clone taken after the first item did not continue like the original
    clone_diverged: bool,
    /// a cloned item reads differently from the original, or Debug of the iterator / item is empty
    item_clone_or_debug: bool,
}

impl RunOut {
    fn contract_failure(&self) -> Option<&'static str> {
        if self.not_fused {
            return Some("yields-again-after-None");
        }
        if self.clone_diverged {
            return Some("clone-continues-differently");
        }
        if self.item_clone_or_debug {
            return Some("item-clone-or-debug");
        }
        if self.ended && (self.hint.0 > self.items.len() || self.hint.1.map_or(false, |h| h < self.items.len())) {
            return Some("size_hint-excludes-actual-length");
        }
        None
    }
}

fn item_of(t: &TimeZoneTransition<'_>) -> Item {
    (t.timestamp().as_nanosecond(), t.offset().seconds(), t.dst().is_dst(), t.abbreviation().to_string())
}

/// Drive an iterator for at most `limit` items. With `contract`, also observe
/// what the traits it implements promise (`FusedIterator`: `None` for ever
/// after the first `None`; `Clone`: an independent copy that continues the
/// same way; `size_hint` bounds; `Debug`).
fn run_iter<'t, I>(mut it: I, limit: usize, contract: bool) -> RunOut
where
    I: Iterator<Item = TimeZoneTransition<'t>> + Clone + std::fmt::Debug + std::iter::FusedIterator,
{
    let mut out = RunOut { items: Vec::new(), ended: false, hint: it.size_hint(), not_fused: false, clone_diverged: false, item_clone_or_debug: false };
    if contract && format!("{:?}", it).is_empty() {
        out.item_clone_or_debug = true;
    }
    let mut cl: Option<I> = None;
    while out.items.len() < limit {
        match it.next() {
            None => {
                out.ended = true;
                break;
            }
            Some(t) => {
                if contract && out.items.len() < 64 {
                    let c = t.clone();
                    if item_of(&c) != item_of(&t) || format!("{:?}", t).is_empty() {
                        out.item_clone_or_debug = true;
                    }
                }
                out.items.push(item_of(&t));
                if contract && out.items.len() == 1 {
                    cl = Some(it.clone());
                }
            }
        }
    }
    if contract {
        if out.ended {
            for _ in 0..3 {
                if it.next().is_some() {
                    out.not_fused = true;
                }
            }
        }
        if let Some(mut cl) = cl {
            // the clone continues like the original did (first 64 items after the clone point)
            for k in 1..out.items.len().min(65) {
                match cl.next() {
                    Some(t) if item_of(&t) == out.items[k] => {}
                    _ => {
                        out.clone_diverged = true;
                        break;
                    }
                }
            }
            if out.ended && out.items.len() < 65 && cl.next().is_some() {
                out.clone_diverged = true;
            }
        }
    }
    out
}

fn collect(tz: &TimeZone, start: Timestamp, forward: bool, limit: usize) -> Result<Vec<Item>, String> {
    guard(|| {
        let f = |t: jiff::tz::TimeZoneTransition<'_>| item_of(&t);
        if forward {
            tz.following(start).take(limit).map(f).collect()
        } else {
            tz.preceding(start).take(limit).map(f).collect()
        }
    })
}

/// A zone with what the oracle needs, computed once.
struct Zc<'a> {
    p: &'a Pair,
    eff: Vec<Eff>,
    /// `eff[lo..hi]` are the breakpoints inside the timestamp range
    lo: usize,
    hi: usize,
    /// the data records a transition at or below the first second of the range
    rec_below: bool,
    /// the data records a transition after the last second of the range
    rec_above: bool,
    /// index of the last recorded breakpoint, if rule-generated ones follow it
    hand_over: Option<usize>,
    /// the zone's rule (POSIX string or footer) has a DST period of zero
    /// length: start and end are the same instant in some year
    zero_len_dst: bool,
}

impl<'a> Zc<'a> {
    fn new(p: &'a Pair) -> Zc<'a> {
        let mut eff = p.model.effective();
        // The hand-over entry (the last recorded transition, from which the
        // footer governs) hides the footer's own rule instants at or before
        // it. If one of those leaves its rule year, jiff's per-year evaluation
        // yields the year boundary it clamps it to (F7) right after the
        // hand-over although the exact instant is not after it: the hand-over
        // entry then belongs to the F7 class like the rule entries themselves.
        if let (Some(f), Some(h)) = (&p.model.footer, (1..eff.len()).rev().find(|&i| eff[i].recorded)) {
            if let Ok(tz) = rtz::parse_posix(f.as_bytes()) {
                let from = eff[h].start;
                let y0 = cal::civil_from_days(from.div_euclid(86400)).0;
                for y in (y0 - 1)..=(y0 + 1) {
                    if let Some((a, b)) = tz.year_transitions(y) {
                        for x in [a, b] {
                            if x <= from && cal::civil_from_days(x.div_euclid(86400)).0 != y {
                                eff[h].crosses_year = true;
                            }
                        }
                    }
                }
            }
        }
        let lo = eff.partition_point(|e| e.start <= zones::TS_MIN_SEC).max(1);
        let hi = eff.partition_point(|e| e.start <= zones::TS_MAX_SEC).max(lo);
        let rec = |e: &Eff| e.recorded && e.start != i64::MIN;
        let rec_below = eff.iter().skip(1).any(|e| rec(e) && e.start <= zones::TS_MIN_SEC);
        let rec_above = eff.iter().skip(1).any(|e| rec(e) && e.start > zones::TS_MAX_SEC);
        let hand_over = (1..eff.len()).rev().find(|&i| eff[i].recorded).filter(|&h| h + 1 < eff.len());
        let rule = if p.origin == "posix" || p.origin.starts_with("posix") { Some(p.name.clone()) } else { p.model.footer.clone() };
        let zero_len_dst = rule
            .and_then(|f| rtz::parse_posix(f.as_bytes()).ok())
            .map(|tz| [2023i64, 2024, 2025, 2026].iter().any(|&y| matches!(tz.year_transitions(y), Some((a, b)) if a == b)))
            .unwrap_or(false);
        Zc { p, eff, lo, hi, rec_below, rec_above, hand_over, zero_len_dst }
    }
    /// F48 class: the instant lies in the second a recorded out-of-range
    /// transition of this zone is clamped onto.
    fn f48(&self, t_ns: i128) -> &'static str {
        let s = t_ns.div_euclid(NS) as i64;
        if (self.rec_below && s == zones::TS_MIN_SEC) || (self.rec_above && s == zones::TS_MAX_SEC) {
            F48
        } else {
            ""
        }
    }
}

/// F7 class: the model entry the mismatch was found at, or a direct neighbour,
/// is a rule transition whose exact UTC instant lies outside its rule year
/// (jiff yields the year boundary it clamped that instant to instead, which
/// lies between the entry and its neighbour). One entry on either side, i.e.
/// about half a year; the check used three entries before the extension,
/// which attributed unrelated mismatches up to 1.5 years away to F7.
const F7_W: usize = 1;
fn f7(eff: &[Eff], j: usize) -> &'static str {
    let lo = j.saturating_sub(F7_W);
    let hi = (j + F7_W).min(eff.len().saturating_sub(1));
    if eff.is_empty() {
        return "";
    }
    if (lo..=hi).any(|i| eff[i].crosses_year) {
        ":posix-rule-transition-outside-its-utc-year"
    } else {
        ""
    }
}

/// Check one iterator run against the effective breakpoint list.
#[allow(clippy::too_many_arguments)]
fn check_run(r: &Report, agg: &mut Agg, sec: &str, zc: &Zc, start_ns: i128, forward: bool, items: &[Item], ended: bool, lookups: bool) {
    let p = zc.p;
    let eff = &zc.eff[..];
    let z = &p.model;
    let dir = if forward { "following" } else { "preceding" };
    let case = || format!("{}:{} {} from {}", p.origin, p.name, dir, vf::conv::fmt_ns(start_ns));
    let info = |e: &Eff| &z.infos[e.info as usize];
    // candidate model entries in iteration order: the in-range breakpoints
    // strictly beyond the start. `eff` is sorted by start, so they are a
    // contiguous index range, walked upwards or downwards.
    let (base, count) = if forward {
        let b = eff.partition_point(|e| e.start as i128 * NS <= start_ns).max(zc.lo);
        (b, zc.hi.saturating_sub(b))
    } else {
        let top = eff.partition_point(|e| (e.start as i128 * NS) < start_ns).min(zc.hi);
        (top, top.saturating_sub(zc.lo))
    };
    let cand = |c: usize| -> Option<usize> {
        if c >= count {
            None
        } else if forward {
            Some(base + c)
        } else {
            Some(base - 1 - c)
        }
    };
    let mut c = 0usize;
    let mut prev: Option<i128> = None;
    for (n, it) in items.iter().enumerate() {
        let t = it.0;
        let ok_order = if forward { t > start_ns && prev.map_or(true, |q| t > q) } else { t < start_ns && prev.map_or(true, |q| t < q) };
        if !ok_order {
            agg.add(r, sec, &format!("{}/not-strictly-monotone-or-not-beyond-start{}", dir, zc.f48(t)), case(), || format!("item {} at {} (prev {:?})", n, vf::conv::fmt_ns(t), prev));
            return;
        }
        prev = Some(t);
        // skip model entries passed over
        let j = loop {
            let Some(j) = cand(c) else {
                let k = zc.f48(t);
                let k = if k.is_empty() { f7(eff, eff.len().saturating_sub(1)) } else { k };
                agg.add(r, sec, &format!("{}/yields-instant-that-is-no-transition{}", dir, k), case(), || format!("item {} at {} beyond all model transitions", n, vf::conv::fmt_ns(t)));
                return;
            };
            let e = &eff[j];
            let et = e.start as i128 * NS;
            let passed = if forward { et < t } else { et > t };
            if !passed {
                break j;
            }
            if e.changing {
                agg.add(r, sec, &format!("{}/omits-transition{}", dir, f7(eff, j)), case(), || {
                    format!("model transition at {} ({:?} -> {:?}) skipped; jiff item {} is at {}", e.start, info(&eff[j - 1]), info(e), n, vf::conv::fmt_ns(t))
                });
                return;
            }
            c += 1;
        };
        let e = &eff[j];
        if e.start as i128 * NS != t {
            let k = zc.f48(t);
            let k = if k.is_empty() { f7(eff, j) } else { k };
            agg.add(r, sec, &format!("{}/yields-instant-that-is-no-transition{}", dir, k), case(), || format!("item {} at {}; nearest model transition {}", n, vf::conv::fmt_ns(t), e.start));
            return;
        }
        if !e.changing && !e.recorded {
            // input class: the first rule-generated instant after the recorded
            // transitions (the hand-over), as opposed to any later rule instant
            let first_rule = j > 0 && eff[j - 1].recorded;
            let k = if zc.zero_len_dst {
                ":dst-period-of-zero-length"
            } else if first_rule && f7(eff, j).is_empty() {
                ":first-rule-instant-after-the-recorded-transitions"
            } else {
                ""
            };
            agg.add(r, sec, &format!("{}/yields-rule-instant-where-nothing-changes{}{}", dir, k, f7(eff, j)), case(), || format!("item {} at {}", n, vf::conv::fmt_ns(t)));
            if !zc.zero_len_dst {
                return;
            }
            // a zone whose DST period has zero length: the yearly no-op item is
            // a known finding; what it reports is still held against the model
            // (the info in force from that instant on) and the run goes on
        }
        let m = info(e);
        if (it.1, it.2, it.3.as_str()) != (m.utoff, m.dst, m.abbrev.as_str()) {
            let k = if zc.zero_len_dst && !e.changing { ":dst-period-of-zero-length" } else { "" };
            agg.add(r, sec, &format!("{}/item-info{}{}", dir, k, f7(eff, j)), case(), || format!("item {} at {}: jiff ({}, {}, {}) model ({}, {}, {})", n, e.start, it.1, it.2, it.3, m.utoff, m.dst, m.abbrev));
            return;
        }
        if lookups {
            // agrees with direct lookup immediately before and at the yielded instant
            let at = Timestamp::from_nanosecond(t).unwrap();
            let before = Timestamp::from_nanosecond(t - 1).ok();
            let got = guard(|| {
                let a = p.jiff.to_offset_info(at);
                let b = before.map(|b| p.jiff.to_offset_info(b));
                ((a.offset().seconds(), a.dst().is_dst(), a.abbreviation().to_string()), b.map(|b| (b.offset().seconds(), b.dst().is_dst(), b.abbreviation().to_string())))
            });
            if let Ok((a, b)) = got {
                if (a.0, a.1, a.2.as_str()) != (it.1, it.2, it.3.as_str()) {
                    agg.add(r, sec, &format!("{}/item-disagrees-with-direct-lookup-at{}", dir, f7(eff, j)), case(), || format!("item {:?} lookup {:?}", it, a));
                    return;
                }
                if let Some(b) = b {
                    let pm = info(&eff[j - 1]);
                    if e.changing && (b.0, b.1, b.2.as_str()) != (pm.utoff, pm.dst, pm.abbrev.as_str()) {
                        agg.add(r, sec, &format!("{}/direct-lookup-just-before-item{}", dir, f7(eff, j)), case(), || format!("lookup at item-1ns {:?} model {:?}", b, pm));
                        return;
                    }
                }
            }
        }
        c += 1;
    }
    if ended {
        // iterator exhausted: no changing transition may remain
        while let Some(j) = cand(c) {
            let e = &eff[j];
            if e.changing {
                agg.add(r, sec, &format!("{}/omits-transition{}", dir, f7(eff, j)), case(), || {
                    format!("iterator ended after {} items; model transition at {} ({:?} -> {:?}) never yielded", items.len(), e.start, info(&eff[j - 1]), info(e))
                });
                return;
            }
            c += 1;
        }
    }
}

/// Rule years probed when a zone is not walked over every rule year: a window
/// of rule years after the last recorded one (incl. the end of in-memory
/// fattening, 2037/2038), a century boundary that is no leap year, a
/// 400-year leap year, the years around year 0 (sign change; year 0 is a leap
/// year) and around the epoch (rule instants change sign), every 97th year
/// (97 is prime to 4, 100 and 400: leap years, common years and both signs
/// occur, from -9991 to 9991), and the ends of the range.
fn year_selected(y: i64) -> bool {
    (2007..2012).contains(&y)
        || (2037..2041).contains(&y)
        || (2099..2101).contains(&y)
        || (2399..2401).contains(&y)
        || (-1..=1).contains(&y)
        || (1968..=1971).contains(&y)
        || y.rem_euclid(97) == 0
        || y >= 9997
        || y <= -9997
}

fn year_start(y: i64) -> i64 {
    cal::days_from_civil(y, 1, 1) * 86400
}

fn check_zone(r: &Report, sec: &str, p: &Pair, walk: Walk) -> (u64, u64) {
    let zc = Zc::new(p);
    let eff = &zc.eff[..];
    let mut agg = Agg::new(r);
    r.count(if walk == Walk::Full { "zones_walked_over_every_rule_year" } else { "zones_walked_over_selected_rule_years" }, 1);
    let mut runs = 0u64;
    let mut nitems = 0u64;
    const CAP: usize = 40_000;
    let min_ns = Timestamp::MIN.as_nanosecond();
    let max_ns = Timestamp::MAX.as_nanosecond();
    let dirname = |f: bool| if f { "following" } else { "preceding" };

    // ---- to exhaustion from the limits (and the epoch) -------------------
    // (start, forward, item limit)
    let mut ex: Vec<(Timestamp, bool, usize)> = vec![(Timestamp::MIN, true, CAP), (Timestamp::MAX, false, CAP), (Timestamp::MAX, true, CAP), (Timestamp::MIN, false, CAP)];
    if walk == Walk::MillenniaAndWindows {
        ex[0].0 = Timestamp::from_second(221_845_392_000).unwrap(); // 9000-01-01
        ex[1].0 = Timestamp::from_second(-346_149_504_000).unwrap(); // ~ -9000
    }
    if walk == Walk::Full {
        ex.push((Timestamp::UNIX_EPOCH, true, CAP));
        ex.push((Timestamp::UNIX_EPOCH, false, CAP));
    }
    let mut fwd_all: Option<Vec<Item>> = None;
    let mut bwd_all: Option<Vec<Item>> = None;
    for (start, forward, limit) in ex {
        let got = guard(|| if forward { run_iter(p.jiff.following(start), limit, true) } else { run_iter(p.jiff.preceding(start), limit, true) });
        match got {
            Err(pn) => r.viol(sec, &format!("{}/{}", dirname(forward), panic_sig(&pn)), format!("{}:{} from {}", p.origin, p.name, start), pn),
            Ok(run) => {
                if !run.ended {
                    r.cap(format!("{}:{} iterator longer than {} items", p.origin, p.name, limit));
                }
                check_run(r, &mut agg, sec, &zc, start.as_nanosecond(), forward, &run.items, run.ended, true);
                if let Some(what) = run.contract_failure() {
                    agg.add(r, sec, &format!("{}/iterator-contract:{}", dirname(forward), what), format!("{}:{} {} from {}", p.origin, p.name, dirname(forward), vf::conv::fmt_ns(start.as_nanosecond())), || {
                        format!("{} items, ended {}, size_hint {:?}", run.items.len(), run.ended, run.hint)
                    });
                }
                runs += 1;
                nitems += run.items.len() as u64;
                r.count("exhaustive_runs", 1);
                r.count("iterator_contract_runs", 1);
                if run.ended && start == Timestamp::MIN && forward {
                    fwd_all = Some(run.items);
                } else if run.ended && start == Timestamp::MAX && !forward {
                    bwd_all = Some(run.items);
                }
            }
        }
    }
    // `following` from the lower limit and `preceding` from the upper limit
    // enumerate the same transitions (each is "exactly the instants where the
    // info changes", strictly inside the range)
    if let (Some(f), Some(b)) = (&fwd_all, &bwd_all) {
        r.count("following_vs_preceding_sequences_compared", 1);
        let same = f.len() == b.len() && f.iter().zip(b.iter().rev()).all(|(x, y)| x == y);
        if !same {
            // first difference, counted from the lower end
            let br: Vec<&Item> = b.iter().rev().collect();
            let k = (0..f.len().max(br.len())).find(|&k| f.get(k) != br.get(k).copied()).unwrap_or(0);
            let t = f.get(k).map(|x| x.0).or(br.get(k).map(|x| x.0)).unwrap_or(0);
            let t2 = br.get(k).map(|x| x.0).unwrap_or(t);
            // input class of the place where they part: the model entries around it
            let j = eff.partition_point(|e| (e.start as i128 * NS) < t.min(t2)).min(eff.len() - 1);
            let mut k7 = zc.f48(t);
            if k7.is_empty() {
                k7 = zc.f48(t2);
            }
            if k7.is_empty() {
                k7 = f7(eff, j);
            }
            let hand_over = k7.is_empty() && j > 0 && j < eff.len() && !eff[j].recorded && eff[j - 1].recorded;
            let k43 = if hand_over { ":first-rule-instant-after-the-recorded-transitions" } else { "" };
            agg.add(r, sec, &format!("following-vs-preceding/sequences-differ{}{}", k43, k7), format!("{}:{} following from MIN vs preceding from MAX", p.origin, p.name), || {
                format!("following yields {} items, preceding {}; first difference at position {}: {:?} vs {:?}", f.len(), b.len(), k, f.get(k), br.get(k))
            });
        }
    }

    // ---- first three items from every probe instant ----------------------
    let all_years = walk == Walk::Full;
    // recorded transitions, the first rule-generated ones after the hand-over
    // whatever their year, and the selected (or all) rule years
    let selected = |i: usize, e: &Eff| -> bool { e.recorded || all_years || year_selected(e.rule_year) || zc.hand_over.map_or(false, |h| i > h && i <= h + 4) };
    let mut starts: Vec<i128> = vec![];
    let clip = |x: i128| x >= min_ns && x <= max_ns;
    // limits and the epoch, with their neighbours
    for s in [min_ns, min_ns + 1, min_ns + NS / 2, min_ns + NS, min_ns + NS + 1, -NS, -NS / 2, -1, 0, 1, NS / 2, NS, max_ns - NS - 999_999_999, max_ns - NS, max_ns - 999_999_999, max_ns - NS / 2, max_ns - 1, max_ns] {
        starts.push(s);
    }
    let mut n_hand_over = 0u64;
    let mut n_below_1970 = 0u64;
    let mut years: Vec<i64> = vec![];
    for i in 1..eff.len() {
        let e = &eff[i];
        if !(i >= zc.lo && i < zc.hi) || !selected(i, e) {
            continue;
        }
        starts.extend(zones::instants_around(e.start));
        // the middle of the piece before and of the piece after this breakpoint
        if eff[i - 1].start != i64::MIN {
            let m = (eff[i - 1].start as i128 + e.start as i128) * NS / 2;
            if clip(m) {
                starts.push(m);
                if eff[i - 1].recorded && !e.recorded {
                    n_hand_over += 1;
                }
            }
        }
        if i + 1 < eff.len() {
            let m = (eff[i + 1].start as i128 + e.start as i128) * NS / 2;
            if clip(m) {
                starts.push(m);
                if e.recorded && !eff[i + 1].recorded {
                    n_hand_over += 1;
                }
            }
        }
        if !e.recorded {
            years.push(e.rule_year);
            if e.start < 0 {
                n_below_1970 += 1;
            }
        }
    }
    // UTC year boundaries of the selected rule years (and of the year after)
    years.sort_unstable();
    years.dedup();
    let mut n_year_bounds = 0u64;
    let mut last_b = i64::MIN;
    for &y in &years {
        for yy in [y, y + 1] {
            if yy < cal::MIN_YEAR || yy > cal::MAX_YEAR {
                continue;
            }
            let b = year_start(yy);
            if b == last_b {
                continue;
            }
            last_b = b;
            let v = zones::instants_around(b);
            n_year_bounds += v.len() as u64;
            starts.extend(v);
        }
    }
    starts.sort_unstable();
    starts.dedup();
    r.count("starts_at_utc_year_boundaries", n_year_bounds);
    r.count("starts_inside_hand_over_piece", n_hand_over);
    r.count("starts_in_rule_years_below_1970", n_below_1970);
    r.count("probe_starts", starts.len() as u64);
    for &s in &starts {
        let Ok(start) = Timestamp::from_nanosecond(s) else { continue };
        for forward in [true, false] {
            match collect(&p.jiff, start, forward, 3) {
                Err(pn) => r.viol(sec, &format!("{}/{}", dirname(forward), panic_sig(&pn)), format!("{}:{} from {}", p.origin, p.name, start), pn),
                Ok(items) => {
                    check_run(r, &mut agg, sec, &zc, s, forward, &items, items.len() < 3, false);
                    runs += 1;
                    nitems += items.len() as u64;
                }
            }
        }
    }
    agg.flush(r, sec);
    r.add_transitions(nitems);
    r.add_validated(nitems);
    if p.name == "America/New_York" && p.origin == "sys" {
        let first = collect(&p.jiff, Timestamp::UNIX_EPOCH, true, 2).unwrap_or_default();
        r.sample(json!({"zone": p.name, "effective_breakpoints": eff.len(), "following(epoch)[0..2]": format!("{:?}", first)}));
    }
    (runs, nitems)
}
