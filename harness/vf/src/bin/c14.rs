//! C14: transition iterators yield exactly the instants where the zone's
//! offset information changes. E1 over all zones: from every probe instant the
//! first items of `following`/`preceding`, and both iterators to exhaustion
//! from the range limits, against the R-tz breakpoint list.

use jiff::tz::TimeZone;
use jiff::Timestamp;
use rayon::prelude::*;
use refmodel::tz::{self as rtz, Eff};
use serde_json::json;
use std::sync::atomic::{AtomicU64, Ordering};
use vf::zones::{self, Pair, ZoneSrc};
use vf::{guard, panic_sig, Report};

const NS: i128 = 1_000_000_000;

type Item = (i128, i32, bool, String);

fn main() {
    let r = Report::from_args("C14");
    let items_total = AtomicU64::new(0);
    let runs_total = AtomicU64::new(0);

    let mut corpus: Vec<(&str, Vec<ZoneSrc>)> = vec![];
    corpus.push(("sys", zones::sys(true)));
    corpus.push(("synth-slim", zones::synth("slim")));
    corpus.push(("synth-fat", zones::synth("fat")));
    if r.thorough() {
        corpus.push(("bundled", zones::bundled()));
        corpus.push(("tzdata-slim", zones::tzdata("slim")));
        corpus.push(("tzdata-fat", zones::tzdata("fat")));
    } else {
        // quick: all bundled zones too (slim data: this is where in-memory
        // fattening from the footer actually adds transitions)
        corpus.push(("bundled", zones::bundled()));
    }
    for (tag, zs) in &corpus {
        let sec = format!("tzif:{}", tag);
        r.section(&sec, || {
            zs.par_iter().for_each(|z| {
                let Ok(pair) = zones::load_pair(z) else {
                    r.count("zones_not_loaded(see C03)", 1);
                    return;
                };
                let (a, b) = check_zone(&r, &sec, &pair);
                runs_total.fetch_add(a, Ordering::Relaxed);
                items_total.fetch_add(b, Ordering::Relaxed);
                r.add_states(1);
            });
        });
    }
    r.section("posix", || {
        let strs = zones::posix_alphabet(if r.quick() { 0 } else { 1 });
        strs.par_iter().for_each(|s| {
            let Ok(pair) = zones::load_posix_pair(s) else {
                r.count("zones_not_loaded(see C03)", 1);
                return;
            };
            let (a, b) = check_zone(&r, "posix", &pair);
            runs_total.fetch_add(a, Ordering::Relaxed);
            items_total.fetch_add(b, Ordering::Relaxed);
            r.add_states(1);
        });
    });
    r.section("fixed", || {
        // fixed zones and UTC have no transitions at all
        for secs in [-93599, -3600, -1, 0, 1, 19800, 93599] {
            let tz = TimeZone::fixed(jiff::tz::Offset::from_seconds(secs).unwrap());
            for t in [Timestamp::MIN, Timestamp::UNIX_EPOCH, Timestamp::MAX] {
                let n = guard(|| tz.following(t).count() + tz.preceding(t).count());
                match n {
                    Ok(0) => {}
                    Ok(k) => r.viol("fixed", "fixed-zone/yields-transitions", format!("fixed {} from {}", secs, t), format!("{} items", k)),
                    Err(p) => r.viol("fixed", &format!("fixed-zone/{}", panic_sig(&p)), format!("fixed {} from {}", secs, t), p),
                }
                r.add_transitions(2);
            }
        }
        for tz in [TimeZone::UTC, TimeZone::unknown()] {
            let n = guard(|| tz.following(Timestamp::MIN).count() + tz.preceding(Timestamp::MAX).count());
            if n != Ok(0) {
                r.viol("fixed", "fixed-zone/yields-transitions", "UTC/unknown".to_string(), format!("{:?}", n));
            }
        }
    });
    r.count("iterator_runs", runs_total.load(Ordering::Relaxed));
    r.count("items_checked", items_total.load(Ordering::Relaxed));
    if r.only_section.is_none() {
        r.require(items_total.load(Ordering::Relaxed) > 1_000_000, "more than 1M yielded items checked");
        r.require(r.get_count("exhaustive_runs") > 1000, "exhaustive runs happened");
    }
    r.finish();
}

fn collect(tz: &TimeZone, start: Timestamp, forward: bool, limit: usize) -> Result<Vec<Item>, String> {
    guard(|| {
        let f = |t: jiff::tz::TimeZoneTransition<'_>| (t.timestamp().as_nanosecond(), t.offset().seconds(), t.dst().is_dst(), t.abbreviation().to_string());
        if forward {
            tz.following(start).take(limit).map(f).collect()
        } else {
            tz.preceding(start).take(limit).map(f).collect()
        }
    })
}

fn f7(eff: &[Eff], j: usize) -> &'static str {
    let lo = j.saturating_sub(3);
    let hi = (j + 3).min(eff.len().saturating_sub(1));
    if eff.is_empty() {
        return "";
    }
    if (lo..=hi).any(|i| eff[i].crosses_year) {
        ":posix-rule-transition-outside-its-utc-year"
    } else {
        ""
    }
}

fn in_range(e: &Eff) -> bool {
    e.start > zones::TS_MIN_SEC && e.start <= zones::TS_MAX_SEC
}

/// Check one iterator run against the effective breakpoint list.
#[allow(clippy::too_many_arguments)]
fn check_run(r: &Report, sec: &str, p: &Pair, eff: &[Eff], start_ns: i128, forward: bool, items: &[Item], ended: bool, lookups: bool) {
    let z = &p.model;
    let dir = if forward { "following" } else { "preceding" };
    let case = || format!("{}:{} {} from {}", p.origin, p.name, dir, vf::conv::fmt_ns(start_ns));
    let info = |e: &Eff| &z.infos[e.info as usize];
    // candidate model entries in iteration order
    let cand: Vec<usize> = if forward {
        (1..eff.len()).filter(|&i| eff[i].start as i128 * NS > start_ns && in_range(&eff[i])).collect()
    } else {
        (1..eff.len()).rev().filter(|&i| (eff[i].start as i128 * NS) < start_ns && in_range(&eff[i])).collect()
    };
    let mut c = 0usize;
    let mut prev: Option<i128> = None;
    for (n, it) in items.iter().enumerate() {
        let t = it.0;
        let ok_order = if forward { t > start_ns && prev.map_or(true, |q| t > q) } else { t < start_ns && prev.map_or(true, |q| t < q) };
        if !ok_order {
            r.viol(sec, &format!("{}/not-strictly-monotone-or-not-beyond-start", dir), case(), format!("item {} at {} (prev {:?})", n, vf::conv::fmt_ns(t), prev));
            return;
        }
        prev = Some(t);
        // skip model entries passed over
        loop {
            if c >= cand.len() {
                r.viol(sec, &format!("{}/yields-instant-that-is-no-transition{}", dir, f7(eff, eff.len().saturating_sub(1))), case(), format!("item {} at {} beyond all model transitions", n, vf::conv::fmt_ns(t)));
                return;
            }
            let e = &eff[cand[c]];
            let et = e.start as i128 * NS;
            let passed = if forward { et < t } else { et > t };
            if !passed {
                break;
            }
            if e.changing {
                r.viol(
                    sec,
                    &format!("{}/omits-transition{}", dir, f7(eff, cand[c])),
                    case(),
                    format!("model transition at {} ({:?} -> {:?}) skipped; jiff item {} is at {}", e.start, info(&eff[cand[c] - 1]), info(e), n, vf::conv::fmt_ns(t)),
                );
                return;
            }
            c += 1;
        }
        let e = &eff[cand[c]];
        if e.start as i128 * NS != t {
            r.viol(sec, &format!("{}/yields-instant-that-is-no-transition{}", dir, f7(eff, cand[c])), case(), format!("item {} at {}; nearest model transition {}", n, vf::conv::fmt_ns(t), e.start));
            return;
        }
        if !e.changing && !e.recorded {
            // input class: the first rule-generated instant after the recorded
            // transitions (the hand-over), as opposed to any later rule instant
            let first_rule = cand[c] > 0 && eff[cand[c] - 1].recorded;
            let k = if first_rule && f7(eff, cand[c]).is_empty() { ":first-rule-instant-after-the-recorded-transitions" } else { "" };
            r.viol(sec, &format!("{}/yields-rule-instant-where-nothing-changes{}{}", dir, k, f7(eff, cand[c])), case(), format!("item {} at {}", n, vf::conv::fmt_ns(t)));
            return;
        }
        let m = info(e);
        if (it.1, it.2, it.3.as_str()) != (m.utoff, m.dst, m.abbrev.as_str()) {
            r.viol(sec, &format!("{}/item-info{}", dir, f7(eff, cand[c])), case(), format!("item {} at {}: jiff ({}, {}, {}) model ({}, {}, {})", n, e.start, it.1, it.2, it.3, m.utoff, m.dst, m.abbrev));
            return;
        }
        if lookups {
            // agrees with direct lookup immediately before and at the yielded instant
            let at = Timestamp::from_nanosecond(t).unwrap();
            let before = Timestamp::from_nanosecond(t - 1).ok();
            let got = guard(|| {
                let a = p.jiff.to_offset_info(at);
                let b = before.map(|b| p.jiff.to_offset_info(b));
                ((a.offset().seconds(), a.dst().is_dst(), a.abbreviation().to_string()), b.map(|b| (b.offset().seconds(), b.dst().is_dst(), b.abbreviation().to_string())))
            });
            if let Ok((a, b)) = got {
                if (a.0, a.1, a.2.as_str()) != (it.1, it.2, it.3.as_str()) {
                    r.viol(sec, &format!("{}/item-disagrees-with-direct-lookup-at{}", dir, f7(eff, cand[c])), case(), format!("item {:?} lookup {:?}", it, a));
                    return;
                }
                if let Some(b) = b {
                    let pm = info(&eff[cand[c] - 1]);
                    if e.changing && (b.0, b.1, b.2.as_str()) != (pm.utoff, pm.dst, pm.abbrev.as_str()) {
                        r.viol(sec, &format!("{}/direct-lookup-just-before-item{}", dir, f7(eff, cand[c])), case(), format!("lookup at item-1ns {:?} model {:?}", b, pm));
                        return;
                    }
                }
            }
        }
        c += 1;
    }
    if ended {
        // iterator exhausted: no changing transition may remain
        while c < cand.len() {
            let e = &eff[cand[c]];
            if e.changing {
                r.viol(
                    sec,
                    &format!("{}/omits-transition{}", dir, f7(eff, cand[c])),
                    case(),
                    format!("iterator ended after {} items; model transition at {} ({:?} -> {:?}) never yielded", items.len(), e.start, info(&eff[cand[c] - 1]), info(e)),
                );
                return;
            }
            c += 1;
        }
    }
}

/// Footers already walked in full, per origin. The rule-generated part of a
/// zone (everything after the hand-over from the recorded transitions) is a
/// function of the footer string alone, in the model and in jiff (the same
/// `PosixTimeZone` code evaluates it, whatever the zone's recorded history).
/// So in the thorough tier the walk over *every* rule year up to 9999 is done
/// for the first zone of each (origin, footer) class and for every
/// representative, synthetic and POSIX zone; the other members of a class get
/// all their recorded transitions, the hand-over and the windows of rule years
/// the quick tier uses. Merged states have the same futures; what differs
/// between members (history, hand-over index) is still probed for each.
static FOOTERS_WALKED: std::sync::Mutex<Option<std::collections::HashSet<(String, String)>>> = std::sync::Mutex::new(None);

fn first_of_footer_class(p: &Pair) -> bool {
    if p.origin == "posix" {
        // generated strings: every 64th one (by length of the string)
        return p.name.len() % 64 == 0;
    }
    if p.origin.starts_with("synth") || zones::REP.contains(&p.name.as_str()) {
        return true;
    }
    let Some(f) = p.model.footer.clone() else { return true };
    let mut g = FOOTERS_WALKED.lock().unwrap();
    g.get_or_insert_with(Default::default).insert((p.origin.clone(), f))
}

fn check_zone(r: &Report, sec: &str, p: &Pair) -> (u64, u64) {
    let eff = p.model.effective();
    let quick = r.quick();
    let full_walk = !quick && first_of_footer_class(p);
    if !quick {
        r.count(if full_walk { "zones_walked_over_every_rule_year" } else { "zones_walked_over_rule_year_windows(footer class already walked in full)" }, 1);
    }
    let mut runs = 0u64;
    let mut nitems = 0u64;
    const CAP: usize = 40_000;
    // to exhaustion from the limits and the epoch
    let mut ex: Vec<(Timestamp, bool)> = vec![(Timestamp::MIN, true), (Timestamp::MAX, false), (Timestamp::MAX, true), (Timestamp::MIN, false)];
    // POSIX strings run to exhaustion over the last / first millennium only
    // (thorough: every 64th string, by length of the string, over the whole range)
    if (p.origin == "posix" && quick) || (!quick && !full_walk) {
        ex[0].0 = Timestamp::from_second(221_845_392_000).unwrap(); // 9000-01-01
        ex[1].0 = Timestamp::from_second(-346_149_504_000).unwrap(); // ~ -9000
    }
    if full_walk {
        ex.push((Timestamp::UNIX_EPOCH, true));
        ex.push((Timestamp::UNIX_EPOCH, false));
    }
    for (start, forward) in ex {
        match collect(&p.jiff, start, forward, CAP) {
            Err(pn) => r.viol(sec, &format!("{}/{}", if forward { "following" } else { "preceding" }, panic_sig(&pn)), format!("{}:{} from {}", p.origin, p.name, start), pn),
            Ok(items) => {
                if items.len() >= CAP {
                    r.cap(format!("{}:{} iterator longer than {} items", p.origin, p.name, CAP));
                }
                check_run(r, sec, p, &eff, start.as_nanosecond(), forward, &items, items.len() < CAP, true);
                runs += 1;
                nitems += items.len() as u64;
                r.count("exhaustive_runs", 1);
            }
        }
    }
    // first three items from every probe instant
    let filter = |e: &Eff| -> bool {
        if e.recorded {
            return true;
        }
        let y = e.rule_year;
        if quick || !full_walk {
            // a window of rule years after the last recorded one, a century boundary, the end of the range
            (2007..2012).contains(&y) || (2037..2041).contains(&y) || (2099..2101).contains(&y) || y >= 9997 || y <= -9997
        } else {
            true
        }
    };
    for i in 1..eff.len() {
        if !in_range(&eff[i]) || !filter(&eff[i]) {
            continue;
        }
        for s in zones::instants_around(eff[i].start) {
            let Ok(start) = Timestamp::from_nanosecond(s) else { continue };
            for forward in [true, false] {
                match collect(&p.jiff, start, forward, 3) {
                    Err(pn) => r.viol(sec, &format!("{}/{}", if forward { "following" } else { "preceding" }, panic_sig(&pn)), format!("{}:{} from {}", p.origin, p.name, start), pn),
                    Ok(items) => {
                        check_run(r, sec, p, &eff, s, forward, &items, items.len() < 3, false);
                        runs += 1;
                        nitems += items.len() as u64;
                    }
                }
            }
        }
    }
    r.add_transitions(nitems);
    r.add_validated(nitems);
    if p.name == "America/New_York" && p.origin == "sys" {
        let first = collect(&p.jiff, Timestamp::UNIX_EPOCH, true, 2).unwrap_or_default();
        r.sample(json!({"zone": p.name, "effective_breakpoints": eff.len(), "following(epoch)[0..2]": format!("{:?}", first)}));
    }
    let _: Option<rtz::Zone> = None;
    (runs, nitems)
}
