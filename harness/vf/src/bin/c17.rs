//! C17: parsers are total. E1 with deviation-bounded mutation: every parser
//! entry point is fed (a) all short byte strings over a grammar alphabet,
//! (b) all 0/1/2-deviation mutations of a seed corpus, (c) digit-run and
//! repetition blow-ups, (d) strptime format-string products, (e) mutated TZif
//! and concatenated-tzdata files. Oracle: terminates, no panic, work
//! proportional to the input, Ok values are sane (in range, print and re-parse
//! to an equal value), accepted zones answer every lookup.
//!
//! Untrusted binary data and the 1 MB inputs are processed in worker child
//! processes (this same binary re-executed with `--c17-worker`), so that an
//! abort (allocation failure, stack overflow) or a hang is attributed to one
//! input.

use rayon::prelude::*;
use serde_json::json;
use std::alloc::{GlobalAlloc, Layout, System};
use std::cell::{Cell, UnsafeCell};
use std::collections::BTreeMap;
use std::io::{BufRead, BufReader, Write};
use std::process::{Command, Stdio};
use std::sync::atomic::{AtomicBool, AtomicU64, AtomicUsize, Ordering::Relaxed};
use std::sync::{mpsc, OnceLock};
use std::time::{Duration, Instant};
use vf::{guard, panic_sig, Report};

#[path = "c17/battery.rs"]
mod battery;
#[path = "c09/rfmt.rs"]
#[allow(dead_code)]
mod rfmt;
#[path = "c17/text.rs"]
mod text;
#[path = "c17/tzmut.rs"]
mod tzmut;

use text::{escape, Parser, Res};

// ---------------------------------------------------------------------------
// counting allocator (thread-local byte counter; no I/O inside measured code)
// ---------------------------------------------------------------------------

struct Counting;
thread_local! {
    static ALLOCATED: Cell<u64> = const { Cell::new(0) };
}
unsafe impl GlobalAlloc for Counting {
    unsafe fn alloc(&self, l: Layout) -> *mut u8 {
        let _ = ALLOCATED.try_with(|c| c.set(c.get() + l.size() as u64));
        System.alloc(l)
    }
    unsafe fn dealloc(&self, p: *mut u8, l: Layout) {
        System.dealloc(p, l)
    }
    unsafe fn realloc(&self, p: *mut u8, l: Layout, n: usize) -> *mut u8 {
        let _ = ALLOCATED.try_with(|c| c.set(c.get() + n as u64));
        System.realloc(p, l, n)
    }
    unsafe fn alloc_zeroed(&self, l: Layout) -> *mut u8 {
        let _ = ALLOCATED.try_with(|c| c.set(c.get() + l.size() as u64));
        System.alloc_zeroed(l)
    }
}
#[global_allocator]
static GLOBAL: Counting = Counting;

fn allocated() -> u64 {
    ALLOCATED.with(|c| c.get())
}

// ---------------------------------------------------------------------------
// in-process watchdog: a call that does not return within 5 s is reported
// with its input, then the run is closed (the stuck thread cannot be stopped)
// ---------------------------------------------------------------------------

const SLOT_BUF: usize = 512;
struct Slot {
    busy: AtomicBool,
    tick: AtomicU64,
    what: AtomicUsize,
    len: AtomicUsize,
    buf: UnsafeCell<[u8; SLOT_BUF]>,
}
unsafe impl Sync for Slot {}
static SLOTS: OnceLock<Vec<Slot>> = OnceLock::new();
static TICK: AtomicU64 = AtomicU64::new(0);
static NAMES: OnceLock<Vec<String>> = OnceLock::new();
static SECTION: OnceLock<std::sync::Mutex<String>> = OnceLock::new();

fn slots() -> &'static Vec<Slot> {
    SLOTS.get_or_init(|| {
        (0..128)
            .map(|_| Slot { busy: AtomicBool::new(false), tick: AtomicU64::new(0), what: AtomicUsize::new(0), len: AtomicUsize::new(0), buf: UnsafeCell::new([0; SLOT_BUF]) })
            .collect()
    })
}

#[inline]
fn enter(what: usize, input: &[u8]) -> &'static Slot {
    let i = rayon::current_thread_index().map(|i| i + 1).unwrap_or(0) % 128;
    let s = &slots()[i];
    let n = input.len().min(SLOT_BUF);
    // only this thread writes its slot; the watchdog reads it only when the
    // thread has been stuck for seconds
    unsafe { (&mut *s.buf.get())[..n].copy_from_slice(&input[..n]) };
    s.len.store(input.len(), Relaxed);
    s.what.store(what, Relaxed);
    s.tick.store(TICK.load(Relaxed), Relaxed);
    s.busy.store(true, Relaxed);
    s
}

fn start_watchdog(r: &Report) {
    let rp = r as *const Report as usize;
    std::thread::spawn(move || loop {
        std::thread::sleep(Duration::from_millis(100));
        let now = TICK.fetch_add(1, Relaxed) + 1;
        for s in slots().iter() {
            if s.busy.load(Relaxed) && now.saturating_sub(s.tick.load(Relaxed)) > 50 {
                let r = unsafe { &*(rp as *const Report) };
                let len = s.len.load(Relaxed);
                let buf = unsafe { &*s.buf.get() };
                let what = &NAMES.get().unwrap()[s.what.load(Relaxed)];
                let sec = SECTION.get().unwrap().lock().unwrap().clone();
                let case = format!("{} input=\"{}\"{}", what, escape(&buf[..len.min(SLOT_BUF)]), if len > SLOT_BUF { format!(" (+{} more bytes)", len - SLOT_BUF) } else { String::new() });
                r.viol(&sec, &format!("{}/no-termination(>5s)", what), case, "the call did not return within 5 s; run closed");
                r.cap("run closed early by the in-process watchdog (a parser call did not return)");
                let owned: Report = unsafe { std::ptr::read(rp as *const Report) };
                owned.finish();
            }
        }
    });
}

fn set_section(name: &str) {
    *SECTION.get_or_init(|| std::sync::Mutex::new(String::new())).lock().unwrap() = name.to_string();
}

// ---------------------------------------------------------------------------
// running one text case
// ---------------------------------------------------------------------------

fn case_str(p: &Parser, input: &[u8]) -> String {
    format!("{} input=\"{}\"", p.name, escape(input))
}

#[derive(Default, Clone, Copy)]
struct Tally {
    ok: u64,
    err: u64,
    bad: u64,
    panics: u64,
}

#[inline]
fn run_text(r: &Report, section: &str, pi: usize, p: &Parser, input: &[u8], t: &mut Tally) {
    let slot = enter(pi, input);
    let res = guard(|| (p.f)(input));
    slot.busy.store(false, Relaxed);
    match res {
        Ok(Res::Err) => t.err += 1,
        Ok(Res::Ok) => t.ok += 1,
        Ok(Res::Bad(class, detail)) => {
            t.bad += 1;
            r.viol(section, &format!("{}/{}", p.name, class), case_str(p, input), detail);
        }
        Ok(Res::Many(v)) => {
            t.bad += 1;
            for (class, detail) in v {
                r.viol(section, &format!("{}/{}", p.name, class), case_str(p, input), detail);
            }
        }
        Err(pn) => {
            t.panics += 1;
            let cls = text::panic_class(input);
            r.viol(section, &format!("{}/{}{}", p.name, panic_sig(&pn), cls), case_str(p, input), pn);
        }
    }
}

fn flush_tally(r: &Report, section: &str, p: &Parser, t: &Tally) {
    let n = t.ok + t.err + t.bad + t.panics;
    r.add_states(n);
    r.add_transitions(n);
    r.add_validated(t.ok + t.bad);
    r.count(&format!("{}:{}:ok", section, p.name), t.ok + t.bad);
    r.count(&format!("{}:{}:err", section, p.name), t.err);
    r.count(&format!("{}:cases", section), n);
    r.count(&format!("{}:ok", section), t.ok + t.bad);
    r.count(&format!("{}:err", section), t.err);
}

// ---------------------------------------------------------------------------
// (a) all short strings
// ---------------------------------------------------------------------------

fn sec_short(r: &Report, ps: &[Parser]) {
    r.section("short", || {
        set_section("short");
        // strings of length <= L over the parser's alphabet
        for (pi, p) in ps.iter().enumerate() {
            let a = p.alpha;
            let l = if r.quick() { 5 } else { 6 };
            // tasks: every prefix of length <= 2, each extended by all suffixes
            // of length <= L-2 (prefixes shorter than 2 are not extended)
            let mut tasks: Vec<Vec<u8>> = vec![vec![]];
            for &x in a {
                tasks.push(vec![x]);
            }
            for &x in a {
                for &y in a {
                    tasks.push(vec![x, y]);
                }
            }
            tasks.par_iter().for_each(|pre| {
                let mut t = Tally::default();
                if pre.len() < 2 {
                    run_text(r, "short", pi, p, pre, &mut t);
                } else {
                    let mut buf = pre.clone();
                    for sl in 0..=(l - 2) {
                        buf.resize(2 + sl, a[0]);
                        let total = a.len().pow(sl as u32);
                        for c in 0..total {
                            let mut x = c;
                            for k in 0..sl {
                                buf[2 + k] = a[x % a.len()];
                                x /= a.len();
                            }
                            run_text(r, "short", pi, p, &buf, &mut t);
                        }
                    }
                }
                flush_tally(r, "short", p, &t);
            });
        }
    });
}

// ---------------------------------------------------------------------------
// (b) deviation-bounded mutations of the seed corpus
// ---------------------------------------------------------------------------

#[derive(Clone, Copy, Debug)]
enum Edit {
    Delete(usize),
    Dup(usize),
    Replace(usize, u8),
    Insert(usize, u8),
    Trunc(usize),
}

fn edits(s: &[u8], alpha: &[u8]) -> Vec<Edit> {
    let mut v = vec![];
    for pos in 0..s.len() {
        v.push(Edit::Delete(pos));
        v.push(Edit::Dup(pos));
        v.push(Edit::Trunc(pos));
        for &a in alpha {
            if a != s[pos] {
                v.push(Edit::Replace(pos, a));
            }
            v.push(Edit::Insert(pos, a));
        }
    }
    for &a in alpha {
        v.push(Edit::Insert(s.len(), a));
    }
    v
}

fn apply(s: &[u8], e: Edit, out: &mut Vec<u8>) {
    out.clear();
    match e {
        Edit::Delete(p) => {
            out.extend_from_slice(&s[..p]);
            out.extend_from_slice(&s[p + 1..]);
        }
        Edit::Dup(p) => {
            out.extend_from_slice(&s[..=p]);
            out.extend_from_slice(&s[p..]);
        }
        Edit::Replace(p, a) => {
            out.extend_from_slice(s);
            out[p] = a;
        }
        Edit::Insert(p, a) => {
            out.extend_from_slice(&s[..p]);
            out.push(a);
            out.extend_from_slice(&s[p..]);
        }
        Edit::Trunc(p) => out.extend_from_slice(&s[..p]),
    }
}

fn sec_mutate1(r: &Report, ps: &[Parser]) {
    r.section("mutate1", || {
        set_section("mutate1");
        let mut work: Vec<(usize, usize)> = vec![];
        for (pi, p) in ps.iter().enumerate() {
            for si in 0..p.seeds.len() {
                work.push((pi, si));
            }
        }
        let bad_seeds = std::sync::Mutex::new(vec![]);
        work.par_iter().for_each(|&(pi, si)| {
            let p = &ps[pi];
            let seed = p.seeds[si];
            let mut t = Tally::default();
            run_text(r, "mutate1", pi, p, seed, &mut t);
            if t.ok + t.bad != 1 {
                bad_seeds.lock().unwrap().push(case_str(p, seed));
            }
            r.count("mutate1:seeds", 1);
            r.count("mutate1:seeds_accepted", t.ok + t.bad);
            let mut buf = vec![];
            for e in edits(seed, p.alpha) {
                apply(seed, e, &mut buf);
                run_text(r, "mutate1", pi, p, &buf, &mut t);
            }
            flush_tally(r, "mutate1", p, &t);
        });
        let bs = bad_seeds.into_inner().unwrap();
        for b in &bs {
            r.note(format!("seed not accepted by its own parser: {}", b));
        }
        r.require(bs.is_empty(), "every seed string is accepted by its parser (0 deviations)");
    });
}

fn sec_mutate2(r: &Report, ps: &[Parser]) {
    r.section("mutate2", || {
        set_section("mutate2");
        let mut work: Vec<(usize, usize, Edit)> = vec![];
        for (pi, p) in ps.iter().enumerate() {
            let mut order: Vec<usize> = (0..p.seeds.len()).collect();
            order.sort_by_key(|&i| (p.seeds[i].len(), i));
            if r.quick() {
                order.truncate(5);
            }
            for si in order {
                for e in edits(p.seeds[si], p.alpha) {
                    work.push((pi, si, e));
                }
            }
        }
        work.par_iter().for_each(|&(pi, si, e1)| {
            let p = &ps[pi];
            let mut s1 = vec![];
            apply(p.seeds[si], e1, &mut s1);
            let mut t = Tally::default();
            let mut buf = vec![];
            for e2 in edits(&s1, p.alpha) {
                apply(&s1, e2, &mut buf);
                run_text(r, "mutate2", pi, p, &buf, &mut t);
            }
            flush_tally(r, "mutate2", p, &t);
        });
    });
}

// ---------------------------------------------------------------------------
// (d) strptime
// ---------------------------------------------------------------------------

/// (format fragment, sample inputs that fragment would accept or nearly accept)
fn directives() -> Vec<(&'static [u8], Vec<&'static [u8]>)> {
    let d: Vec<(&'static [u8], Vec<&'static [u8]>)> = vec![
        (b"%%", vec![b"%"]),
        (b"%A", vec![b"Monday", b"Tuesday"]),
        (b"%a", vec![b"Mon", b"tue"]),
        (b"%B", vec![b"January", b"december"]),
        (b"%b", vec![b"Jan", b"Dec"]),
        (b"%h", vec![b"Feb"]),
        (b"%C", vec![b"20", b"99"]),
        (b"%D", vec![b"06/15/24", b"12/31/69"]),
        (b"%d", vec![b"01", b"31"]),
        (b"%e", vec![b" 5", b"15"]),
        (b"%F", vec![b"2024-06-15", b"-9999-01-01"]),
        (b"%f", vec![b"123456789", b"5"]),
        (b"%.f", vec![b".5", b""]),
        (b"%.3f", vec![b".123", b""]),
        (b"%.0f", vec![b"", b".1"]),
        (b"%3f", vec![b"123"]),
        (b"%G", vec![b"2024", b"-9999"]),
        (b"%g", vec![b"24", b"69"]),
        (b"%H", vec![b"00", b"23"]),
        (b"%k", vec![b" 7", b"23"]),
        (b"%I", vec![b"12", b"01"]),
        (b"%l", vec![b" 1", b"12"]),
        (b"%j", vec![b"001", b"366"]),
        (b"%M", vec![b"00", b"59"]),
        (b"%m", vec![b"01", b"12"]),
        (b"%n", vec![b" ", b"\n"]),
        (b"%t", vec![b"\t"]),
        (b"%P", vec![b"am", b"PM"]),
        (b"%p", vec![b"AM", b"pm"]),
        (b"%Q", vec![b"America/New_York", b"+0530"]),
        (b"%:Q", vec![b"America/New_York", b"-05:00"]),
        (b"%R", vec![b"07:00", b"23:59"]),
        (b"%S", vec![b"00", b"60"]),
        (b"%s", vec![b"1700000000", b"-377705023201"]),
        (b"%T", vec![b"07:00:00", b"23:59:60"]),
        (b"%U", vec![b"00", b"53"]),
        (b"%u", vec![b"1", b"7"]),
        (b"%V", vec![b"01", b"53"]),
        (b"%W", vec![b"00", b"53"]),
        (b"%w", vec![b"0", b"6"]),
        (b"%Y", vec![b"2024", b"-9999"]),
        (b"%y", vec![b"24", b"69"]),
        (b"%z", vec![b"+0530", b"-04"]),
        (b"%:z", vec![b"+05:30", b"-00:44:30"]),
        (b"%::z", vec![b"+05:30:00"]),
        (b"%Z", vec![b"EST"]),
        (b"%c", vec![b"x"]),
        // flags and widths
        (b"%-d", vec![b"5", b"31"]),
        (b"%_d", vec![b" 5"]),
        (b"%0d", vec![b"05"]),
        (b"%^a", vec![b"MON"]),
        (b"%#a", vec![b"mON"]),
        (b"%3d", vec![b"005"]),
        (b"%10Y", vec![b"0000002024", b"2024"]),
        (b"%255Y", vec![b"2024"]),
        (b"%256Y", vec![b"2024"]),
        (b"%03Y", vec![b"024", b"2024"]),
        (b"%-3Y", vec![b"24"]),
        (b"%_5H", vec![b"    7"]),
        (b"%^B", vec![b"JANUARY"]),
        (b"%-:z", vec![b"+5:30"]),
        (b"%9.9f", vec![b".123456789"]),
        // unknown / truncated directives
        (b"%!", vec![b"!"]),
        (b"%E", vec![b"E"]),
        (b"%O", vec![b"O"]),
        (b"%\xFF", vec![b"\xFF"]),
        (b"%1", vec![b"1"]),
        (b"%-", vec![b"-"]),
        (b"%:", vec![b":"]),
        (b"%.", vec![b"."]),
        (b"%", vec![b"%"]),
        // literals
        (b" ", vec![b" ", b""]),
        (b"x", vec![b"x", b"X"]),
        (b"-", vec![b"-"]),
        (b":", vec![b":"]),
        (b"T", vec![b"T", b"t"]),
        (b"\xFF", vec![b"\xFF"]),
    ];
    d
}

fn chk_bdt(tm: &jiff::fmt::strtime::BrokenDownTime, fmt: &[u8]) -> Option<(String, String)> {
    use text::*;
    let rng = |name: &str, v: Option<i64>, lo: i64, hi: i64| -> Option<(String, String)> {
        match v {
            Some(x) if x < lo || x > hi => Some((format!("ok-value-out-of-range:BrokenDownTime.{}", name), format!("{}", x))),
            _ => None,
        }
    };
    let checks = [
        rng("year", tm.year().map(|x| x as i64), -9999, 9999),
        rng("month", tm.month().map(|x| x as i64), 1, 12),
        rng("day", tm.day().map(|x| x as i64), 1, 31),
        rng("day_of_year", tm.day_of_year().map(|x| x as i64), 1, 366),
        rng("iso_week_year", tm.iso_week_year().map(|x| x as i64), -9999, 9999),
        rng("iso_week", tm.iso_week().map(|x| x as i64), 1, 53),
        rng("sunday_based_week", tm.sunday_based_week().map(|x| x as i64), 0, 53),
        rng("monday_based_week", tm.monday_based_week().map(|x| x as i64), 0, 53),
        rng("hour", tm.hour().map(|x| x as i64), 0, 23),
        rng("minute", tm.minute().map(|x| x as i64), 0, 59),
        rng("second", tm.second().map(|x| x as i64), 0, 59),
        rng("subsec_nanosecond", tm.subsec_nanosecond().map(|x| x as i64), 0, 999_999_999),
        rng("offset", tm.offset().map(|x| x.seconds() as i64), -93_599, 93_599),
    ];
    if let Some(x) = checks.into_iter().flatten().next() {
        return Some(x);
    }
    let _ = tm.weekday();
    let _ = tm.meridiem();
    let _ = tm.iana_time_zone();
    if let Ok(z) = tm.to_zoned() {
        if let Some(x) = chk_zoned(&z) {
            return Some(x);
        }
    }
    if let Ok(ts) = tm.to_timestamp() {
        if let Some(x) = chk_timestamp(ts, b"") {
            return Some(x);
        }
    }
    if let Ok(dt) = tm.to_datetime() {
        if let Some(x) = chk_datetime(dt) {
            return Some(x);
        }
    }
    if let Ok(d) = tm.to_date() {
        if let Some(x) = chk_date(d) {
            return Some(x);
        }
    }
    if let Ok(t) = tm.to_time() {
        if let Some(x) = chk_time(t) {
            return Some(x);
        }
    }
    // printer: must not panic; what it prints must not make the parser panic
    if let Ok(text) = tm.to_string(fmt) {
        let _ = jiff::fmt::strtime::parse(fmt, &text);
    }
    None
}

const STRP: usize = 1000; // index of "strtime::parse" in NAMES

fn run_strp(r: &Report, fmt: &[u8], input: &[u8], t: &mut Tally) {
    let mut packed = Vec::with_capacity(fmt.len() + input.len() + 1);
    packed.extend_from_slice(fmt);
    packed.push(b'|');
    packed.extend_from_slice(input);
    let slot = enter(STRP, &packed);
    let res = guard(|| match jiff::fmt::strtime::parse(fmt, input) {
        Err(_) => Res::Err,
        Ok(tm) => match chk_bdt(&tm, fmt) {
            None => Res::Ok,
            Some((c, d)) => Res::Bad(c, d),
        },
    });
    slot.busy.store(false, Relaxed);
    let case = || format!("strtime::parse format=\"{}\" input=\"{}\"", escape(fmt), escape(input));
    match res {
        Ok(Res::Err) => t.err += 1,
        Ok(Res::Ok) => t.ok += 1,
        Ok(Res::Bad(c, d)) => {
            t.bad += 1;
            r.viol("strptime", &format!("strtime::parse/{}", c), case(), d);
        }
        Ok(Res::Many(_)) => unreachable!(),
        Err(p) => {
            t.panics += 1;
            let cls = if input.is_empty() { "[empty-input]" } else { "" };
            r.viol("strptime", &format!("strtime::parse/{}{}", panic_sig(&p), cls), case(), p);
        }
    }
}

fn all_strings(alpha: &[u8], maxlen: usize) -> Vec<Vec<u8>> {
    let mut out: Vec<Vec<u8>> = vec![vec![]];
    let mut prev: Vec<Vec<u8>> = vec![vec![]];
    for _ in 0..maxlen {
        let mut next = vec![];
        for p in &prev {
            for &a in alpha {
                let mut q = p.clone();
                q.push(a);
                next.push(q);
            }
        }
        out.extend(next.iter().cloned());
        prev = next;
    }
    out
}

fn sec_strptime(r: &Report) {
    r.section("strptime", || {
        set_section("strptime");
        let ds = directives();
        let n = ds.len();
        let quick = r.quick();
        const A_IN: &[u8] = b"019+-:./ AMJapu\xFF";
        const A_FMT: &[u8] = b"%-_0^#19:.YdfzQ\xFF";
        let garbage: [&[u8]; 6] = [b"", b"0", b"\xFF", b"-", b"+", b" "];
        let flush = |t: &Tally| {
            let k = t.ok + t.err + t.bad + t.panics;
            r.add_states(k);
            r.add_transitions(k);
            r.add_validated(t.ok + t.bad);
            r.count("strptime:cases", k);
            r.count("strptime:ok", t.ok + t.bad);
            r.count("strptime:err", t.err);
        };
        // (d1) all sequences of <= 3 directives x generated inputs
        let mut seqs: Vec<Vec<usize>> = vec![];
        for a in 0..n {
            seqs.push(vec![a]);
            for b in 0..n {
                seqs.push(vec![a, b]);
            }
        }
        // the triples are enumerated inside the parallel loop (first two fixed)
        let pairs: Vec<(usize, usize)> = (0..n).flat_map(|a| (0..n).map(move |b| (a, b))).collect();
        let gen_inputs = |seq: &[usize], out: &mut Vec<Vec<u8>>| {
            out.clear();
            // product of the samples
            let mut acc: Vec<Vec<u8>> = vec![vec![]];
            for &d in seq {
                let mut next = vec![];
                for a in &acc {
                    for s in &ds[d].1 {
                        let mut q = a.clone();
                        q.extend_from_slice(s);
                        next.push(q);
                    }
                }
                acc = next;
            }
            for a in acc {
                if !a.is_empty() {
                    out.push(a[..a.len() - 1].to_vec());
                }
                let mut more = a.clone();
                more.push(b'9');
                out.push(more);
                out.push(a);
            }
            for g in garbage {
                out.push(g.to_vec());
            }
        };
        let run_seq = |seq: &[usize], t: &mut Tally, inputs: &mut Vec<Vec<u8>>| {
            let mut fmt = vec![];
            for &d in seq {
                fmt.extend_from_slice(ds[d].0);
            }
            gen_inputs(seq, inputs);
            for i in inputs.iter() {
                run_strp(r, &fmt, i, t);
            }
            r.count("strptime:formats", 1);
        };
        seqs.par_iter().for_each(|seq| {
            let mut t = Tally::default();
            let mut inputs = vec![];
            run_seq(seq, &mut t, &mut inputs);
            flush(&t);
        });
        pairs.par_iter().for_each(|&(a, b)| {
            let mut t = Tally::default();
            let mut inputs = vec![];
            for c in 0..n {
                run_seq(&[a, b, c], &mut t, &mut inputs);
            }
            flush(&t);
        });
        // (d1') one and two directives x all short inputs
        let (l1, l2) = if quick { (3, 2) } else { (4, 3) };
        let in1 = all_strings(A_IN, l1);
        let in2 = all_strings(A_IN, l2);
        (0..n).into_par_iter().for_each(|a| {
            let mut t = Tally::default();
            for i in &in1 {
                run_strp(r, ds[a].0, i, &mut t);
            }
            flush(&t);
        });
        pairs.par_iter().for_each(|&(a, b)| {
            let mut t = Tally::default();
            let mut fmt = ds[a].0.to_vec();
            fmt.extend_from_slice(ds[b].0);
            for i in &in2 {
                run_strp(r, &fmt, i, &mut t);
            }
            flush(&t);
        });
        // (d2) all short raw format strings x a few inputs
        let fmts = all_strings(A_FMT, if quick { 4 } else { 5 });
        let ins: [&[u8]; 7] = [b"", b"2024", b"5", b"+05:30", b"Jan", b"\xFF", b".5"];
        fmts.par_chunks(256).for_each(|chunk| {
            let mut t = Tally::default();
            for f in chunk {
                for i in ins {
                    run_strp(r, f, i, &mut t);
                }
            }
            flush(&t);
        });
        r.count("strptime:raw_formats", fmts.len() as u64);
    });
}

// ---------------------------------------------------------------------------
// worker children: tzif, concat, blowup
// ---------------------------------------------------------------------------

struct TzifSpace {
    seeds: Vec<tzmut::Seed>,
    footers: Vec<Vec<u8>>,
    muts: Vec<(usize, tzmut::Mut)>,
    built: Vec<(String, Vec<u8>)>,
}

fn tzif_space(quick: bool) -> TzifSpace {
    let seeds = tzmut::seeds();
    let footers = tzmut::hostile_footers();
    let mut order: Vec<usize> = (0..seeds.len()).collect();
    order.sort_by_key(|&i| (seeds[i].bytes.len(), i));
    let small: Vec<usize> = order.iter().copied().take(3).collect();
    let mut muts = vec![];
    for (si, s) in seeds.iter().enumerate() {
        let full = !quick || s.bytes.len() <= 1024;
        let pairs = !quick || small.contains(&si);
        for m in tzmut::mutations(&s.bytes, full, pairs, footers.len()) {
            muts.push((si, m));
        }
    }
    let posix = vf::zones::posix_alphabet(if quick { 0 } else { 1 });
    let posix: Vec<String> = if quick { posix.into_iter().step_by(7).collect() } else { posix };
    let built = tzmut::built_cases(&posix);
    TzifSpace { seeds, footers, muts, built }
}

impl TzifSpace {
    fn len(&self) -> usize {
        self.muts.len() + self.built.len()
    }
    fn describe(&self, i: usize) -> String {
        if i < self.muts.len() {
            let (si, m) = &self.muts[i];
            tzmut::describe(&self.seeds[*si], m)
        } else {
            self.built[i - self.muts.len()].0.clone()
        }
    }
    fn bytes(&self, i: usize) -> Vec<u8> {
        if i < self.muts.len() {
            let (si, m) = &self.muts[i];
            tzmut::apply(&self.seeds[*si].bytes, m, &self.footers)
        } else {
            self.built[i - self.muts.len()].1.clone()
        }
    }
}

#[derive(Clone)]
enum Blow {
    Digits { pi: usize, si: usize, field: usize, n: usize, fill: u8 },
    Unit { pi: usize, ui: usize, total: usize },
    /// the repeat unit exactly `count` times, and (when `close` is non-empty)
    /// followed by `count` copies of `close`: repetition and nesting counts on
    /// both sides of every counter width a parser might use
    Count { pi: usize, ui: usize, count: usize, close: &'static [u8] },
}

fn digit_fields(s: &[u8]) -> Vec<(usize, usize)> {
    let mut v = vec![];
    let mut i = 0;
    while i < s.len() {
        if s[i].is_ascii_digit() {
            let st = i;
            while i < s.len() && s[i].is_ascii_digit() {
                i += 1;
            }
            v.push((st, i));
        } else {
            i += 1;
        }
    }
    v
}

fn blow_space(ps: &[Parser], quick: bool) -> Vec<Blow> {
    let mut v = vec![];
    let runs: &[usize] = &[19, 20, 39, 40, 1000, 1_000_000];
    for (pi, p) in ps.iter().enumerate() {
        for (si, s) in p.seeds.iter().enumerate() {
            let nf = digit_fields(s).len();
            for field in 0..nf {
                for &n in runs {
                    // quick: the 10^6 runs only on the first 6 seeds of each parser
                    if quick && n == 1_000_000 && si >= 6 {
                        continue;
                    }
                    for fill in [b'9', b'0'] {
                        v.push(Blow::Digits { pi, si, field, n, fill });
                    }
                }
            }
        }
        for ui in 0..p.units.len() {
            for total in [65_536usize, 1_000_000] {
                v.push(Blow::Unit { pi, ui, total });
            }
            for count in COUNTS {
                v.push(Blow::Count { pi, ui, count: *count, close: b"" });
                if let Some(close) = closer(p.units[ui].1) {
                    v.push(Blow::Count { pi, ui, count: *count, close });
                }
            }
        }
    }
    v
}

/// counts straddling 2^7, 2^8, 2^15, 2^16 (and a couple of small ones)
const COUNTS: &[usize] = &[1, 2, 3, 126, 127, 128, 129, 254, 255, 256, 257, 258, 511, 512, 513, 32_767, 32_768, 32_769, 65_534, 65_535, 65_536, 65_537];

/// the closing delimiter for a repeat unit that is an opening delimiter
fn closer(unit: &[u8]) -> Option<&'static [u8]> {
    match unit {
        b"(" => Some(b")"),
        b"[" => Some(b"]"),
        b"<" => Some(b">"),
        _ => None,
    }
}

fn blow_describe(ps: &[Parser], b: &Blow) -> String {
    match b {
        Blow::Digits { pi, si, field, n, fill } => format!("{} blowup seed=\"{}\" digit-field#{}:={}x{}", ps[*pi].name, escape(ps[*pi].seeds[*si]), field, *fill as char, n),
        Blow::Unit { pi, ui, total } => {
            let u = ps[*pi].units[*ui];
            format!("{} blowup \"{}\"+(\"{}\" repeated to {} bytes)+\"{}\"", ps[*pi].name, escape(u.0), escape(u.1), total, escape(u.2))
        }
        Blow::Count { pi, ui, count, close } => {
            let u = ps[*pi].units[*ui];
            format!("{} blowup \"{}\"+(\"{}\" x{})+(\"{}\" x{})+\"{}\"", ps[*pi].name, escape(u.0), escape(u.1), count, escape(close), count, escape(u.2))
        }
    }
}

fn blow_bytes(ps: &[Parser], b: &Blow) -> Vec<u8> {
    match b {
        Blow::Digits { pi, si, field, n, fill } => {
            let s = ps[*pi].seeds[*si];
            let (a, e) = digit_fields(s)[*field];
            let mut out = s[..a].to_vec();
            out.resize(a + n, *fill);
            if *fill == b'0' {
                // keep the field's own last digit so the value stays small
                *out.last_mut().unwrap() = s[e - 1];
            }
            out.extend_from_slice(&s[e..]);
            out
        }
        Blow::Unit { pi, ui, total } => {
            let u = ps[*pi].units[*ui];
            let mut out = u.0.to_vec();
            while out.len() + u.1.len() + u.2.len() <= *total {
                out.extend_from_slice(u.1);
            }
            out.extend_from_slice(u.2);
            out
        }
        Blow::Count { pi, ui, count, close } => {
            let u = ps[*pi].units[*ui];
            let mut out = u.0.to_vec();
            for _ in 0..*count {
                out.extend_from_slice(u.1);
            }
            for _ in 0..*count {
                out.extend_from_slice(close);
            }
            out.extend_from_slice(u.2);
            out
        }
    }
}

/// Work limits ("work proportional to input"): wall time and allocation.
fn time_limit(len: usize) -> f64 {
    if len <= 65_536 {
        5.0
    } else {
        60.0
    }
}
fn alloc_limit(len: usize) -> u64 {
    64 * len as u64 + (1 << 20)
}

struct ChildOut {
    out: std::io::Stdout,
}
impl ChildOut {
    fn line(&mut self, tag: &str, v: serde_json::Value) {
        let mut l = self.out.lock();
        let _ = writeln!(l, "{} {}", tag, v);
        let _ = l.flush();
    }
    fn viol(&mut self, sig: &str, case: &str, detail: &str) {
        self.line("V", json!({"sig": sig, "case": case, "detail": detail}));
    }
}

fn child_main(args: &[String]) -> ! {
    vf::guard::install_hook();
    let get = |k: &str| -> String { args.iter().position(|a| a == k).map(|i| args[i + 1].clone()).unwrap_or_default() };
    let kind = get("--c17-worker");
    let quick = get("--tier") != "thorough";
    let shard: usize = get("--shard").parse().unwrap();
    let nshards: usize = get("--nshards").parse().unwrap();
    let resume: i64 = get("--resume-after").parse().unwrap_or(-1);
    unsafe {
        // an absurd allocation request must fail (and abort) instead of
        // succeeding lazily and thrashing the machine
        let lim = libc::rlimit { rlim_cur: 6 << 30, rlim_max: 6 << 30 };
        libc::setrlimit(libc::RLIMIT_AS, &lim);
    }
    // initialise the global tz database outside any measured call
    let _ = jiff::tz::db().get("UTC");
    let _ = jiff::tz::db().get("America/New_York");
    let mut o = ChildOut { out: std::io::stdout() };
    let counters: std::cell::RefCell<BTreeMap<String, u64>> = Default::default();
    let maxima: std::cell::RefCell<BTreeMap<String, f64>> = Default::default();
    let bump = |k: &str, n: u64| *counters.borrow_mut().entry(k.to_string()).or_insert(0) += n;
    let peak = |k: &str, v: f64| {
        let mut m = maxima.borrow_mut();
        let e = m.entry(k.to_string()).or_insert(0.0);
        if v > *e {
            *e = v;
        }
    };
    let mine = |i: usize| i % nshards == shard && (i as i64) > resume;
    let mut since_flush = 0u32;
    // engine self-test hooks (never set by the driver): make the worker die or
    // hang at one case to exercise the attribution path
    let at = |var: &str| -> Option<usize> { std::env::var(var).ok()?.strip_prefix(&format!("{}:", kind))?.parse().ok() };
    let (abort_at, hang_at) = (at("C17_SELFTEST_ABORT_AT"), at("C17_SELFTEST_HANG_AT"));
    let selftest = |i: usize| {
        if abort_at == Some(i) {
            std::process::abort();
        }
        if hang_at == Some(i) {
            loop {
                std::thread::sleep(Duration::from_secs(3600));
            }
        }
    };
    match kind.as_str() {
        "tzif" => {
            let sp = tzif_space(quick);
            for i in 0..sp.len() {
                if !mine(i) {
                    continue;
                }
                since_flush += 1;
                if since_flush >= 500 {
                    // counters travel as deltas so that little is lost if the
                    // process dies later
                    o.line("C", json!({"counters": *counters.borrow(), "maxima": *maxima.borrow()}));
                    counters.borrow_mut().clear();
                    since_flush = 0;
                }
                o.line("S", json!(i));
                selftest(i);
                let bytes = sp.bytes(i);
                let a0 = allocated();
                let t0 = Instant::now();
                let res = guard(|| jiff::tz::TimeZone::tzif("Test/Zone", &bytes));
                let dt = t0.elapsed().as_secs_f64();
                let da = allocated() - a0;
                bump("tzif:cases", 1);
                peak("tzif:max_parse_seconds", dt);
                if bytes.len() >= 65_536 {
                    peak("tzif:max_alloc_bytes_per_input_byte(inputs>=64KiB)", da as f64 / bytes.len() as f64);
                } else {
                    peak("tzif:max_alloc_bytes(inputs<64KiB)", da as f64);
                }
                if dt > time_limit(bytes.len()) {
                    o.viol("TimeZone::tzif/work-not-proportional(time)", &sp.describe(i), &format!("{} bytes took {:.2}s", bytes.len(), dt));
                }
                if da > alloc_limit(bytes.len()) {
                    o.viol("TimeZone::tzif/work-not-proportional(allocation)", &sp.describe(i), &format!("{} bytes of input, {} bytes allocated", bytes.len(), da));
                }
                match res {
                    Err(p) => o.viol(&format!("TimeZone::tzif/{}", panic_sig(&p)), &sp.describe(i), &p),
                    Ok(Err(_)) => bump("tzif:rejected", 1),
                    Ok(Ok(tz)) => {
                        bump("tzif:accepted", 1);
                        let raw = tzmut::raw_times(&bytes);
                        let t1 = Instant::now();
                        match guard(|| battery::battery(&tz, &raw, true)) {
                            Err(p) => o.viol(&format!("TimeZone::tzif->lookup/{}", panic_sig(&p)), &sp.describe(i), &p),
                            Ok(v) => {
                                for (cls, d) in v {
                                    o.viol(&format!("TimeZone::tzif->{}", cls), &sp.describe(i), &d);
                                }
                            }
                        }
                        let bt = t1.elapsed().as_secs_f64();
                        peak("tzif:max_battery_seconds", bt);
                        if bt > 60.0 {
                            o.viol("TimeZone::tzif->lookup/work-not-proportional(time)", &sp.describe(i), &format!("lookup battery took {:.2}s", bt));
                        }
                    }
                }
            }
        }
        "concat" => {
            let base = tzmut::concat_base();
            let muts = tzmut::concat_mutations(&base, !quick);
            let dir = format!("/verif/.build/c17-work-{}", std::process::id());
            let _ = std::fs::create_dir_all(&dir);
            let path = format!("{}/tzdata", dir);
            for (i, m) in muts.iter().enumerate() {
                if !mine(i) {
                    continue;
                }
                since_flush += 1;
                if since_flush >= 500 {
                    // counters travel as deltas so that little is lost if the
                    // process dies later
                    o.line("C", json!({"counters": *counters.borrow(), "maxima": *maxima.borrow()}));
                    counters.borrow_mut().clear();
                    since_flush = 0;
                }
                o.line("S", json!(i));
                selftest(i);
                let bytes = tzmut::concat_apply(&base, m);
                std::fs::write(&path, &bytes).expect("write concat file");
                let desc = tzmut::concat_describe(m);
                bump("concat:cases", 1);
                let t0 = Instant::now();
                let db = match guard(|| jiff::tz::TimeZoneDatabase::from_concatenated_path(&path)) {
                    Err(p) => {
                        o.viol(&format!("TimeZoneDatabase::from_concatenated_path/{}", panic_sig(&p)), &desc, &p);
                        continue;
                    }
                    Ok(Err(_)) => {
                        bump("concat:rejected", 1);
                        continue;
                    }
                    Ok(Ok(db)) => db,
                };
                bump("concat:opened", 1);
                match guard(|| db.available().map(|n| n.as_str().to_string()).collect::<Vec<_>>()) {
                    Err(p) => o.viol(&format!("concatenated TimeZoneDatabase::available/{}", panic_sig(&p)), &desc, &p),
                    Ok(v) => bump("concat:names_listed", v.len() as u64),
                }
                for name in tzmut::CONCAT_NAMES.iter().chain(["Nope/Zone", ""].iter()) {
                    match guard(|| db.get(name)) {
                        Err(p) => o.viol(&format!("concatenated TimeZoneDatabase::get/{}", panic_sig(&p)), &desc, &p),
                        Ok(Err(_)) => bump("concat:get_err", 1),
                        Ok(Ok(tz)) => {
                            bump("concat:get_ok", 1);
                            match guard(|| battery::battery(&tz, &[], false)) {
                                Err(p) => o.viol(&format!("concatenated TimeZoneDatabase::get->lookup/{}", panic_sig(&p)), &desc, &p),
                                Ok(v) => {
                                    for (cls, d) in v {
                                        o.viol(&format!("concatenated TimeZoneDatabase::get->{}", cls), &desc, &d);
                                    }
                                }
                            }
                        }
                    }
                }
                let dt = t0.elapsed().as_secs_f64();
                peak("concat:max_case_seconds", dt);
                if dt > 60.0 {
                    o.viol("TimeZoneDatabase::from_concatenated_path/work-not-proportional(time)", &desc, &format!("{:.2}s", dt));
                }
            }
            let _ = std::fs::remove_dir_all(&dir);
        }
        "blowup" => {
            let ps = text::parsers();
            let sp = blow_space(&ps, quick);
            for (i, b) in sp.iter().enumerate() {
                if !mine(i) {
                    continue;
                }
                since_flush += 1;
                if since_flush >= 500 {
                    // counters travel as deltas so that little is lost if the
                    // process dies later
                    o.line("C", json!({"counters": *counters.borrow(), "maxima": *maxima.borrow()}));
                    counters.borrow_mut().clear();
                    since_flush = 0;
                }
                o.line("S", json!(i));
                selftest(i);
                let bytes = blow_bytes(&ps, b);
                let pi = match b {
                    Blow::Digits { pi, .. } | Blow::Unit { pi, .. } | Blow::Count { pi, .. } => *pi,
                };
                let p = &ps[pi];
                let a0 = allocated();
                let t0 = Instant::now();
                let res = guard(|| (p.f)(&bytes));
                let dt = t0.elapsed().as_secs_f64();
                let da = allocated() - a0;
                bump("blowup:cases", 1);
                if bytes.len() > 65_536 {
                    bump("blowup:cases_1MB", 1);
                }
                peak("blowup:max_seconds", dt);
                if bytes.len() >= 65_536 {
                    peak("blowup:max_alloc_bytes_per_input_byte(inputs>=64KiB)", da as f64 / bytes.len() as f64);
                } else {
                    peak("blowup:max_alloc_bytes(inputs<64KiB)", da as f64);
                }
                let desc = blow_describe(&ps, b);
                if dt > time_limit(bytes.len()) {
                    o.viol(&format!("{}/work-not-proportional(time)", p.name), &desc, &format!("{} bytes took {:.2}s", bytes.len(), dt));
                }
                if da > alloc_limit(bytes.len()) {
                    o.viol(&format!("{}/work-not-proportional(allocation)", p.name), &desc, &format!("{} bytes of input, {} bytes allocated", bytes.len(), da));
                }
                match res {
                    Err(pn) => o.viol(&format!("{}/{}", p.name, panic_sig(&pn)), &desc, &pn),
                    Ok(Res::Err) => bump("blowup:err", 1),
                    Ok(Res::Ok) => bump("blowup:ok", 1),
                    Ok(Res::Bad(c, d)) => {
                        bump("blowup:ok", 1);
                        o.viol(&format!("{}/{}", p.name, c), &desc, &d);
                    }
                    Ok(Res::Many(v)) => {
                        bump("blowup:ok", 1);
                        for (c, d) in v {
                            o.viol(&format!("{}/{}", p.name, c), &desc, &d);
                        }
                    }
                }
            }
        }
        other => {
            eprintln!("unknown worker kind {:?}", other);
            std::process::exit(2);
        }
    }
    o.line("C", json!({"counters": *counters.borrow(), "maxima": *maxima.borrow()}));
    o.line("E", json!(null));
    std::process::exit(0);
}

enum Msg {
    Line(String),
    Eof,
}

/// Run one kind of worker over `n_shards` child processes; attribute deaths
/// and hangs to the case in progress and resume after it.
fn run_children(r: &Report, section: &str, kind: &str, op: &str, describe: &(dyn Fn(usize) -> String + Sync), maxima: &std::sync::Mutex<BTreeMap<String, f64>>) {
    let exe = std::env::current_exe().expect("current_exe");
    let nshards = std::thread::available_parallelism().map(|n| n.get()).unwrap_or(8).clamp(2, 16);
    let tier = if r.quick() { "quick" } else { "thorough" };
    let idle_limit: u64 = std::env::var("C17_WORKER_TIMEOUT_S").ok().and_then(|x| x.parse().ok()).unwrap_or(120);
    (0..nshards).into_par_iter().for_each(|shard| {
        let mut resume: i64 = -1;
        let mut restarts = 0;
        'outer: loop {
            let mut child = Command::new(&exe)
                .args(["--c17-worker", kind, "--tier", tier, "--shard", &shard.to_string(), "--nshards", &nshards.to_string(), "--resume-after", &resume.to_string()])
                .stdout(Stdio::piped())
                .stderr(Stdio::inherit())
                .spawn()
                .expect("spawn worker");
            let stdout = child.stdout.take().unwrap();
            let (tx, rx) = mpsc::channel();
            let reader = std::thread::spawn(move || {
                let br = BufReader::new(stdout);
                for l in br.lines() {
                    match l {
                        Ok(l) => {
                            if tx.send(Msg::Line(l)).is_err() {
                                return;
                            }
                        }
                        Err(_) => break,
                    }
                }
                let _ = tx.send(Msg::Eof);
            });
            let mut cur: Option<usize> = None;
            let mut done = false;
            loop {
                match rx.recv_timeout(Duration::from_secs(idle_limit)) {
                    Ok(Msg::Line(l)) => {
                        let (tag, rest) = l.split_once(' ').unwrap_or((&l, ""));
                        match tag {
                            "S" => {
                                cur = rest.parse().ok();
                                r.count(&format!("{}:started", kind), 1);
                            }
                            "V" => {
                                if let Ok(v) = serde_json::from_str::<serde_json::Value>(rest) {
                                    r.viol(section, v["sig"].as_str().unwrap_or("?"), v["case"].as_str().unwrap_or("?"), v["detail"].as_str().unwrap_or("?"));
                                }
                            }
                            "C" => {
                                if let Ok(v) = serde_json::from_str::<serde_json::Value>(rest) {
                                    if let Some(c) = v["counters"].as_object() {
                                        for (k, n) in c {
                                            r.count(k, n.as_u64().unwrap_or(0));
                                        }
                                    }
                                    if let Some(c) = v["maxima"].as_object() {
                                        let mut g = maxima.lock().unwrap();
                                        for (k, n) in c {
                                            let e = g.entry(k.clone()).or_insert(0.0);
                                            let x = n.as_f64().unwrap_or(0.0);
                                            if x > *e {
                                                *e = x;
                                            }
                                        }
                                    }
                                }
                            }
                            "E" => done = true,
                            _ => {}
                        }
                    }
                    Ok(Msg::Eof) => break,
                    Err(_) => {
                        // no progress for 120 s: the case in progress hangs
                        let _ = child.kill();
                        let _ = child.wait();
                        let _ = reader.join();
                        let _ = std::fs::remove_dir_all(format!("/verif/.build/c17-work-{}", child.id()));
                        match cur {
                            Some(i) => {
                                r.viol(section, &format!("{}/no-termination(>{}s)", op, idle_limit), describe(i), format!("worker made no progress for {} s and was killed", idle_limit));
                                resume = i as i64;
                                restarts += 1;
                                if restarts > 50 {
                                    r.cap(format!("{} shard {} abandoned after 50 restarts", kind, shard));
                                    break 'outer;
                                }
                                continue 'outer;
                            }
                            None => {
                                r.note(format!("NONVACUITY-FAILED: {} worker shard {} hung before its first case", kind, shard));
                                break 'outer;
                            }
                        }
                    }
                }
            }
            let status = child.wait().expect("wait worker");
            let _ = reader.join();
            let _ = std::fs::remove_dir_all(format!("/verif/.build/c17-work-{}", child.id()));
            if done && status.success() {
                break;
            }
            // died: attribute to the case in progress
            use std::os::unix::process::ExitStatusExt;
            let how = match (status.signal(), status.code()) {
                (Some(s), _) => format!("signal {}", s),
                (None, Some(c)) => format!("exit code {}", c),
                _ => "unknown".into(),
            };
            match cur {
                Some(i) if (i as i64) > resume => {
                    r.viol(section, &format!("{}/process-died({})", op, how), describe(i), format!("the worker process died ({}) while processing this input", how));
                    resume = i as i64;
                    restarts += 1;
                    if restarts > 50 {
                        r.cap(format!("{} shard {} abandoned after 50 restarts", kind, shard));
                        break;
                    }
                }
                _ => {
                    r.note(format!("NONVACUITY-FAILED: {} worker shard {} died ({}) outside any case", kind, shard, how));
                    break;
                }
            }
        }
    });
}

fn main() {
    let args: Vec<String> = std::env::args().collect();
    if args.iter().any(|a| a == "--c17-worker") {
        child_main(&args);
    }
    let r = Report::from_args("C17");
    let ps = text::parsers();
    let mut names: Vec<String> = ps.iter().map(|p| p.name.to_string()).collect();
    names.resize(STRP + 1, String::new());
    names[STRP] = "strtime::parse(format|input)".into();
    let _ = NAMES.set(names);
    set_section("");
    start_watchdog(&r);
    // make sure the global tz database is initialised outside any measured call
    let _ = jiff::tz::db().get("UTC");

    sec_short(&r, &ps);
    sec_mutate1(&r, &ps);
    sec_mutate2(&r, &ps);
    sec_strptime(&r);

    let maxima: std::sync::Mutex<BTreeMap<String, f64>> = std::sync::Mutex::new(BTreeMap::new());
    r.section("blowup", || {
        let sp = blow_space(&ps, r.quick());
        r.count("blowup:declared", sp.len() as u64);
        run_children(&r, "blowup", "blowup", "parser", &|i| blow_describe(&ps, &sp[i]), &maxima);
        r.add_states(r.get_count("blowup:cases"));
        r.add_transitions(r.get_count("blowup:cases"));
        r.add_validated(r.get_count("blowup:ok"));
        r.require(r.get_count("blowup:started") == sp.len() as u64 || r.n_viol_sigs() > 0, "every blow-up input was processed");
    });
    r.section("tzif", || {
        let sp = tzif_space(r.quick());
        r.count("tzif:declared", sp.len() as u64);
        r.count("tzif:seeds", sp.seeds.len() as u64);
        run_children(&r, "tzif", "tzif", "TimeZone::tzif", &|i| sp.describe(i), &maxima);
        r.add_states(r.get_count("tzif:cases"));
        r.add_transitions(r.get_count("tzif:cases"));
        r.add_validated(r.get_count("tzif:accepted"));
        r.require(r.get_count("tzif:started") == sp.len() as u64 || r.n_viol_sigs() > 0, "every TZif case was processed");
        r.require(r.get_count("tzif:accepted") > 0 && r.get_count("tzif:rejected") > 0, "TZif mutations both accepted and rejected");
        r.sample(json!({"section": "tzif", "seeds": sp.seeds.iter().map(|s| format!("{} ({} bytes)", s.name, s.bytes.len())).collect::<Vec<_>>()}));
    });
    r.section("concat", || {
        let base = tzmut::concat_base();
        let muts = tzmut::concat_mutations(&base, r.thorough());
        r.count("concat:declared", muts.len() as u64);
        run_children(&r, "concat", "concat", "TimeZoneDatabase::from_concatenated_path", &|i| tzmut::concat_describe(&muts[i]), &maxima);
        r.add_states(r.get_count("concat:cases"));
        r.add_transitions(r.get_count("concat:cases"));
        r.add_validated(r.get_count("concat:get_ok"));
        r.require(r.get_count("concat:started") == muts.len() as u64 || r.n_viol_sigs() > 0, "every concatenated-tzdata case was processed");
        r.require(r.get_count("concat:get_ok") > 0 && r.get_count("concat:rejected") > 0, "concatenated files both usable and rejected");
    });
    for (k, v) in maxima.lock().unwrap().iter() {
        r.note(format!("max {} = {:.6}", k, v));
    }

    if r.only_section.is_none() {
        for s in ["short", "mutate1", "mutate2", "strptime"] {
            r.require(r.get_count(&format!("{}:ok", s)) > 0 && r.get_count(&format!("{}:err", s)) > 0, &format!("section {} saw both Ok and Err outcomes", s));
        }
        for p in &ps {
            r.require(r.get_count(&format!("mutate1:{}:ok", p.name)) > 0, &format!("{} accepted some mutated seeds", p.name));
        }
    }
    for k in ["short:ok", "short:err", "mutate1:ok", "mutate1:err", "mutate2:ok", "mutate2:err", "strptime:ok", "strptime:err", "blowup:ok", "blowup:err", "tzif:accepted", "tzif:rejected", "concat:opened", "concat:rejected", "concat:get_ok", "concat:get_err"] {
        r.outcome(k, r.get_count(k));
    }
    r.finish();
}
