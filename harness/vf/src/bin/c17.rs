//! C17: parsers are total. E1 with deviation-bounded mutation: every parser
//! entry point is fed (a) all short byte strings over a grammar alphabet,
//! (a') anchored tails: a valid prefix + all short strings + a suffix, which
//! reaches the grammar behind the prefix (offsets, annotations, comments,
//! zones, unit designators) that plain short strings never get to,
//! (b) all 0/1/2-deviation mutations of a seed corpus (one seed per grammar
//! production), (c) digit-run and repetition blow-ups (repeat counts on both
//! sides of every buffer capacity and counter width, at several grammar
//! positions), (c') every digit field of every seed replaced by values on
//! both sides of every integer / range limit, (d) strptime format-string
//! products incl. every directive x flag x width x digit string, (d') strftime
//! with arbitrary formats on boundary values, (e) mutated TZif and
//! concatenated-tzdata files. Oracle: terminates, no panic, work
//! proportional to the input, Ok values are sane (in range, print and re-parse
//! to an equal value), accepted zones answer every lookup; entry points that
//! are documented as equivalent (FromStr vs the default parser, strptime
//! wrappers and parse_prefix vs strtime::parse, relaxed vs strict RFC 2822,
//! the strftime family) agree.
//!
//! Table rows are `Full` (everything) or `Light` (thin wrappers, option
//! combinations, second alphabets: 1-deviation mutations, anchored tails,
//! field values and small blow-ups only); see `c17/text.rs`.
//!
//! Untrusted binary data and the 1 MB inputs are processed in worker child
//! processes (this same binary re-executed with `--c17-worker`), so that an
//! abort (allocation failure, stack overflow) or a hang is attributed to one
//! input.

use rayon::prelude::*;
use serde_json::json;
use std::alloc::{GlobalAlloc, Layout, System};
use std::cell::{Cell, UnsafeCell};
use std::collections::BTreeMap;
use std::io::{BufRead, BufReader, Write};
use std::process::{Command, Stdio};
use std::sync::atomic::{AtomicBool, AtomicU64, AtomicUsize, Ordering::Relaxed};
use std::sync::{mpsc, OnceLock};
use std::time::{Duration, Instant};
use vf::{guard, panic_sig, Report};

#[path = "c17/battery.rs"]
mod battery;
#[path = "c09/rfmt.rs"]
#[allow(dead_code)]
mod rfmt;
#[path = "c17/text.rs"]
mod text;
#[path = "c17/tzmut.rs"]
mod tzmut;

use text::{escape, Parser, Res};

// ---------------------------------------------------------------------------
// counting allocator (thread-local byte counter; no I/O inside measured code)
// ---------------------------------------------------------------------------

struct Counting;
thread_local! {
    static ALLOCATED: Cell<u64> = const { Cell::new(0) };
}
unsafe impl GlobalAlloc for Counting {
    unsafe fn alloc(&self, l: Layout) -> *mut u8 {
        let _ = ALLOCATED.try_with(|c| c.set(c.get() + l.size() as u64));
        System.alloc(l)
    }
    unsafe fn dealloc(&self, p: *mut u8, l: Layout) {
        System.dealloc(p, l)
    }
    unsafe fn realloc(&self, p: *mut u8, l: Layout, n: usize) -> *mut u8 {
        let _ = ALLOCATED.try_with(|c| c.set(c.get() + n as u64));
        System.realloc(p, l, n)
    }
    unsafe fn alloc_zeroed(&self, l: Layout) -> *mut u8 {
        let _ = ALLOCATED.try_with(|c| c.set(c.get() + l.size() as u64));
        System.alloc_zeroed(l)
    }
}
#[global_allocator]
static GLOBAL: Counting = Counting;

fn allocated() -> u64 {
    ALLOCATED.with(|c| c.get())
}

// ---------------------------------------------------------------------------
// in-process watchdog: a call that does not return within 20 s (counted in the
// watchdog's own 100 ms ticks, so a paused machine does not count) is reported
// with its input, then the run is closed (the stuck thread cannot be stopped)
// ---------------------------------------------------------------------------

const SLOT_BUF: usize = 512;
struct Slot {
    busy: AtomicBool,
    tick: AtomicU64,
    what: AtomicUsize,
    len: AtomicUsize,
    buf: UnsafeCell<[u8; SLOT_BUF]>,
}
unsafe impl Sync for Slot {}
static SLOTS: OnceLock<Vec<Slot>> = OnceLock::new();
static TICK: AtomicU64 = AtomicU64::new(0);
static NAMES: OnceLock<Vec<String>> = OnceLock::new();
static SECTION: OnceLock<std::sync::Mutex<String>> = OnceLock::new();

fn slots() -> &'static Vec<Slot> {
    SLOTS.get_or_init(|| {
        (0..128)
            .map(|_| Slot { busy: AtomicBool::new(false), tick: AtomicU64::new(0), what: AtomicUsize::new(0), len: AtomicUsize::new(0), buf: UnsafeCell::new([0; SLOT_BUF]) })
            .collect()
    })
}

#[inline]
fn enter(what: usize, input: &[u8]) -> &'static Slot {
    let i = rayon::current_thread_index().map(|i| i + 1).unwrap_or(0) % 128;
    let s = &slots()[i];
    let n = input.len().min(SLOT_BUF);
    // only this thread writes its slot; the watchdog reads it only when the
    // thread has been stuck for seconds
    unsafe { (&mut *s.buf.get())[..n].copy_from_slice(&input[..n]) };
    s.len.store(input.len(), Relaxed);
    s.what.store(what, Relaxed);
    s.tick.store(TICK.load(Relaxed), Relaxed);
    s.busy.store(true, Relaxed);
    s
}

fn start_watchdog(r: &Report) {
    let rp = r as *const Report as usize;
    std::thread::spawn(move || loop {
        std::thread::sleep(Duration::from_millis(100));
        let now = TICK.fetch_add(1, Relaxed) + 1;
        for s in slots().iter() {
            if s.busy.load(Relaxed) && now.saturating_sub(s.tick.load(Relaxed)) > 200 {
                let r = unsafe { &*(rp as *const Report) };
                let len = s.len.load(Relaxed);
                let buf = unsafe { &*s.buf.get() };
                let what = &NAMES.get().unwrap()[s.what.load(Relaxed)];
                let sec = SECTION.get().unwrap().lock().unwrap().clone();
                let case = format!("{} input=\"{}\"{}", what, escape(&buf[..len.min(SLOT_BUF)]), if len > SLOT_BUF { format!(" (+{} more bytes)", len - SLOT_BUF) } else { String::new() });
                r.viol(&sec, &format!("{}/no-termination(>20s)", what), case, "the call did not return within 20 s (200 watchdog ticks); run closed");
                r.cap("run closed early by the in-process watchdog (a parser call did not return)");
                let owned: Report = unsafe { std::ptr::read(rp as *const Report) };
                owned.finish();
            }
        }
    });
}

fn set_section(name: &str) {
    *SECTION.get_or_init(|| std::sync::Mutex::new(String::new())).lock().unwrap() = name.to_string();
}

// ---------------------------------------------------------------------------
// running one text case
// ---------------------------------------------------------------------------

fn case_str(p: &Parser, input: &[u8]) -> String {
    format!("{} input=\"{}\"", p.name, escape(input))
}

#[derive(Default, Clone, Copy)]
struct Tally {
    ok: u64,
    err: u64,
    bad: u64,
    panics: u64,
}

#[inline]
fn run_text(r: &Report, section: &str, pi: usize, p: &Parser, input: &[u8], t: &mut Tally) {
    let slot = enter(pi, input);
    let res = guard(|| (p.f)(input));
    slot.busy.store(false, Relaxed);
    match res {
        Ok(Res::Err) => t.err += 1,
        Ok(Res::Ok) => t.ok += 1,
        Ok(Res::Bad(class, detail)) => {
            t.bad += 1;
            r.viol(section, &format!("{}/{}", p.name, class), case_str(p, input), detail);
        }
        Ok(Res::Many(v)) => {
            t.bad += 1;
            for (class, detail) in v {
                r.viol(section, &format!("{}/{}", p.name, class), case_str(p, input), detail);
            }
        }
        Err(pn) => {
            t.panics += 1;
            let cls = text::panic_class(input);
            r.viol(section, &format!("{}/{}{}", p.name, panic_sig(&pn), cls), case_str(p, input), pn);
        }
    }
}

fn flush_tally(r: &Report, section: &str, p: &Parser, t: &Tally) {
    let n = t.ok + t.err + t.bad + t.panics;
    r.add_states(n);
    r.add_transitions(n);
    r.add_validated(t.ok + t.bad);
    r.count(&format!("{}:{}:ok", section, p.name), t.ok + t.bad);
    r.count(&format!("{}:{}:err", section, p.name), t.err);
    r.count(&format!("{}:cases", section), n);
    r.count(&format!("{}:ok", section), t.ok + t.bad);
    r.count(&format!("{}:err", section), t.err);
}

// ---------------------------------------------------------------------------
// (a) all short strings
// ---------------------------------------------------------------------------

fn sec_short(r: &Report, ps: &[Parser]) {
    r.section("short", || {
        set_section("short");
        // strings of length <= L over the parser's alphabet
        for (pi, p) in ps.iter().enumerate() {
            if p.level != text::Level::Full {
                continue;
            }
            let a = p.alpha;
            let l = if r.quick() { p.short_len.0 } else { p.short_len.1 };
            r.count(&format!("short:L={}:rows", l), 1);
            // tasks: every prefix of length <= 2, each extended by all suffixes
            // of length <= L-2 (prefixes shorter than 2 are not extended)
            let mut tasks: Vec<Vec<u8>> = vec![vec![]];
            for &x in a {
                tasks.push(vec![x]);
            }
            for &x in a {
                for &y in a {
                    tasks.push(vec![x, y]);
                }
            }
            tasks.par_iter().for_each(|pre| {
                let mut t = Tally::default();
                if pre.len() < 2 {
                    run_text(r, "short", pi, p, pre, &mut t);
                } else {
                    let mut buf = pre.clone();
                    for sl in 0..=(l - 2) {
                        buf.resize(2 + sl, a[0]);
                        let total = a.len().pow(sl as u32);
                        for c in 0..total {
                            let mut x = c;
                            for k in 0..sl {
                                buf[2 + k] = a[x % a.len()];
                                x /= a.len();
                            }
                            run_text(r, "short", pi, p, &buf, &mut t);
                        }
                    }
                }
                flush_tally(r, "short", p, &t);
            });
        }
    });
}

// ---------------------------------------------------------------------------
// (b) deviation-bounded mutations of the seed corpus
// ---------------------------------------------------------------------------

#[derive(Clone, Copy, Debug)]
enum Edit {
    Delete(usize),
    Dup(usize),
    Replace(usize, u8),
    Insert(usize, u8),
    Trunc(usize),
}

fn edits(s: &[u8], alpha: &[u8]) -> Vec<Edit> {
    let mut v = vec![];
    for pos in 0..s.len() {
        v.push(Edit::Delete(pos));
        v.push(Edit::Dup(pos));
        v.push(Edit::Trunc(pos));
        for &a in alpha {
            if a != s[pos] {
                v.push(Edit::Replace(pos, a));
            }
            v.push(Edit::Insert(pos, a));
        }
    }
    for &a in alpha {
        v.push(Edit::Insert(s.len(), a));
    }
    v
}

fn apply(s: &[u8], e: Edit, out: &mut Vec<u8>) {
    out.clear();
    match e {
        Edit::Delete(p) => {
            out.extend_from_slice(&s[..p]);
            out.extend_from_slice(&s[p + 1..]);
        }
        Edit::Dup(p) => {
            out.extend_from_slice(&s[..=p]);
            out.extend_from_slice(&s[p..]);
        }
        Edit::Replace(p, a) => {
            out.extend_from_slice(s);
            out[p] = a;
        }
        Edit::Insert(p, a) => {
            out.extend_from_slice(&s[..p]);
            out.push(a);
            out.extend_from_slice(&s[p..]);
        }
        Edit::Trunc(p) => out.extend_from_slice(&s[..p]),
    }
}

fn sec_mutate1(r: &Report, ps: &[Parser]) {
    r.section("mutate1", || {
        set_section("mutate1");
        let mut work: Vec<(usize, usize)> = vec![];
        for (pi, p) in ps.iter().enumerate() {
            for si in 0..p.seeds.len() {
                work.push((pi, si));
            }
        }
        let bad_seeds = std::sync::Mutex::new(vec![]);
        work.par_iter().for_each(|&(pi, si)| {
            let p = &ps[pi];
            let seed = p.seeds[si];
            let mut t = Tally::default();
            run_text(r, "mutate1", pi, p, seed, &mut t);
            if t.ok + t.bad != 1 {
                bad_seeds.lock().unwrap().push(case_str(p, seed));
            }
            r.count("mutate1:seeds", 1);
            r.count("mutate1:seeds_accepted", t.ok + t.bad);
            let mut buf = vec![];
            for e in edits(seed, p.alpha) {
                apply(seed, e, &mut buf);
                run_text(r, "mutate1", pi, p, &buf, &mut t);
            }
            flush_tally(r, "mutate1", p, &t);
        });
        let bs = bad_seeds.into_inner().unwrap();
        for b in &bs {
            r.note(format!("seed not accepted by its own parser: {}", b));
        }
        r.require(bs.is_empty(), "every seed string is accepted by its parser (0 deviations)");
    });
}

fn sec_mutate2(r: &Report, ps: &[Parser]) {
    r.section("mutate2", || {
        set_section("mutate2");
        let mut work: Vec<(usize, usize, Edit)> = vec![];
        for (pi, p) in ps.iter().enumerate() {
            if p.level != text::Level::Full {
                continue;
            }
            let mut order: Vec<usize> = (0..p.seeds.len()).collect();
            order.sort_by_key(|&i| (p.seeds[i].len(), i));
            if r.quick() {
                order.truncate(5);
            }
            for si in order {
                for e in edits(p.seeds[si], p.alpha) {
                    work.push((pi, si, e));
                }
            }
        }
        work.par_iter().for_each(|&(pi, si, e1)| {
            let p = &ps[pi];
            let mut s1 = vec![];
            apply(p.seeds[si], e1, &mut s1);
            let mut t = Tally::default();
            let mut buf = vec![];
            for e2 in edits(&s1, p.alpha) {
                apply(&s1, e2, &mut buf);
                run_text(r, "mutate2", pi, p, &buf, &mut t);
            }
            flush_tally(r, "mutate2", p, &t);
        });
    });
}

// ---------------------------------------------------------------------------
// (a') anchored tails: prefix + every short string + suffix
// ---------------------------------------------------------------------------

fn sec_anchored(r: &Report, ps: &[Parser]) {
    r.section("anchored", || {
        set_section("anchored");
        let quick = r.quick();
        // tasks: (row, anchor, first tail byte or none)
        let mut tasks: Vec<(usize, usize, Option<u8>)> = vec![];
        for (pi, p) in ps.iter().enumerate() {
            for (ai, a) in p.anchors.iter().enumerate() {
                tasks.push((pi, ai, None));
                for &x in a.alpha {
                    tasks.push((pi, ai, Some(x)));
                }
                r.count("anchored:anchors", 1);
            }
        }
        tasks.par_iter().for_each(|&(pi, ai, first)| {
            let p = &ps[pi];
            let a = &p.anchors[ai];
            let l = if quick { a.len.0 } else { a.len.1 };
            let mut t = Tally::default();
            let mut buf: Vec<u8> = a.prefix.to_vec();
            let base = buf.len();
            match first {
                None => {
                    buf.extend_from_slice(a.suffix);
                    run_text(r, "anchored", pi, p, &buf, &mut t);
                }
                Some(x) => {
                    // tails of length 1..=l starting with x
                    for tl in 1..=l {
                        let rest = tl - 1;
                        let total = a.alpha.len().pow(rest as u32);
                        buf.truncate(base);
                        buf.push(x);
                        buf.resize(base + tl, a.alpha[0]);
                        buf.extend_from_slice(a.suffix);
                        for c in 0..total {
                            let mut y = c;
                            for k in 0..rest {
                                buf[base + 1 + k] = a.alpha[y % a.alpha.len()];
                                y /= a.alpha.len();
                            }
                            run_text(r, "anchored", pi, p, &buf, &mut t);
                            // the same input cut off right after the tail
                            if !a.suffix.is_empty() {
                                run_text(r, "anchored", pi, p, &buf[..base + tl], &mut t);
                            }
                        }
                    }
                }
            }
            flush_tally(r, "anchored", p, &t);
            r.count(&format!("anchored:{}:#{}:ok", p.name, ai), t.ok + t.bad);
        });
        // every anchor must reach accepting states (else it enumerates nothing
        // the short strings do not)
        for p in ps {
            for ai in 0..p.anchors.len() {
                let k = format!("anchored:{}:#{}:ok", p.name, ai);
                r.require(r.get_count(&k) > 0, &format!("anchor #{} of {} reaches accepted inputs", ai, p.name));
            }
        }
    });
}

// ---------------------------------------------------------------------------
// (c') field values: every digit field of every seed replaced by values on
// both sides of every limit an accumulator, a counter or a range might have
// ---------------------------------------------------------------------------

const FIELD_VALUES: &[&str] = &[
    "0", "00", "1", "7", "8", "9", "10", "12", "13", "23", "24", "25", "26", "28", "29", "30", "31", "32", "49", "50", "53", "54", "59", "60", "61", "68", "69", "99", "100", "127", "128", "255", "256", "365", "366", "367", "999", "1000", "9999", "10000", "32767", "32768", "65535", "65536", "99999", "999999", "93599", "93600", "2147483647", "2147483648",
    "4294967295", "4294967296", "999999999", "1000000000", "9223372036854775807", "9223372036854775808", "18446744073709551615", "18446744073709551616",
    // Span unit limits and the first value past them
    "19998", "19999", "239976", "239977", "1043497", "1043498", "7304484", "7304485", "175307616", "175307617", "10518456960", "10518456961", "631107417600", "631107417601", "631107417600000", "631107417600001", "631107417600000000", "631107417600000001",
    // SignedDuration limits in hours / minutes, Timestamp limits in seconds
    "2562047788015215", "2562047788015216", "153722867280912930", "153722867280912931", "253402207200", "253402207201", "377705023201", "377705023202",
];
const FIELD_VALUES_PAIR: &[&str] = &["0", "9", "60", "99", "9999", "175307617", "631107417601", "9223372036854775807", "9223372036854775808", "00000000000000000001"];

fn sec_fieldvals(r: &Report, ps: &[Parser]) {
    r.section("fieldvals", || {
        set_section("fieldvals");
        let mut work: Vec<(usize, usize)> = vec![];
        for (pi, p) in ps.iter().enumerate() {
            for si in 0..p.seeds.len() {
                work.push((pi, si));
            }
        }
        let pairs = r.thorough();
        work.par_iter().for_each(|&(pi, si)| {
            let p = &ps[pi];
            let seed = p.seeds[si];
            let fields = digit_fields(seed);
            let mut t = Tally::default();
            let mut buf: Vec<u8> = vec![];
            let subst = |buf: &mut Vec<u8>, reps: &[(usize, &str, bool)]| {
                // reps: (field index, value, pad to the field's own width), ascending
                buf.clear();
                let mut at = 0;
                for &(fi, v, pad) in reps {
                    let (a, e) = fields[fi];
                    buf.extend_from_slice(&seed[at..a]);
                    if pad {
                        for _ in v.len()..(e - a) {
                            buf.push(b'0');
                        }
                    }
                    buf.extend_from_slice(v.as_bytes());
                    at = e;
                }
                buf.extend_from_slice(&seed[at..]);
            };
            for fi in 0..fields.len() {
                let w = fields[fi].1 - fields[fi].0;
                for v in FIELD_VALUES {
                    subst(&mut buf, &[(fi, v, false)]);
                    run_text(r, "fieldvals", pi, p, &buf, &mut t);
                    if v.len() < w {
                        subst(&mut buf, &[(fi, v, true)]);
                        run_text(r, "fieldvals", pi, p, &buf, &mut t);
                    }
                }
            }
            // two fields at once: adjacent fields (quick), all pairs (thorough)
            if p.level == text::Level::Full {
                for f1 in 0..fields.len() {
                    for f2 in f1 + 1..fields.len() {
                        if !pairs && f2 != f1 + 1 {
                            continue;
                        }
                        for v1 in FIELD_VALUES_PAIR {
                            for v2 in FIELD_VALUES_PAIR {
                                subst(&mut buf, &[(f1, v1, true), (f2, v2, true)]);
                                run_text(r, "fieldvals", pi, p, &buf, &mut t);
                            }
                        }
                    }
                }
            }
            flush_tally(r, "fieldvals", p, &t);
        });
    });
}

// ---------------------------------------------------------------------------
// (d) strptime
// ---------------------------------------------------------------------------

/// (format fragment, sample inputs that fragment would accept or nearly accept)
fn directives() -> Vec<(&'static [u8], Vec<&'static [u8]>)> {
    let d: Vec<(&'static [u8], Vec<&'static [u8]>)> = vec![
        (b"%%", vec![b"%"]),
        (b"%A", vec![b"Monday", b"Tuesday"]),
        (b"%a", vec![b"Mon", b"tue"]),
        (b"%B", vec![b"January", b"december"]),
        (b"%b", vec![b"Jan", b"Dec"]),
        (b"%h", vec![b"Feb"]),
        (b"%C", vec![b"20", b"99"]),
        (b"%D", vec![b"06/15/24", b"12/31/69"]),
        (b"%d", vec![b"01", b"31"]),
        (b"%e", vec![b" 5", b"15"]),
        (b"%F", vec![b"2024-06-15", b"-9999-01-01"]),
        (b"%f", vec![b"123456789", b"5"]),
        (b"%.f", vec![b".5", b""]),
        (b"%.3f", vec![b".123", b""]),
        (b"%.0f", vec![b"", b".1"]),
        (b"%3f", vec![b"123"]),
        (b"%G", vec![b"2024", b"-9999"]),
        (b"%g", vec![b"24", b"69"]),
        (b"%H", vec![b"00", b"23"]),
        (b"%k", vec![b" 7", b"23"]),
        (b"%I", vec![b"12", b"01"]),
        (b"%l", vec![b" 1", b"12"]),
        (b"%j", vec![b"001", b"366"]),
        (b"%M", vec![b"00", b"59"]),
        (b"%m", vec![b"01", b"12"]),
        (b"%n", vec![b" ", b"\n"]),
        (b"%t", vec![b"\t"]),
        (b"%P", vec![b"am", b"PM"]),
        (b"%p", vec![b"AM", b"pm"]),
        (b"%Q", vec![b"America/New_York", b"+0530"]),
        (b"%:Q", vec![b"America/New_York", b"-05:00"]),
        (b"%R", vec![b"07:00", b"23:59"]),
        (b"%S", vec![b"00", b"60"]),
        (b"%s", vec![b"1700000000", b"-377705023201"]),
        (b"%T", vec![b"07:00:00", b"23:59:60"]),
        (b"%U", vec![b"00", b"53"]),
        (b"%u", vec![b"1", b"7"]),
        (b"%V", vec![b"01", b"53"]),
        (b"%W", vec![b"00", b"53"]),
        (b"%w", vec![b"0", b"6"]),
        (b"%Y", vec![b"2024", b"-9999"]),
        (b"%y", vec![b"24", b"69"]),
        (b"%z", vec![b"+0530", b"-04"]),
        (b"%:z", vec![b"+05:30", b"-00:44:30"]),
        (b"%::z", vec![b"+05:30:00"]),
        (b"%Z", vec![b"EST"]),
        (b"%c", vec![b"x"]),
        // flags and widths
        (b"%-d", vec![b"5", b"31"]),
        (b"%_d", vec![b" 5"]),
        (b"%0d", vec![b"05"]),
        (b"%^a", vec![b"MON"]),
        (b"%#a", vec![b"mON"]),
        (b"%3d", vec![b"005"]),
        (b"%10Y", vec![b"0000002024", b"2024"]),
        (b"%255Y", vec![b"2024"]),
        (b"%256Y", vec![b"2024"]),
        (b"%03Y", vec![b"024", b"2024"]),
        (b"%-3Y", vec![b"24"]),
        (b"%_5H", vec![b"    7"]),
        (b"%^B", vec![b"JANUARY"]),
        (b"%-:z", vec![b"+5:30"]),
        (b"%9.9f", vec![b".123456789"]),
        // unknown / truncated directives
        (b"%!", vec![b"!"]),
        (b"%E", vec![b"E"]),
        (b"%O", vec![b"O"]),
        (b"%\xFF", vec![b"\xFF"]),
        (b"%1", vec![b"1"]),
        (b"%-", vec![b"-"]),
        (b"%:", vec![b":"]),
        (b"%.", vec![b"."]),
        (b"%", vec![b"%"]),
        // literals
        (b" ", vec![b" ", b""]),
        (b"x", vec![b"x", b"X"]),
        (b"-", vec![b"-"]),
        (b":", vec![b":"]),
        (b"T", vec![b"T", b"t"]),
        (b"\xFF", vec![b"\xFF"]),
        // multi-byte literals: well-formed and cut short
        (b"\xC3\xA9", vec![b"\xC3\xA9"]),
        (b"\xE6\x97\xA5", vec![b"\xE6\x97\xA5"]),
        (b"\xE6\x97", vec![b"\xE6\x97"]),
    ];
    d
}

fn chk_bdt(tm: &jiff::fmt::strtime::BrokenDownTime, fmt: &[u8]) -> Option<(String, String)> {
    use text::*;
    let rng = |name: &str, v: Option<i64>, lo: i64, hi: i64| -> Option<(String, String)> {
        match v {
            Some(x) if x < lo || x > hi => Some((format!("ok-value-out-of-range:BrokenDownTime.{}", name), format!("{}", x))),
            _ => None,
        }
    };
    let checks = [
        rng("year", tm.year().map(|x| x as i64), -9999, 9999),
        rng("month", tm.month().map(|x| x as i64), 1, 12),
        rng("day", tm.day().map(|x| x as i64), 1, 31),
        rng("day_of_year", tm.day_of_year().map(|x| x as i64), 1, 366),
        rng("iso_week_year", tm.iso_week_year().map(|x| x as i64), -9999, 9999),
        rng("iso_week", tm.iso_week().map(|x| x as i64), 1, 53),
        rng("sunday_based_week", tm.sunday_based_week().map(|x| x as i64), 0, 53),
        rng("monday_based_week", tm.monday_based_week().map(|x| x as i64), 0, 53),
        rng("hour", tm.hour().map(|x| x as i64), 0, 23),
        rng("minute", tm.minute().map(|x| x as i64), 0, 59),
        rng("second", tm.second().map(|x| x as i64), 0, 59),
        rng("subsec_nanosecond", tm.subsec_nanosecond().map(|x| x as i64), 0, 999_999_999),
        rng("offset", tm.offset().map(|x| x.seconds() as i64), -93_599, 93_599),
    ];
    if let Some(x) = checks.into_iter().flatten().next() {
        return Some(x);
    }
    let _ = tm.weekday();
    let _ = tm.meridiem();
    let _ = tm.iana_time_zone();
    if let Ok(z) = tm.to_zoned() {
        if let Some(x) = chk_zoned(&z) {
            return Some(x);
        }
    }
    if let Ok(ts) = tm.to_timestamp() {
        if let Some(x) = chk_timestamp(ts, b"") {
            return Some(x);
        }
    }
    if let Ok(dt) = tm.to_datetime() {
        if let Some(x) = chk_datetime(dt) {
            return Some(x);
        }
    }
    if let Ok(d) = tm.to_date() {
        if let Some(x) = chk_date(d) {
            return Some(x);
        }
    }
    if let Ok(t) = tm.to_time() {
        if let Some(x) = chk_time(t) {
            return Some(x);
        }
    }
    // printer: must not panic; what it prints must not make the parser panic
    if let Ok(text) = tm.to_string(fmt) {
        let _ = jiff::fmt::strtime::parse(fmt, &text);
    }
    None
}

const STRP: usize = 1000; // index of "strtime::parse" in NAMES
const STRF: usize = 1001; // index of "strtime::format" in NAMES

/// Input class of the `%C` defect: the format holds a `%C` directive with a
/// flag other than `-`/`_` and a width of 18 or more (so that a century of 18+
/// digits is read), and the input holds a run of at least 17 digits.
fn century_class(fmt: &[u8], input: &[u8]) -> &'static str {
    let mut wide_c = false;
    let mut i = 0;
    while i < fmt.len() {
        if fmt[i] == b'%' && i + 1 < fmt.len() {
            let mut j = i + 1;
            let flag = fmt[j];
            if matches!(flag, b'0' | b'^' | b'#') {
                j += 1;
                let st = j;
                while j < fmt.len() && fmt[j].is_ascii_digit() {
                    j += 1;
                }
                let w: u32 = std::str::from_utf8(&fmt[st..j]).ok().and_then(|x| x.parse().ok()).unwrap_or(0);
                if j < fmt.len() && fmt[j] == b'C' && w >= 18 {
                    wide_c = true;
                }
            }
            i = j.max(i + 2);
        } else {
            i += 1;
        }
    }
    let long_run = digit_fields(input).iter().any(|&(a, e)| e - a >= 17);
    if wide_c && long_run {
        ":[%C,width>=18,17+digits]"
    } else {
        ""
    }
}

/// The other strptime entry points, compared with `strtime::parse` (documented
/// equivalences): `BrokenDownTime::parse_prefix` consumes a prefix and reports
/// its length; `T::strptime(f, i)` is `parse(f, i)?.to_T()`.
fn strp_others(fmt: &[u8], input: &[u8], full: &Result<jiff::fmt::strtime::BrokenDownTime, jiff::Error>) -> Option<(String, String)> {
    use jiff::fmt::strtime::BrokenDownTime;
    let pre = BrokenDownTime::parse_prefix(fmt, input);
    match (&pre, full) {
        (Err(_), Ok(_)) => return Some(("BrokenDownTime::parse_prefix/rejects-what-parse-accepts".into(), format!("{:?}", pre.as_ref().err().map(|e| e.to_string())))),
        (Ok((tm, n)), _) => {
            if *n > input.len() {
                return Some(("BrokenDownTime::parse_prefix/consumed>len".into(), format!("consumed {} of {} bytes", n, input.len())));
            }
            match full {
                Ok(f) => {
                    if *n != input.len() || format!("{:?}", tm) != format!("{:?}", f) {
                        return Some(("BrokenDownTime::parse_prefix/differs-from-parse".into(), format!("consumed {} of {}; prefix {:?} vs parse {:?}", n, input.len(), tm, f)));
                    }
                }
                Err(_) => {
                    if *n == input.len() {
                        return Some(("BrokenDownTime::parse_prefix/accepts-whole-input-parse-rejects".into(), format!("{:?}", tm)));
                    }
                }
            }
        }
        (Err(_), Err(_)) => {}
    }
    let (f, i) = (fmt, input);
    macro_rules! same {
        ($ty:ty, $conv:ident, $name:expr) => {{
            let a = <$ty>::strptime(f, i);
            let b = full.as_ref().ok().and_then(|tm| tm.$conv().ok());
            match (&a, &b) {
                (Err(_), None) => {}
                (Ok(x), Some(y)) if x == y => {}
                _ => return Some((format!("{}::strptime/differs-from-parse+{}", $name, stringify!($conv)), format!("strptime {:?} vs {:?}", a.as_ref().map_err(|e| e.to_string()), b))),
            }
        }};
    }
    same!(jiff::Zoned, to_zoned, "Zoned");
    same!(jiff::Timestamp, to_timestamp, "Timestamp");
    same!(jiff::civil::DateTime, to_datetime, "civil::DateTime");
    same!(jiff::civil::Date, to_date, "civil::Date");
    same!(jiff::civil::Time, to_time, "civil::Time");
    None
}

fn run_strp(r: &Report, fmt: &[u8], input: &[u8], t: &mut Tally) {
    run_strp_x(r, fmt, input, t, false)
}

fn run_strp_x(r: &Report, fmt: &[u8], input: &[u8], t: &mut Tally, others: bool) {
    let mut packed = Vec::with_capacity(fmt.len() + input.len() + 1);
    packed.extend_from_slice(fmt);
    packed.push(b'|');
    packed.extend_from_slice(input);
    let slot = enter(STRP, &packed);
    let res = guard(|| {
        let full = jiff::fmt::strtime::parse(fmt, input);
        if others {
            if let Some((c, d)) = strp_others(fmt, input, &full) {
                return Res::Many(vec![(c, d)]);
            }
        }
        match full {
            Err(_) => Res::Err,
            Ok(tm) => match chk_bdt(&tm, fmt) {
                None => Res::Ok,
                Some((c, d)) => Res::Bad(c, d),
            },
        }
    });
    slot.busy.store(false, Relaxed);
    let case = || format!("strtime::parse format=\"{}\" input=\"{}\"", escape(fmt), escape(input));
    match res {
        Ok(Res::Err) => t.err += 1,
        Ok(Res::Ok) => t.ok += 1,
        Ok(Res::Bad(c, d)) => {
            t.bad += 1;
            r.viol("strptime", &format!("strtime::parse/{}", c), case(), d);
        }
        Ok(Res::Many(v)) => {
            t.bad += 1;
            for (c, d) in v {
                r.viol("strptime", &c, case(), d);
            }
        }
        Err(p) => {
            t.panics += 1;
            let cls = if input.is_empty() { "[empty-input]" } else { century_class(fmt, input) };
            r.viol("strptime", &format!("strtime::parse/{}{}", panic_sig(&p), cls), case(), p);
        }
    }
}

fn all_strings(alpha: &[u8], maxlen: usize) -> Vec<Vec<u8>> {
    let mut out: Vec<Vec<u8>> = vec![vec![]];
    let mut prev: Vec<Vec<u8>> = vec![vec![]];
    for _ in 0..maxlen {
        let mut next = vec![];
        for p in &prev {
            for &a in alpha {
                let mut q = p.clone();
                q.push(a);
                next.push(q);
            }
        }
        out.extend(next.iter().cloned());
        prev = next;
    }
    out
}

fn sec_strptime(r: &Report) {
    r.section("strptime", || {
        set_section("strptime");
        let ds = directives();
        let n = ds.len();
        let quick = r.quick();
        const A_IN: &[u8] = b"019+-:./ AMJapu\xFF";
        const A_FMT: &[u8] = b"%-_0^#19:.YdfzQ\xFF";
        let garbage: [&[u8]; 6] = [b"", b"0", b"\xFF", b"-", b"+", b" "];
        let flush = |t: &Tally| {
            let k = t.ok + t.err + t.bad + t.panics;
            r.add_states(k);
            r.add_transitions(k);
            r.add_validated(t.ok + t.bad);
            r.count("strptime:cases", k);
            r.count("strptime:ok", t.ok + t.bad);
            r.count("strptime:err", t.err);
        };
        // (d1) all sequences of <= 3 directives x generated inputs
        let mut seqs: Vec<Vec<usize>> = vec![];
        for a in 0..n {
            seqs.push(vec![a]);
            for b in 0..n {
                seqs.push(vec![a, b]);
            }
        }
        // the triples are enumerated inside the parallel loop (first two fixed)
        let pairs: Vec<(usize, usize)> = (0..n).flat_map(|a| (0..n).map(move |b| (a, b))).collect();
        let gen_inputs = |seq: &[usize], out: &mut Vec<Vec<u8>>| {
            out.clear();
            // product of the samples
            let mut acc: Vec<Vec<u8>> = vec![vec![]];
            for &d in seq {
                let mut next = vec![];
                for a in &acc {
                    for s in &ds[d].1 {
                        let mut q = a.clone();
                        q.extend_from_slice(s);
                        next.push(q);
                    }
                }
                acc = next;
            }
            for a in acc {
                if !a.is_empty() {
                    out.push(a[..a.len() - 1].to_vec());
                }
                let mut more = a.clone();
                more.push(b'9');
                out.push(more);
                out.push(a);
            }
            for g in garbage {
                out.push(g.to_vec());
            }
        };
        let run_seq = |seq: &[usize], t: &mut Tally, inputs: &mut Vec<Vec<u8>>| {
            let mut fmt = vec![];
            for &d in seq {
                fmt.extend_from_slice(ds[d].0);
            }
            gen_inputs(seq, inputs);
            // the other entry points (parse_prefix, T::strptime) ride along on
            // the one- and two-directive formats
            let others = seq.len() <= 2;
            for i in inputs.iter() {
                run_strp_x(r, &fmt, i, t, others);
            }
            if others {
                r.count("strptime:cases_with_parse_prefix_and_wrappers", inputs.len() as u64);
            }
            r.count("strptime:formats", 1);
        };
        seqs.par_iter().for_each(|seq| {
            let mut t = Tally::default();
            let mut inputs = vec![];
            run_seq(seq, &mut t, &mut inputs);
            flush(&t);
        });
        pairs.par_iter().for_each(|&(a, b)| {
            let mut t = Tally::default();
            let mut inputs = vec![];
            for c in 0..n {
                run_seq(&[a, b, c], &mut t, &mut inputs);
            }
            flush(&t);
        });
        // (d1') one and two directives x all short inputs
        let (l1, l2) = if quick { (3, 2) } else { (4, 3) };
        let in1 = all_strings(A_IN, l1);
        let in2 = all_strings(A_IN, l2);
        (0..n).into_par_iter().for_each(|a| {
            let mut t = Tally::default();
            for i in &in1 {
                run_strp_x(r, ds[a].0, i, &mut t, true);
            }
            r.count("strptime:cases_with_parse_prefix_and_wrappers", in1.len() as u64);
            flush(&t);
        });
        pairs.par_iter().for_each(|&(a, b)| {
            let mut t = Tally::default();
            let mut fmt = ds[a].0.to_vec();
            fmt.extend_from_slice(ds[b].0);
            for i in &in2 {
                run_strp(r, &fmt, i, &mut t);
            }
            flush(&t);
        });
        // (d3) every directive x every flag x widths on both sides of every
        // limit (digit-count limits 2/3/4/9/19, the u8 width limit 255) x
        // digit strings on both sides of every integer limit, substituted into
        // the directive's own input template
        {
            let flags: [&str; 6] = ["", "-", "_", "0", "^", "#"];
            let widths: [&str; 16] = ["", "0", "1", "2", "3", "4", "9", "10", "18", "19", "20", "21", "99", "255", "256", "999"];
            let digs: Vec<String> = {
                let mut v: Vec<String> = ["0", "1", "9", "00", "07", "12", "31", "60", "99", "100", "366", "999", "2024", "9999", "10000", "99999", "999999999", "9999999999", "99999999999999999", "999999999999999999", "9223372036854775807", "9223372036854775808", "99999999999999999999"]
                    .iter()
                    .map(|x| x.to_string())
                    .collect();
                for n in [19usize, 20, 254, 255, 256] {
                    v.push(format!("{}1", "0".repeat(n)));
                }
                v
            };
            // (directive, input templates; '#' is replaced by the digit string)
            let specs: Vec<(&str, Vec<&str>)> = vec![
                ("C", vec!["#", "-#", "+#"]),
                ("d", vec!["#", " #"]),
                ("e", vec!["#", " #"]),
                ("f", vec!["#"]),
                (".f", vec![".#", "#"]),
                ("G", vec!["#", "-#", "+#"]),
                ("g", vec!["#"]),
                ("H", vec!["#"]),
                ("k", vec!["#", " #"]),
                ("I", vec!["#"]),
                ("l", vec!["#", " #"]),
                ("j", vec!["#"]),
                ("M", vec!["#"]),
                ("m", vec!["#"]),
                ("S", vec!["#"]),
                ("s", vec!["#", "-#", "+#"]),
                ("U", vec!["#"]),
                ("u", vec!["#"]),
                ("V", vec!["#"]),
                ("W", vec!["#"]),
                ("w", vec!["#"]),
                ("Y", vec!["#", "-#", "+#"]),
                ("y", vec!["#"]),
                ("D", vec!["#/15/24", "06/#/24", "06/15/#"]),
                ("F", vec!["#-06-15", "-#-06-15", "2024-#-15", "2024-06-#"]),
                ("R", vec!["#:00", "07:#"]),
                ("T", vec!["#:00:00", "07:#:00", "07:00:#"]),
                ("z", vec!["+#", "-#", "+05#", "+0530#"]),
                (":z", vec!["+#:00", "+05:#", "+05:30:#", "-#"]),
                ("Q", vec!["+#", "-#", "A#", "A/#"]),
                (":Q", vec!["+#:00", "-05:#", "A#"]),
                ("A", vec!["Monday#"]),
                ("b", vec!["Jan#"]),
                ("p", vec!["AM#"]),
                ("n", vec![" #"]),
                ("%", vec!["%#"]),
                ("Z", vec!["#"]),
            ];
            let mut fmts: Vec<(usize, Vec<u8>)> = vec![];
            for (si, (d, _)) in specs.iter().enumerate() {
                for f in flags {
                    for w in widths {
                        fmts.push((si, format!("%{}{}{}", f, w, d).into_bytes()));
                        if *d == ".f" {
                            // the precision position of %.Nf
                            fmts.push((si, format!("%{}.{}f", f, w).into_bytes()));
                            fmts.push((si, format!("%{}{}.{}f", f, w, w).into_bytes()));
                        }
                    }
                }
            }
            r.count("strptime:flag_width_formats", fmts.len() as u64);
            fmts.par_iter().for_each(|(si, fmt)| {
                let mut t = Tally::default();
                let mut input: Vec<u8> = vec![];
                for tpl in &specs[*si].1 {
                    for d in &digs {
                        input.clear();
                        for b in tpl.bytes() {
                            if b == b'#' {
                                input.extend_from_slice(d.as_bytes());
                            } else {
                                input.push(b);
                            }
                        }
                        run_strp_x(r, fmt, &input, &mut t, true);
                    }
                }
                r.count("strptime:flag_width_cases", t.ok + t.err + t.bad + t.panics);
                r.count("strptime:flag_width_ok", t.ok + t.bad);
                flush(&t);
            });
            r.require(r.get_count("strptime:flag_width_ok") > 0, "flag/width formats accept some inputs");
        }
        // (d4) very long formats and inputs: a repeated unit on either side
        // (the in-process watchdog bounds the time of each call)
        {
            let ns: &[usize] = if quick { &[255, 256, 65_536] } else { &[255, 256, 65_536, 1_000_000] };
            // (format prefix, format unit, format suffix, input prefix, input unit, input suffix)
            let shapes: [(&[u8], &[u8], &[u8], &[u8], &[u8], &[u8]); 14] = [
                (b"%", b"9", b"d", b"", b"1", b""),
                (b"%", b"0", b"1d", b"", b"0", b"1"),
                (b"%0", b"0", b"255Y", b"", b"0", b"1"),
                (b"", b"%%", b"", b"", b"%", b""),
                (b"", b"%d", b"", b"", b"01", b""),
                (b"", b" ", b"", b"", b" ", b""),
                (b"", b"%n", b"x", b"", b" ", b"x"),
                (b"", b"%t", b"", b"", b"", b""),
                (b"%Q", b"", b"", b"A", b"/A", b""),
                (b"%Q", b"", b"", b"A", b"a", b""),
                (b"%255Y", b"", b"", b"", b"0", b"1"),
                (b"%s", b"", b"", b"-", b"0", b"1"),
                (b"", b"%.f", b"", b"", b".1", b""),
                (b"", b"\xFF", b"", b"", b"\xFF", b""),
            ];
            let work: Vec<(usize, usize)> = (0..shapes.len()).flat_map(|s| ns.iter().map(move |&n| (s, n))).collect();
            work.par_iter().for_each(|&(si, n)| {
                let sh = shapes[si];
                let build = |p: &[u8], u: &[u8], x: &[u8]| -> Vec<u8> {
                    let mut v = p.to_vec();
                    if !u.is_empty() {
                        while v.len() + u.len() + x.len() <= n.max(p.len() + u.len() + x.len()) {
                            v.extend_from_slice(u);
                        }
                    }
                    v.extend_from_slice(x);
                    v
                };
                let fmt = build(sh.0, sh.1, sh.2);
                let inp = build(sh.3, sh.4, sh.5);
                let mut t = Tally::default();
                run_strp_x(r, &fmt, &inp, &mut t, true);
                run_strp_x(r, &fmt, b"", &mut t, true);
                run_strp_x(r, b"%Y", &inp, &mut t, true);
                r.count("strptime:long_cases", 3);
                flush(&t);
            });
        }
        // (d2) all short raw format strings x a few inputs
        let fmts = all_strings(A_FMT, if quick { 4 } else { 5 });
        let ins: [&[u8]; 7] = [b"", b"2024", b"5", b"+05:30", b"Jan", b"\xFF", b".5"];
        fmts.par_chunks(256).for_each(|chunk| {
            let mut t = Tally::default();
            for f in chunk {
                for i in ins {
                    run_strp(r, f, i, &mut t);
                }
            }
            flush(&t);
        });
        r.count("strptime:raw_formats", fmts.len() as u64);
    });
}

// ---------------------------------------------------------------------------
// (d') strftime: arbitrary format strings on boundary values never panic, the
// output stays proportional to the format, and the documented equivalent
// entry points agree
// ---------------------------------------------------------------------------

struct FmtValue {
    name: String,
    tm: jiff::fmt::strtime::BrokenDownTime,
    /// `strtime::format(fmt, value)` for the typed values
    free: Option<Box<dyn Fn(&[u8]) -> Result<String, ()> + Sync + Send>>,
    /// the typed value's own `strftime`, when the value is one of the five types
    disp: Option<Box<dyn Fn(&[u8]) -> Result<String, ()> + Sync + Send>>,
}

fn fmt_values() -> Vec<FmtValue> {
    use jiff::fmt::strtime::BrokenDownTime;
    use jiff::tz::{Offset, TimeZone};
    use jiff::{Timestamp, Zoned};
    use std::fmt::Write as _;
    let ts = |ns: i128| Timestamp::from_nanosecond(ns).unwrap();
    let fixed = |s: i32| TimeZone::fixed(Offset::from_seconds(s).unwrap());
    let min = Timestamp::MIN.as_nanosecond();
    let max = Timestamp::MAX.as_nanosecond();
    let zs: Vec<Zoned> = vec![
        ts(min).to_zoned(TimeZone::UTC),
        ts(max).to_zoned(TimeZone::UTC),
        ts(min).to_zoned(fixed(-93_599)),
        ts(max).to_zoned(fixed(93_599)),
        ts(min + 1).to_zoned(TimeZone::UTC),
        ts(-1).to_zoned(TimeZone::get("America/New_York").unwrap()),
        ts(0).to_zoned(TimeZone::posix("<+0545>-5:45").unwrap()),
        ts(0).to_zoned(fixed(-1)),
        ts(1_718_434_800_123_456_789).to_zoned(TimeZone::get("America/New_York").unwrap()),
        "0000-01-01T00:00:00[UTC]".parse().unwrap(),
        "-000001-12-31T23:59:59.999999999[UTC]".parse().unwrap(),
        "1968-12-30T12:00:00[UTC]".parse().unwrap(),
        "2069-01-01T00:00:00.5[Australia/Lord_Howe]".parse().unwrap(),
        "1919-03-01T00:00:00-00:44:30[Africa/Monrovia]".parse().unwrap(),
    ];
    type Disp = Option<Box<dyn Fn(&[u8]) -> Result<String, ()> + Sync + Send>>;
    macro_rules! disp {
        ($v:expr) => {{
            let v = $v;
            let d: Disp = Some(Box::new(move |fmt: &[u8]| {
                let mut s = String::new();
                write!(s, "{}", v.strftime(fmt)).map(|_| s).map_err(|_| ())
            }));
            d
        }};
    }
    macro_rules! free {
        ($v:expr) => {{
            let v = $v;
            let d: Disp = Some(Box::new(move |fmt: &[u8]| jiff::fmt::strtime::format(fmt, v.clone()).map_err(|_| ())));
            d
        }};
    }
    let mut out = vec![];
    for z in &zs {
        let zc = z.clone();
        let zfree: Disp = Some(Box::new(move |fmt: &[u8]| jiff::fmt::strtime::format(fmt, &zc).map_err(|_| ())));
        out.push(FmtValue { name: format!("Zoned {}", z), tm: BrokenDownTime::from(z), free: zfree, disp: disp!(z.clone()) });
        let t = z.timestamp();
        out.push(FmtValue { name: format!("Timestamp {}", t), tm: BrokenDownTime::from(t), free: free!(t), disp: disp!(t) });
        let dt = z.datetime();
        out.push(FmtValue { name: format!("civil::DateTime {}", dt), tm: BrokenDownTime::from(dt), free: free!(dt), disp: disp!(dt) });
        out.push(FmtValue { name: format!("civil::Date {}", dt.date()), tm: BrokenDownTime::from(dt.date()), free: free!(dt.date()), disp: disp!(dt.date()) });
        out.push(FmtValue { name: format!("civil::Time {}", dt.time()), tm: BrokenDownTime::from(dt.time()), free: free!(dt.time()), disp: disp!(dt.time()) });
        out.push(FmtValue { name: format!("civil::ISOWeekDate {:?}", dt.date().iso_week_date()), tm: BrokenDownTime::from(dt.date().iso_week_date()), free: free!(dt.date().iso_week_date()), disp: None });
    }
    // partially filled values, as strptime leaves them
    for (f, i) in [("%H", "23"), ("%Y %j", "2024 366"), ("%Y %U %a", "2024 00 Mon"), ("%G %V %u", "-9999 01 1"), ("%s", "-377705023201"), ("%z", "-255959"), ("%:z", "+25:59:59"), ("%Q", "America/New_York"), ("%I %p", "12 AM"), ("%C", "-99"), ("%y", "69"), ("%.f", ".000000001")] {
        if let Ok(tm) = jiff::fmt::strtime::parse(f, i) {
            out.push(FmtValue { name: format!("strtime::parse({:?}, {:?})", f, i), tm, free: None, disp: None });
        }
    }
    out.push(FmtValue { name: "BrokenDownTime::default()".into(), tm: BrokenDownTime::default(), free: None, disp: None });
    out
}

fn sec_strftime(r: &Report) {
    r.section("strftime", || {
        set_section("strftime");
        let vals = fmt_values();
        r.count("strftime:values", vals.len() as u64);
        // formats: every directive x flag x width; every directive of the
        // strptime table alone and in pairs; all short raw strings
        let mut fmts: Vec<Vec<u8>> = vec![];
        let flags: [&str; 6] = ["", "-", "_", "0", "^", "#"];
        let widths: [&str; 16] = ["", "0", "1", "2", "3", "4", "9", "10", "18", "19", "20", "21", "99", "255", "256", "999"];
        for d in "%AaBbCcDdeFfGgHhIjklMmnPpQRSsTtUuVWwYyZz".chars() {
            for f in flags {
                for w in widths {
                    fmts.push(format!("%{}{}{}", f, w, d).into_bytes());
                }
            }
        }
        for f in flags {
            for w in widths {
                for d in [":z", ":Q", "::z", ".f"] {
                    fmts.push(format!("%{}{}{}", f, w, d).into_bytes());
                }
                fmts.push(format!("%{}.{}f", f, w).into_bytes());
                fmts.push(format!("%{}{}.{}f", f, w, w).into_bytes());
            }
        }
        let ds = directives();
        for a in &ds {
            fmts.push(a.0.to_vec());
            for b in &ds {
                let mut x = a.0.to_vec();
                x.extend_from_slice(b.0);
                fmts.push(x);
            }
        }
        const A_FMT: &[u8] = b"%-_0^#19:.YdfzQ\xFF";
        fmts.extend(all_strings(A_FMT, if r.quick() { 3 } else { 4 }));
        fmts.sort();
        fmts.dedup();
        r.count("strftime:formats", fmts.len() as u64);
        let (nok, nerr) = (AtomicU64::new(0), AtomicU64::new(0));
        fmts.par_chunks(64).for_each(|chunk| {
            let (mut ok, mut err) = (0u64, 0u64);
            for fmt in chunk {
                for v in &vals {
                    let mut packed = fmt.clone();
                    packed.push(b'|');
                    packed.extend_from_slice(v.name.as_bytes());
                    let slot = enter(STRF, &packed);
                    let res = guard(|| {
                        let a = v.tm.to_string(fmt).map_err(|_| ());
                        let mut sink = String::new();
                        let b = v.tm.format(fmt, &mut sink).map(|_| sink).map_err(|_| ());
                        let c = v.free.as_ref().map(|f| f(fmt));
                        let d = v.disp.as_ref().map(|f| f(fmt));
                        (a, b, c, d)
                    });
                    slot.busy.store(false, Relaxed);
                    let case = || format!("strtime::format format=\"{}\" value={}", escape(fmt), v.name);
                    match res {
                        Err(p) => r.viol("strftime", &format!("strtime::format/{}", panic_sig(&p)), case(), p),
                        Ok((a, b, c, d)) => {
                            if a != b || c.as_ref().map(|c| *c != a).unwrap_or(false) || d.as_ref().map(|d| *d != a).unwrap_or(false) {
                                r.viol("strftime", "strtime::format/entry-points-differ", case(), format!("to_string {:?}; format(W) {:?}; strtime::format {:?}; T::strftime Display {:?}", a, b, c, d));
                            }
                            match a {
                                Ok(text) => {
                                    ok += 1;
                                    // linear bound: a directive is at least 2 bytes of format and writes at
                                    // most three numbers of at most 255 bytes each plus separators
                                    // (%255T), i.e. fewer than 256 bytes of output per byte of format
                                    if text.len() > 256 * fmt.len() + 64 {
                                        r.viol("strftime", "strtime::format/work-not-proportional(output)", case(), format!("{} bytes of output for {} bytes of format", text.len(), fmt.len()));
                                    }
                                    // what it prints must not make the parser panic
                                    if let Err(p) = guard(|| jiff::fmt::strtime::parse(fmt, &text).is_ok()) {
                                        r.viol("strftime", &format!("strtime::parse(printed)/{}", panic_sig(&p)), case(), p);
                                    }
                                }
                                Err(()) => err += 1,
                            }
                        }
                    }
                }
            }
            nok.fetch_add(ok, Relaxed);
            nerr.fetch_add(err, Relaxed);
        });
        let (ok, err) = (nok.load(Relaxed), nerr.load(Relaxed));
        r.add_states(ok + err);
        r.add_transitions(ok + err);
        r.add_validated(ok);
        r.count("strftime:cases", ok + err);
        r.count("strftime:ok", ok);
        r.count("strftime:err", err);
        r.require(ok > 0 && err > 0, "strftime saw both Ok and Err outcomes");
    });
}

// ---------------------------------------------------------------------------
// worker children: tzif, concat, blowup
// ---------------------------------------------------------------------------

struct TzifSpace {
    seeds: Vec<tzmut::Seed>,
    footers: Vec<Vec<u8>>,
    muts: Vec<(usize, tzmut::Mut)>,
    built: Vec<(String, Vec<u8>)>,
}

fn tzif_space(quick: bool) -> TzifSpace {
    let seeds = tzmut::seeds();
    let footers = tzmut::hostile_footers();
    let mut order: Vec<usize> = (0..seeds.len()).collect();
    order.sort_by_key(|&i| (seeds[i].bytes.len(), i));
    let small: Vec<usize> = order.iter().copied().take(3).collect();
    let mut muts = vec![];
    for (si, s) in seeds.iter().enumerate() {
        let full = !quick || s.bytes.len() <= 1024;
        let pairs = !quick || small.contains(&si);
        for m in tzmut::mutations(&s.bytes, full, pairs, footers.len()) {
            muts.push((si, m));
        }
    }
    let posix = vf::zones::posix_alphabet(if quick { 0 } else { 1 });
    let posix: Vec<String> = if quick { posix.into_iter().step_by(7).collect() } else { posix };
    let built = tzmut::built_cases(&posix);
    TzifSpace { seeds, footers, muts, built }
}

impl TzifSpace {
    fn len(&self) -> usize {
        self.muts.len() + self.built.len()
    }
    fn describe(&self, i: usize) -> String {
        if i < self.muts.len() {
            let (si, m) = &self.muts[i];
            tzmut::describe(&self.seeds[*si], m)
        } else {
            self.built[i - self.muts.len()].0.clone()
        }
    }
    fn bytes(&self, i: usize) -> Vec<u8> {
        if i < self.muts.len() {
            let (si, m) = &self.muts[i];
            tzmut::apply(&self.seeds[*si].bytes, m, &self.footers)
        } else {
            self.built[i - self.muts.len()].1.clone()
        }
    }
}

#[derive(Clone)]
enum Blow {
    Digits { pi: usize, si: usize, field: usize, n: usize, fill: u8 },
    Unit { pi: usize, ui: usize, total: usize },
    /// the repeat unit exactly `count` times, and (when `close` is non-empty)
    /// followed by `count` copies of `close`: repetition and nesting counts on
    /// both sides of every counter width a parser might use
    Count { pi: usize, ui: usize, count: usize, close: &'static [u8] },
}

fn digit_fields(s: &[u8]) -> Vec<(usize, usize)> {
    let mut v = vec![];
    let mut i = 0;
    while i < s.len() {
        if s[i].is_ascii_digit() {
            let st = i;
            while i < s.len() && s[i].is_ascii_digit() {
                i += 1;
            }
            v.push((st, i));
        } else {
            i += 1;
        }
    }
    v
}

fn blow_space(ps: &[Parser], quick: bool) -> Vec<Blow> {
    let mut v = vec![];
    // 9/10: i32 and u32 overflow; 18/19/20: i64 and u64; 38/39/40: i128
    let runs: &[usize] = &[9, 10, 11, 18, 19, 20, 21, 38, 39, 40, 1000, 1_000_000];
    for (pi, p) in ps.iter().enumerate() {
        let light = p.level != text::Level::Full;
        for (si, s) in p.seeds.iter().enumerate() {
            let nf = digit_fields(s).len();
            for field in 0..nf {
                for &n in runs {
                    // quick: the 10^6 runs only on the first 6 seeds of each
                    // parser; rows of level Light never take them
                    if n == 1_000_000 && (light || (quick && si >= 6)) {
                        continue;
                    }
                    for fill in [b'9', b'0'] {
                        v.push(Blow::Digits { pi, si, field, n, fill });
                    }
                }
            }
        }
        for ui in 0..p.units.len() {
            for total in [65_536usize, 1_000_000] {
                if light && total > 65_536 {
                    continue;
                }
                v.push(Blow::Unit { pi, ui, total });
            }
            for count in COUNTS {
                if light && *count > 600 {
                    continue;
                }
                v.push(Blow::Count { pi, ui, count: *count, close: b"" });
                if let Some(close) = closer(p.units[ui].1) {
                    v.push(Blow::Count { pi, ui, count: *count, close });
                }
            }
        }
    }
    v
}

/// every count up to 40 (fixed-capacity buffers: 9- and 19-digit accumulators,
/// the 30-byte abbreviation), then counts straddling 2^6, 2^7, 2^8, 2^9, 2^15, 2^16
const COUNTS: &[usize] = &[
    1, 2, 3, 4, 5, 6, 7, 8, 9, 10, 11, 12, 13, 14, 15, 16, 17, 18, 19, 20, 21, 22, 23, 24, 25, 26, 27, 28, 29, 30, 31, 32, 33, 34, 35, 36, 37, 38, 39, 40, 63, 64, 65, 126, 127, 128, 129, 254, 255, 256, 257, 258, 511, 512, 513, 32_767, 32_768, 32_769, 65_534, 65_535, 65_536, 65_537,
];

/// the closing delimiter for a repeat unit that is an opening delimiter
fn closer(unit: &[u8]) -> Option<&'static [u8]> {
    match unit {
        b"(" => Some(b")"),
        b"[" => Some(b"]"),
        b"<" => Some(b">"),
        _ => None,
    }
}

fn blow_describe(ps: &[Parser], b: &Blow) -> String {
    match b {
        Blow::Digits { pi, si, field, n, fill } => format!("{} blowup seed=\"{}\" digit-field#{}:={}x{}", ps[*pi].name, escape(ps[*pi].seeds[*si]), field, *fill as char, n),
        Blow::Unit { pi, ui, total } => {
            let u = ps[*pi].units[*ui];
            format!("{} blowup \"{}\"+(\"{}\" repeated to {} bytes)+\"{}\"", ps[*pi].name, escape(u.0), escape(u.1), total, escape(u.2))
        }
        Blow::Count { pi, ui, count, close } => {
            let u = ps[*pi].units[*ui];
            format!("{} blowup \"{}\"+(\"{}\" x{})+(\"{}\" x{})+\"{}\"", ps[*pi].name, escape(u.0), escape(u.1), count, escape(close), count, escape(u.2))
        }
    }
}

fn blow_bytes(ps: &[Parser], b: &Blow) -> Vec<u8> {
    match b {
        Blow::Digits { pi, si, field, n, fill } => {
            let s = ps[*pi].seeds[*si];
            let (a, e) = digit_fields(s)[*field];
            let mut out = s[..a].to_vec();
            out.resize(a + n, *fill);
            if *fill == b'0' {
                // keep the field's own last digit so the value stays small
                *out.last_mut().unwrap() = s[e - 1];
            }
            out.extend_from_slice(&s[e..]);
            out
        }
        Blow::Unit { pi, ui, total } => {
            let u = ps[*pi].units[*ui];
            let mut out = u.0.to_vec();
            while out.len() + u.1.len() + u.2.len() <= *total {
                out.extend_from_slice(u.1);
            }
            out.extend_from_slice(u.2);
            out
        }
        Blow::Count { pi, ui, count, close } => {
            let u = ps[*pi].units[*ui];
            let mut out = u.0.to_vec();
            for _ in 0..*count {
                out.extend_from_slice(u.1);
            }
            for _ in 0..*count {
                out.extend_from_slice(close);
            }
            out.extend_from_slice(u.2);
            out
        }
    }
}

/// Work limits ("work proportional to input"): wall time and allocation.

/// CPU time of the calling thread: the "work proportional to the input"
/// bounds are judged on it, not on wall-clock time, so that a loaded machine
/// (or a descheduled worker) cannot turn into a verdict.
#[derive(Clone, Copy)]
struct CpuClock(Duration);
impl CpuClock {
    fn now() -> CpuClock {
        let mut ts = libc::timespec { tv_sec: 0, tv_nsec: 0 };
        // SAFETY: plain syscall wrapper writing into a local struct
        let rc = unsafe { libc::clock_gettime(libc::CLOCK_THREAD_CPUTIME_ID, &mut ts) };
        assert_eq!(rc, 0, "clock_gettime(CLOCK_THREAD_CPUTIME_ID)");
        CpuClock(Duration::new(ts.tv_sec as u64, ts.tv_nsec as u32))
    }
    fn elapsed(&self) -> Duration {
        CpuClock::now().0.saturating_sub(self.0)
    }
}

fn time_limit(len: usize) -> f64 {
    if len <= 65_536 {
        5.0
    } else {
        60.0
    }
}
fn alloc_limit(len: usize, calls: u64) -> u64 {
    (64 * len as u64 + (1 << 20)) * calls
}

struct ChildOut {
    out: std::io::Stdout,
}
impl ChildOut {
    fn line(&mut self, tag: &str, v: serde_json::Value) {
        let mut l = self.out.lock();
        let _ = writeln!(l, "{} {}", tag, v);
        let _ = l.flush();
    }
    fn viol(&mut self, sig: &str, case: &str, detail: &str) {
        self.line("V", json!({"sig": sig, "case": case, "detail": detail}));
    }
}

fn child_main(args: &[String]) -> ! {
    vf::guard::install_hook();
    let get = |k: &str| -> String { args.iter().position(|a| a == k).map(|i| args[i + 1].clone()).unwrap_or_default() };
    let kind = get("--c17-worker");
    let quick = get("--tier") != "thorough";
    let shard: usize = get("--shard").parse().unwrap();
    let nshards: usize = get("--nshards").parse().unwrap();
    let resume: i64 = get("--resume-after").parse().unwrap_or(-1);
    unsafe {
        // an absurd allocation request must fail (and abort) instead of
        // succeeding lazily and thrashing the machine
        let lim = libc::rlimit { rlim_cur: 6 << 30, rlim_max: 6 << 30 };
        libc::setrlimit(libc::RLIMIT_AS, &lim);
    }
    // initialise the global tz database outside any measured call
    let _ = jiff::tz::db().get("UTC");
    let _ = jiff::tz::db().get("America/New_York");
    let mut o = ChildOut { out: std::io::stdout() };
    let counters: std::cell::RefCell<BTreeMap<String, u64>> = Default::default();
    let maxima: std::cell::RefCell<BTreeMap<String, f64>> = Default::default();
    let bump = |k: &str, n: u64| *counters.borrow_mut().entry(k.to_string()).or_insert(0) += n;
    let peak = |k: &str, v: f64| {
        let mut m = maxima.borrow_mut();
        let e = m.entry(k.to_string()).or_insert(0.0);
        if v > *e {
            *e = v;
        }
    };
    let mine = |i: usize| i % nshards == shard && (i as i64) > resume;
    let mut since_flush = 0u32;
    // engine self-test hooks (never set by the driver): make the worker die or
    // hang at one case to exercise the attribution path
    let at = |var: &str| -> Option<usize> { std::env::var(var).ok()?.strip_prefix(&format!("{}:", kind))?.parse().ok() };
    let (abort_at, hang_at) = (at("C17_SELFTEST_ABORT_AT"), at("C17_SELFTEST_HANG_AT"));
    let selftest = |i: usize| {
        if abort_at == Some(i) {
            std::process::abort();
        }
        if hang_at == Some(i) {
            loop {
                std::thread::sleep(Duration::from_secs(3600));
            }
        }
    };
    match kind.as_str() {
        "tzif" => {
            let sp = tzif_space(quick);
            for i in 0..sp.len() {
                if !mine(i) {
                    continue;
                }
                since_flush += 1;
                if since_flush >= 500 {
                    // counters travel as deltas so that little is lost if the
                    // process dies later
                    o.line("C", json!({"counters": *counters.borrow(), "maxima": *maxima.borrow()}));
                    counters.borrow_mut().clear();
                    since_flush = 0;
                }
                o.line("S", json!(i));
                selftest(i);
                let bytes = sp.bytes(i);
                let a0 = allocated();
                let t0 = CpuClock::now();
                let res = guard(|| jiff::tz::TimeZone::tzif("Test/Zone", &bytes));
                let dt = t0.elapsed().as_secs_f64();
                let da = allocated() - a0;
                bump("tzif:cases", 1);
                peak("tzif:max_parse_seconds", dt);
                if bytes.len() >= 65_536 {
                    peak("tzif:max_alloc_bytes_per_input_byte(inputs>=64KiB)", da as f64 / bytes.len() as f64);
                } else {
                    peak("tzif:max_alloc_bytes(inputs<64KiB)", da as f64);
                }
                if dt > time_limit(bytes.len()) {
                    o.viol("TimeZone::tzif/work-not-proportional(time)", &sp.describe(i), &format!("{} bytes took {:.2}s", bytes.len(), dt));
                }
                if da > alloc_limit(bytes.len(), 1) {
                    o.viol("TimeZone::tzif/work-not-proportional(allocation)", &sp.describe(i), &format!("{} bytes of input, {} bytes allocated", bytes.len(), da));
                }
                match res {
                    Err(p) => {
                        let footer = tzmut::footer_offset(&bytes).map(|f| &bytes[(f + 1).min(bytes.len())..]).unwrap_or(&[]);
                        let footer = footer.strip_suffix(b"\n").unwrap_or(footer);
                        o.viol(&format!("TimeZone::tzif/{}{}", panic_sig(&p), text::posix_abbrev_class(footer)), &sp.describe(i), &p)
                    }
                    Ok(Err(_)) => bump("tzif:rejected", 1),
                    Ok(Ok(tz)) => {
                        bump("tzif:accepted", 1);
                        let raw = tzmut::raw_times(&bytes);
                        let t1 = CpuClock::now();
                        match guard(|| battery::battery(&tz, &raw, true)) {
                            Err(p) => o.viol(&format!("TimeZone::tzif->lookup/{}", panic_sig(&p)), &sp.describe(i), &p),
                            Ok(v) => {
                                for (cls, d) in v {
                                    o.viol(&format!("TimeZone::tzif->{}", cls), &sp.describe(i), &d);
                                }
                            }
                        }
                        let bt = t1.elapsed().as_secs_f64();
                        peak("tzif:max_battery_seconds", bt);
                        if bt > 60.0 {
                            o.viol("TimeZone::tzif->lookup/work-not-proportional(time)", &sp.describe(i), &format!("lookup battery took {:.2}s", bt));
                        }
                    }
                }
            }
        }
        "concat" => {
            let base = tzmut::concat_base();
            let muts = tzmut::concat_mutations(&base, !quick);
            let dir = format!("/verif/.build/c17-work-{}", std::process::id());
            let _ = std::fs::create_dir_all(&dir);
            let path = format!("{}/tzdata", dir);
            for (i, m) in muts.iter().enumerate() {
                if !mine(i) {
                    continue;
                }
                since_flush += 1;
                if since_flush >= 500 {
                    // counters travel as deltas so that little is lost if the
                    // process dies later
                    o.line("C", json!({"counters": *counters.borrow(), "maxima": *maxima.borrow()}));
                    counters.borrow_mut().clear();
                    since_flush = 0;
                }
                o.line("S", json!(i));
                selftest(i);
                let bytes = tzmut::concat_apply(&base, m);
                std::fs::write(&path, &bytes).expect("write concat file");
                let desc = tzmut::concat_describe(m);
                bump("concat:cases", 1);
                let t0 = CpuClock::now();
                let db = match guard(|| jiff::tz::TimeZoneDatabase::from_concatenated_path(&path)) {
                    Err(p) => {
                        o.viol(&format!("TimeZoneDatabase::from_concatenated_path/{}", panic_sig(&p)), &desc, &p);
                        continue;
                    }
                    Ok(Err(_)) => {
                        bump("concat:rejected", 1);
                        continue;
                    }
                    Ok(Ok(db)) => db,
                };
                bump("concat:opened", 1);
                match guard(|| db.available().map(|n| n.as_str().to_string()).collect::<Vec<_>>()) {
                    Err(p) => o.viol(&format!("concatenated TimeZoneDatabase::available/{}", panic_sig(&p)), &desc, &p),
                    Ok(v) => bump("concat:names_listed", v.len() as u64),
                }
                for name in tzmut::CONCAT_NAMES.iter().chain(["Nope/Zone", ""].iter()) {
                    match guard(|| db.get(name)) {
                        Err(p) => o.viol(&format!("concatenated TimeZoneDatabase::get/{}", panic_sig(&p)), &desc, &p),
                        Ok(Err(_)) => bump("concat:get_err", 1),
                        Ok(Ok(tz)) => {
                            bump("concat:get_ok", 1);
                            match guard(|| battery::battery(&tz, &[], false)) {
                                Err(p) => o.viol(&format!("concatenated TimeZoneDatabase::get->lookup/{}", panic_sig(&p)), &desc, &p),
                                Ok(v) => {
                                    for (cls, d) in v {
                                        o.viol(&format!("concatenated TimeZoneDatabase::get->{}", cls), &desc, &d);
                                    }
                                }
                            }
                        }
                    }
                }
                let dt = t0.elapsed().as_secs_f64();
                peak("concat:max_case_seconds", dt);
                if dt > 60.0 {
                    o.viol("TimeZoneDatabase::from_concatenated_path/work-not-proportional(time)", &desc, &format!("{:.2}s", dt));
                }
            }
            let _ = std::fs::remove_dir_all(&dir);
        }
        "blowup" => {
            let ps = text::parsers();
            let sp = blow_space(&ps, quick);
            for (i, b) in sp.iter().enumerate() {
                if !mine(i) {
                    continue;
                }
                since_flush += 1;
                if since_flush >= 500 {
                    // counters travel as deltas so that little is lost if the
                    // process dies later
                    o.line("C", json!({"counters": *counters.borrow(), "maxima": *maxima.borrow()}));
                    counters.borrow_mut().clear();
                    since_flush = 0;
                }
                o.line("S", json!(i));
                selftest(i);
                let bytes = blow_bytes(&ps, b);
                let pi = match b {
                    Blow::Digits { pi, .. } | Blow::Unit { pi, .. } | Blow::Count { pi, .. } => *pi,
                };
                let p = &ps[pi];
                let a0 = allocated();
                let t0 = CpuClock::now();
                let res = guard(|| (p.f)(&bytes));
                let dt = t0.elapsed().as_secs_f64();
                let da = allocated() - a0;
                bump("blowup:cases", 1);
                if bytes.len() > 65_536 {
                    bump("blowup:cases_1MB", 1);
                }
                peak("blowup:max_seconds", dt);
                if bytes.len() >= 65_536 {
                    peak("blowup:max_alloc_bytes_per_input_byte(inputs>=64KiB)", da as f64 / bytes.len() as f64);
                } else {
                    peak("blowup:max_alloc_bytes(inputs<64KiB)", da as f64);
                }
                let desc = blow_describe(&ps, b);
                if dt > time_limit(bytes.len()) {
                    o.viol(&format!("{}/work-not-proportional(time)", p.name), &desc, &format!("{} bytes took {:.2}s", bytes.len(), dt));
                }
                if da > alloc_limit(bytes.len(), p.calls) {
                    o.viol(&format!("{}/work-not-proportional(allocation)", p.name), &desc, &format!("{} bytes of input, {} bytes allocated", bytes.len(), da));
                }
                match res {
                    Err(pn) => o.viol(&format!("{}/{}{}", p.name, panic_sig(&pn), text::panic_class(&bytes)), &desc, &pn),
                    Ok(Res::Err) => bump("blowup:err", 1),
                    Ok(Res::Ok) => bump("blowup:ok", 1),
                    Ok(Res::Bad(c, d)) => {
                        bump("blowup:ok", 1);
                        o.viol(&format!("{}/{}", p.name, c), &desc, &d);
                    }
                    Ok(Res::Many(v)) => {
                        bump("blowup:ok", 1);
                        for (c, d) in v {
                            o.viol(&format!("{}/{}", p.name, c), &desc, &d);
                        }
                    }
                }
            }
        }
        other => {
            eprintln!("unknown worker kind {:?}", other);
            std::process::exit(2);
        }
    }
    o.line("C", json!({"counters": *counters.borrow(), "maxima": *maxima.borrow()}));
    o.line("E", json!(null));
    std::process::exit(0);
}

enum Msg {
    Line(String),
    Eof,
}

/// Run one kind of worker over `n_shards` child processes; attribute deaths
/// and hangs to the case in progress and resume after it.
fn run_children(r: &Report, section: &str, kind: &str, op: &str, describe: &(dyn Fn(usize) -> String + Sync), maxima: &std::sync::Mutex<BTreeMap<String, f64>>) {
    let exe = std::env::current_exe().expect("current_exe");
    let nshards = std::thread::available_parallelism().map(|n| n.get()).unwrap_or(8).clamp(2, 16);
    let tier = if r.quick() { "quick" } else { "thorough" };
    let idle_limit: u64 = std::env::var("C17_WORKER_TIMEOUT_S").ok().and_then(|x| x.parse().ok()).unwrap_or(120);
    (0..nshards).into_par_iter().for_each(|shard| {
        let mut resume: i64 = -1;
        let mut restarts = 0;
        'outer: loop {
            let mut child = Command::new(&exe)
                .args(["--c17-worker", kind, "--tier", tier, "--shard", &shard.to_string(), "--nshards", &nshards.to_string(), "--resume-after", &resume.to_string()])
                .stdout(Stdio::piped())
                .stderr(Stdio::inherit())
                .spawn()
                .expect("spawn worker");
            let stdout = child.stdout.take().unwrap();
            let (tx, rx) = mpsc::channel();
            let reader = std::thread::spawn(move || {
                let br = BufReader::new(stdout);
                for l in br.lines() {
                    match l {
                        Ok(l) => {
                            if tx.send(Msg::Line(l)).is_err() {
                                return;
                            }
                        }
                        Err(_) => break,
                    }
                }
                let _ = tx.send(Msg::Eof);
            });
            let mut cur: Option<usize> = None;
            let mut done = false;
            loop {
                match rx.recv_timeout(Duration::from_secs(idle_limit)) {
                    Ok(Msg::Line(l)) => {
                        let (tag, rest) = l.split_once(' ').unwrap_or((&l, ""));
                        match tag {
                            "S" => {
                                cur = rest.parse().ok();
                                r.count(&format!("{}:started", kind), 1);
                            }
                            "V" => {
                                if let Ok(v) = serde_json::from_str::<serde_json::Value>(rest) {
                                    r.viol(section, v["sig"].as_str().unwrap_or("?"), v["case"].as_str().unwrap_or("?"), v["detail"].as_str().unwrap_or("?"));
                                }
                            }
                            "C" => {
                                if let Ok(v) = serde_json::from_str::<serde_json::Value>(rest) {
                                    if let Some(c) = v["counters"].as_object() {
                                        for (k, n) in c {
                                            r.count(k, n.as_u64().unwrap_or(0));
                                        }
                                    }
                                    if let Some(c) = v["maxima"].as_object() {
                                        let mut g = maxima.lock().unwrap();
                                        for (k, n) in c {
                                            let e = g.entry(k.clone()).or_insert(0.0);
                                            let x = n.as_f64().unwrap_or(0.0);
                                            if x > *e {
                                                *e = x;
                                            }
                                        }
                                    }
                                }
                            }
                            "E" => done = true,
                            _ => {}
                        }
                    }
                    Ok(Msg::Eof) => break,
                    Err(_) => {
                        // no progress for 120 s: the case in progress hangs
                        let _ = child.kill();
                        let _ = child.wait();
                        let _ = reader.join();
                        let _ = std::fs::remove_dir_all(format!("/verif/.build/c17-work-{}", child.id()));
                        match cur {
                            Some(i) => {
                                r.viol(section, &format!("{}/no-termination(>{}s)", op, idle_limit), describe(i), format!("worker made no progress for {} s and was killed", idle_limit));
                                resume = i as i64;
                                restarts += 1;
                                if restarts > 50 {
                                    r.cap(format!("{} shard {} abandoned after 50 restarts", kind, shard));
                                    break 'outer;
                                }
                                continue 'outer;
                            }
                            None => {
                                r.note(format!("NONVACUITY-FAILED: {} worker shard {} hung before its first case", kind, shard));
                                break 'outer;
                            }
                        }
                    }
                }
            }
            let status = child.wait().expect("wait worker");
            let _ = reader.join();
            let _ = std::fs::remove_dir_all(format!("/verif/.build/c17-work-{}", child.id()));
            if done && status.success() {
                break;
            }
            // died: attribute to the case in progress
            use std::os::unix::process::ExitStatusExt;
            let how = match (status.signal(), status.code()) {
                (Some(s), _) => format!("signal {}", s),
                (None, Some(c)) => format!("exit code {}", c),
                _ => "unknown".into(),
            };
            match cur {
                Some(i) if (i as i64) > resume => {
                    r.viol(section, &format!("{}/process-died({})", op, how), describe(i), format!("the worker process died ({}) while processing this input", how));
                    resume = i as i64;
                    restarts += 1;
                    if restarts > 50 {
                        r.cap(format!("{} shard {} abandoned after 50 restarts", kind, shard));
                        break;
                    }
                }
                _ => {
                    r.note(format!("NONVACUITY-FAILED: {} worker shard {} died ({}) outside any case", kind, shard, how));
                    break;
                }
            }
        }
    });
}

fn main() {
    let args: Vec<String> = std::env::args().collect();
    if args.iter().any(|a| a == "--c17-worker") {
        child_main(&args);
    }
    let r = Report::from_args("C17");
    let ps = text::parsers();
    let mut names: Vec<String> = ps.iter().map(|p| p.name.to_string()).collect();
    names.resize(STRF + 1, String::new());
    names[STRP] = "strtime::parse(format|input)".into();
    names[STRF] = "strtime::format(format|value)".into();
    let _ = NAMES.set(names);
    set_section("");
    start_watchdog(&r);
    // make sure the global tz database is initialised outside any measured call
    let _ = jiff::tz::db().get("UTC");

    sec_short(&r, &ps);
    sec_mutate1(&r, &ps);
    sec_mutate2(&r, &ps);
    sec_anchored(&r, &ps);
    sec_fieldvals(&r, &ps);
    sec_strptime(&r);
    sec_strftime(&r);

    let maxima: std::sync::Mutex<BTreeMap<String, f64>> = std::sync::Mutex::new(BTreeMap::new());
    r.section("blowup", || {
        let sp = blow_space(&ps, r.quick());
        r.count("blowup:declared", sp.len() as u64);
        run_children(&r, "blowup", "blowup", "parser", &|i| blow_describe(&ps, &sp[i]), &maxima);
        r.add_states(r.get_count("blowup:cases"));
        r.add_transitions(r.get_count("blowup:cases"));
        r.add_validated(r.get_count("blowup:ok"));
        r.require(r.get_count("blowup:started") == sp.len() as u64 || r.n_viol_sigs() > 0, "every blow-up input was processed");
    });
    r.section("tzif", || {
        let sp = tzif_space(r.quick());
        r.count("tzif:declared", sp.len() as u64);
        r.count("tzif:seeds", sp.seeds.len() as u64);
        run_children(&r, "tzif", "tzif", "TimeZone::tzif", &|i| sp.describe(i), &maxima);
        r.add_states(r.get_count("tzif:cases"));
        r.add_transitions(r.get_count("tzif:cases"));
        r.add_validated(r.get_count("tzif:accepted"));
        r.require(r.get_count("tzif:started") == sp.len() as u64 || r.n_viol_sigs() > 0, "every TZif case was processed");
        r.require(r.get_count("tzif:accepted") > 0 && r.get_count("tzif:rejected") > 0, "TZif mutations both accepted and rejected");
        r.sample(json!({"section": "tzif", "seeds": sp.seeds.iter().map(|s| format!("{} ({} bytes)", s.name, s.bytes.len())).collect::<Vec<_>>()}));
    });
    r.section("concat", || {
        let base = tzmut::concat_base();
        let muts = tzmut::concat_mutations(&base, r.thorough());
        r.count("concat:declared", muts.len() as u64);
        run_children(&r, "concat", "concat", "TimeZoneDatabase::from_concatenated_path", &|i| tzmut::concat_describe(&muts[i]), &maxima);
        r.add_states(r.get_count("concat:cases"));
        r.add_transitions(r.get_count("concat:cases"));
        r.add_validated(r.get_count("concat:get_ok"));
        r.require(r.get_count("concat:started") == muts.len() as u64 || r.n_viol_sigs() > 0, "every concatenated-tzdata case was processed");
        r.require(r.get_count("concat:get_ok") > 0 && r.get_count("concat:rejected") > 0, "concatenated files both usable and rejected");
    });
    for (k, v) in maxima.lock().unwrap().iter() {
        r.note(format!("max {} = {:.6}", k, v));
    }

    if r.only_section.is_none() {
        for s in ["short", "mutate1", "mutate2", "anchored", "fieldvals", "strptime"] {
            r.require(r.get_count(&format!("{}:ok", s)) > 0 && r.get_count(&format!("{}:err", s)) > 0, &format!("section {} saw both Ok and Err outcomes", s));
        }
        for p in &ps {
            r.require(r.get_count(&format!("mutate1:{}:ok", p.name)) > 0, &format!("{} accepted some mutated seeds", p.name));
        }
    }
    for k in ["short:ok", "short:err", "mutate1:ok", "mutate1:err", "mutate2:ok", "mutate2:err", "anchored:ok", "anchored:err", "fieldvals:ok", "fieldvals:err", "strptime:ok", "strptime:err", "strftime:ok", "strftime:err", "blowup:ok", "blowup:err", "tzif:accepted", "tzif:rejected", "concat:opened", "concat:rejected", "concat:get_ok", "concat:get_err"] {
        r.outcome(k, r.get_count(k));
    }
    r.finish();
}
