//! C01: civil calendar facts are exactly the proleptic Gregorian calendar.
//! E1, fully exhaustive: the complete state space of the successor machine.

extern crate alloc;

use jiff::civil::{Date, Era, ISOWeekDate, Weekday};
use jiff::{ToSpan, Unit};
use rayon::prelude::*;
use refmodel::cal::{self, Succ};
use serde_json::json;
use vf::{guard, panic_sig, Report};

/// jiff-static's generated copy of the shared calendar code, compiled from the
/// repository's own file.
#[allow(dead_code, unused_imports, unused_macros)]
mod shared {
    pub(crate) mod util {
        #[path = "/repo/crates/jiff-static/src/shared/util/error.rs"]
        pub(crate) mod error;
        #[path = "/repo/crates/jiff-static/src/shared/util/itime.rs"]
        pub(crate) mod itime;
    }
}
pub(crate) const SEC: &str = "static_itime";
pub(crate) const PFX: &str = "static";

/// The same file as jiff itself compiles it (`src/shared/util/itime.rs`; the
/// jiff-static copy above is generated from it). Its `IDate`/`IDateTime`
/// routines are crate-private in jiff and reachable there only through POSIX
/// time-zone rule evaluation, so they are checked here directly, on every date,
/// by the same code as the generated copy.
#[allow(dead_code, unused_imports, unused_macros, unexpected_cfgs)]
mod rt {
    pub(crate) const SEC: &str = "runtime_itime";
    pub(crate) const PFX: &str = "runtime-itime";
    pub(crate) mod shared {
        pub(crate) mod util {
            // one error type for both copies: the `err!` macro of either file
            // names `crate::shared::util::error::Error`
            pub(crate) mod error {
                pub(crate) use crate::shared::util::error::{err, Error};
            }
            #[path = "/repo/src/shared/util/itime.rs"]
            pub(crate) mod itime;
        }
    }
    #[path = "/verif/harness/vf/src/bin/c01/stat.rs"]
    pub(crate) mod stat;
}

#[path = "c01/ctor2.rs"]
mod ctor2;
#[path = "c01/facts2.rs"]
mod facts2;
#[path = "c01/nth.rs"]
mod nth;
#[path = "c01/stat.rs"]
mod stat;
#[path = "c01/weekday.rs"]
mod weekday;
#[path = "c01/with.rs"]
mod with;

pub(crate) const WDS: [Weekday; 7] = [
    Weekday::Sunday,
    Weekday::Monday,
    Weekday::Tuesday,
    Weekday::Wednesday,
    Weekday::Thursday,
    Weekday::Friday,
    Weekday::Saturday,
];

pub(crate) fn start_state(n: i64) -> Succ {
    let (y, m, d) = cal::civil_from_days(n);
    let (iy, iw, _) = cal::iso_week_date(y, m, d);
    Succ { y, m, d, wd: cal::weekday_from_days(n), doy: cal::day_of_year(y, m, d), epoch_day: n, iso_y: iy, iso_w: iw }
}

fn main() {
    let r = Report::from_args("C01");
    let min = cal::min_day();
    let max = cal::max_day();
    let nchunks = 64i64;
    let total = max - min + 1;

    // Chunk c covers days [lo_c, hi_c]. Each chunk runs the successor machine
    // from a start state built with the closed form; the end state of chunk c
    // is compared with the start state of chunk c+1, and the chunk containing
    // the epoch is compared with the hard-wired anchor, so the whole run is
    // one unbroken successor chain from 1970-01-01 = day 0 = Thursday.
    let bounds: Vec<(i64, i64)> = (0..nchunks)
        .map(|c| (min + total * c / nchunks, min + total * (c + 1) / nchunks - 1))
        .collect();

    r.section("facts", || {
        let epoch = Date::new(1970, 1, 1).unwrap();
        let ends: Vec<(Succ, Succ, bool)> = bounds
            .par_iter()
            .map(|&(lo, hi)| {
                let first = start_state(lo);
                let mut s = first;
                let mut saw_anchor = false;
                let mut n_ok = 0u64;
                let (mut leap, mut w53) = (0u64, 0u64);
                loop {
                    if s.epoch_day == 0 {
                        saw_anchor = true;
                        if s != Succ::epoch() {
                            r.viol("facts", "model-anchor", "1970-01-01", format!("model {:?}", s));
                        }
                    }
                    // closed form vs successor machine (validates R-cal itself)
                    let cf = cal::civil_from_days(s.epoch_day);
                    let iso = cal::iso_week_date(s.y, s.m, s.d);
                    if cf != (s.y, s.m, s.d)
                        || cal::days_from_civil(s.y, s.m, s.d) != s.epoch_day
                        || iso != (s.iso_y, s.iso_w, s.iso_wd())
                        || cal::weekday_from_days(s.epoch_day) != s.wd
                        || cal::day_of_year(s.y, s.m, s.d) != s.doy
                        || cal::days_from_iso(s.iso_y, s.iso_w, s.iso_wd()) != Some(s.epoch_day)
                    {
                        r.viol("facts", "model-closed-form-vs-successor", format!("{:?}", s), "reference model inconsistent");
                    }
                    check_date(&r, &s, epoch, min, max);
                    facts2::check_date_ext(&r, &s, epoch, min, max);
                    n_ok += 1;
                    if s.m == 2 && s.d == 29 {
                        leap += 1;
                    }
                    if s.iso_w == 53 {
                        w53 += 1;
                    }
                    if s.epoch_day == hi {
                        break;
                    }
                    s = s.next();
                }
                r.add_states(n_ok);
                r.add_transitions(n_ok.saturating_sub(1));
                r.add_validated(n_ok * (21 + facts2::N_EXT_FACTS));
                r.count("dates_checked", n_ok);
                r.count("leap_days", leap);
                r.count("w53_days", w53);
                (first, s, saw_anchor)
            })
            .collect();
        let mut anchor = false;
        for c in 0..ends.len() {
            anchor |= ends[c].2;
            if c + 1 < ends.len() {
                r.add_transitions(1);
                if ends[c].1.next() != ends[c + 1].0 {
                    r.viol("facts", "model-chain-broken", format!("chunk {}", c), format!("{:?} -> {:?}", ends[c].1, ends[c + 1].0));
                }
            }
        }
        r.require(anchor, "epoch anchor visited");
        // also run the machine backwards over one chunk boundary region to
        // validate prev() (used nowhere else but kept honest)
        let mut s = Succ::epoch();
        for _ in 0..1_000_000 {
            let p = s.prev();
            if p.next() != s {
                r.viol("facts", "model-prev-next", format!("{:?}", s), "prev/next not inverse");
                break;
            }
            s = p;
        }
        facts2::check_consts(&r);
        r.sample(json!({"state": format!("{:?}", start_state(19782)), "facts_checked": FACTS, "facts_checked_ext": facts2::EXT_FACTS}));
    });

    r.section("ctor", || {
        // all (y, m, d) triples incl. invalid ones
        let ys: Vec<i64> = (-10000..=10000).collect();
        let n: u64 = ys
            .par_iter()
            .map(|&y| {
                let mut n = 0u64;
                for m in -1..=14i64 {
                    for d in -1..=33i64 {
                        n += 1;
                        let want = cal::valid_date(y, m, d);
                        let got = guard(|| {
                            if y < i16::MIN as i64 || y > i16::MAX as i64 {
                                return None;
                            }
                            Date::new(y as i16, m as i8, d as i8).ok()
                        });
                        match got {
                            Err(p) => r.viol("ctor", &format!("Date::new/{}", panic_sig(&p)), format!("{}-{}-{}", y, m, d), p),
                            Ok(g) => {
                                if g.is_some() != want {
                                    r.viol("ctor", "Date::new/validity", format!("{}-{}-{}", y, m, d), format!("jiff ok={} model ok={}", g.is_some(), want));
                                } else if let Some(g) = g {
                                    if (g.year() as i64, g.month() as i64, g.day() as i64) != (y, m, d) {
                                        r.viol("ctor", "Date::new/fields", format!("{}-{}-{}", y, m, d), format!("{}", g));
                                    }
                                }
                            }
                        }
                    }
                }
                n
            })
            .sum();
        r.add_states(n);
        r.add_validated(n);
        r.count("ctor_triples", n);
    });

    r.section("ctor_const", || ctor2::run_const(&r));
    r.section("ctor_edge", || ctor2::run_edge(&r));
    r.section("with", || with::run(&r));
    r.section("weekday", || weekday::run(&r));

    r.section("nth_of_month", || nth::run_of_month(&r));

    r.section("nth_weekday", || nth::run_nth_weekday(&r, &bounds, min, max));

    r.section("iso_ctor", || {
        let mut ys: Vec<i64> = (-10000..=10000).collect();
        ys.extend_from_slice(&[i16::MIN as i64, i16::MIN as i64 + 1, -10001, 10001, i16::MAX as i64 - 1, i16::MAX as i64]);
        let mut ws: Vec<i64> = (-2..=56).collect();
        ws.extend_from_slice(&[i8::MIN as i64, -127, -53, -52, 64, 65, 105, 126, i8::MAX as i64]);
        let (n, valid): (u64, u64) = ys
            .par_iter()
            .map(|&y| {
                let mut n = 0;
                let mut valid = 0u64;
                // the previous valid ISO week date in enumeration order (which is
                // date order) and its epoch day
                let mut prev: Option<(ISOWeekDate, i64)> = None;
                if (cal::MIN_YEAR + 1..=cal::MAX_YEAR).contains(&y) {
                    if let Ok(Ok(p)) = guard(|| ISOWeekDate::new((y - 1) as i16, cal::iso_weeks_in_year(y - 1) as i8, Weekday::Sunday)) {
                        prev = Some((p, cal::iso_week1_monday(y) - 1));
                    }
                }
                for &w in &ws {
                    for wd in 1..=7i64 {
                        n += 1;
                        let want = if (cal::MIN_YEAR..=cal::MAX_YEAR).contains(&y) {
                            cal::days_from_iso(y, w, wd).filter(|e| (min..=max).contains(e))
                        } else {
                            None
                        };
                        let jwd = WDS[(wd % 7) as usize];
                        match guard(|| ISOWeekDate::new(y as i16, w as i8, jwd)) {
                            Err(p) => r.viol("iso_ctor", &format!("ISOWeekDate::new/{}", panic_sig(&p)), format!("{}-W{}-{}", y, w, wd), p),
                            Ok(got) => {
                                let gd = got.as_ref().ok().map(|g| vf::conv::date_epoch_day(g.date()));
                                if gd != want {
                                    r.viol("iso_ctor", "ISOWeekDate::new/value", format!("{}-W{}-{}", y, w, wd), format!("jiff {:?} model {:?}", gd, want));
                                }
                                if let Ok(g) = got {
                                    valid += 1;
                                    let long = cal::iso_weeks_in_year(y) == 53;
                                    if g.in_long_year() != long || g.weeks_in_year() as i64 != cal::iso_weeks_in_year(y) {
                                        r.viol("iso_ctor", "ISOWeekDate/weeks_in_year", format!("{}-W{}-{}", y, w, wd), format!("jiff {} model {}", g.weeks_in_year(), cal::iso_weeks_in_year(y)));
                                    }
                                    // extension: the fields read back, the Gregorian date converts back, order
                                    match guard(|| (facts2::iso3(g), facts2::iso3(g.date().iso_week_date()), prev.map(|(p, _)| (p < g, g > p, p == g, p.cmp(&g))))) {
                                        Err(p) => r.viol("iso_ctor", &format!("ISOWeekDate::new/{}", panic_sig(&p)), format!("{}-W{}-{}", y, w, wd), p),
                                        Ok((f, rt, ord)) => {
                                            if f != (y, w, wd) {
                                                r.viol("iso_ctor", "ISOWeekDate::new/fields", format!("{}-W{}-{}", y, w, wd), format!("jiff {:?}", f));
                                            }
                                            if rt != (y, w, wd) {
                                                r.viol("iso_ctor", "ISOWeekDate::date/iso_week_date-roundtrip", format!("{}-W{}-{}", y, w, wd), format!("jiff {:?}", rt));
                                            }
                                            if let Some(o) = ord {
                                                if o != (true, true, false, core::cmp::Ordering::Less) {
                                                    r.viol("iso_ctor", "ISOWeekDate::cmp/consecutive", format!("{}-W{}-{}", y, w, wd), format!("previous valid week date {:?}: (<, >, ==, cmp) = {:?}", prev.map(|x| facts2::iso3(x.0)), o));
                                                }
                                            }
                                        }
                                    }
                                    // consecutive valid week dates are consecutive days
                                    if let (Some((_, pe)), Some(ge)) = (prev, gd) {
                                        if ge != pe + 1 {
                                            r.viol("iso_ctor", "ISOWeekDate::new/consecutive-days", format!("{}-W{}-{}", y, w, wd), format!("epoch day {} after {}", ge, pe));
                                        }
                                    }
                                    if let Some(ge) = gd {
                                        prev = Some((g, ge));
                                    }
                                }
                            }
                        }
                    }
                }
                (n, valid)
            })
            .reduce(|| (0, 0), |a, b| (a.0 + b.0, a.1 + b.1));
        r.add_states(n);
        r.add_validated(n + 3 * valid);
        r.count("iso_triples", n);
        r.count("iso_triples_valid", valid);
        r.require(valid == total as u64, "valid ISO week dates are in bijection with the dates");
        // order on a pool, all pairs
        let pool: Vec<(ISOWeekDate, i64)> = vf::pools::dates().into_iter().map(|d| (d.iso_week_date(), vf::conv::date_epoch_day(d))).collect();
        for (a, ea) in &pool {
            for (b, eb) in &pool {
                r.add_validated(1);
                match guard(|| (a.cmp(b), a.partial_cmp(b), a == b)) {
                    Err(p) => r.viol("iso_ctor", &format!("ISOWeekDate::cmp/{}", panic_sig(&p)), format!("{:?} {:?}", a, b), p),
                    Ok(got) => {
                        let want = (ea.cmp(eb), Some(ea.cmp(eb)), ea == eb);
                        if got != want {
                            r.viol("iso_ctor", "ISOWeekDate::cmp/pool", format!("{:?} {:?}", facts2::iso3(*a), facts2::iso3(*b)), format!("jiff {:?} model {:?}", got, want));
                        }
                    }
                }
            }
        }
    });

    r.section("static_itime", || {
        let n: u64 = bounds
            .par_iter()
            .map(|&(lo, hi)| {
                let mut s = start_state(lo);
                let mut n = 0;
                loop {
                    n += 1;
                    stat::check_idate(&r, &s, min, max);
                    stat::check_idate_ext(&r, &s, min, max, r.thorough());
                    if s.epoch_day == hi {
                        break;
                    }
                    s = s.next();
                }
                n
            })
            .sum();
        r.add_validated(n * (10 + stat::N_STATIC_EXT));
        r.count("static_itime_dates", n);
        stat::run_small(&r);
        // is the generated copy still the generated copy? (recorded, not judged)
        let a = include_str!("/repo/src/shared/util/itime.rs");
        let b = include_str!("/repo/crates/jiff-static/src/shared/util/itime.rs");
        let same = b.ends_with(a) && b.len() - a.len() < 80;
        r.outcome("static_copy_textually_identical_to_src_shared_util_itime", same as u64);
        if !same {
            r.note("crates/jiff-static/src/shared/util/itime.rs differs textually from src/shared/util/itime.rs (beyond the generated-by header)");
        }
    });

    r.section("runtime_itime", || {
        let n: u64 = bounds
            .par_iter()
            .map(|&(lo, hi)| {
                let mut s = start_state(lo);
                let mut n = 0;
                loop {
                    n += 1;
                    rt::stat::check_idate(&r, &s, min, max);
                    rt::stat::check_idate_ext(&r, &s, min, max, r.thorough());
                    if s.epoch_day == hi {
                        break;
                    }
                    s = s.next();
                }
                n
            })
            .sum();
        r.add_validated(n * (10 + rt::stat::N_STATIC_EXT));
        r.count("runtime_itime_dates", n);
        rt::stat::run_small(&r);
    });

    r.require(r.get_count("dates_checked") == total as u64 || r.only_section.is_some(), "all 7304484 dates visited");
    r.outcome("leap_days", r.get_count("leap_days"));
    r.outcome("w53_days", r.get_count("w53_days"));
    r.finish();
}

const FACTS: &str = "new, epoch-day (until Day from 1970-01-01), epoch+days, weekday, day_of_year, day_of_year_no_leap, days_in_month, in_leap_year, days_in_year, first/last_of_month, first/last_of_year, tomorrow, yesterday, iso_week_date and back, era_year";

fn check_date(r: &Report, s: &Succ, epoch: Date, min: i64, max: i64) {
    let case = || format!("{:04}-{:02}-{:02}", s.y, s.m, s.d);
    let res = guard(|| -> Vec<(&'static str, String)> {
        let mut bad = vec![];
        let d = match Date::new(s.y as i16, s.m as i8, s.d as i8) {
            Ok(d) => d,
            Err(e) => return vec![("new", e.to_string())],
        };
        macro_rules! chk {
            ($name:expr, $got:expr, $want:expr) => {
                let g = $got;
                let w = $want;
                if g != w {
                    bad.push(($name, format!("jiff {:?} model {:?}", g, w)));
                }
            };
        }
        let days = epoch.until((Unit::Day, d)).map(|sp| sp.get_days() as i64).map_err(|e| e.to_string());
        chk!("epoch_day", days, Ok(s.epoch_day));
        let back = epoch.checked_add((s.epoch_day as i32).days()).map_err(|e| e.to_string());
        chk!("from_epoch_day", back, Ok(d));
        chk!("weekday", d.weekday().to_sunday_zero_offset() as u8, s.wd);
        chk!("day_of_year", d.day_of_year() as i64, s.doy);
        let leap = cal::is_leap(s.y);
        let no_leap = if leap && s.m == 2 && s.d == 29 {
            None
        } else if leap && s.m > 2 {
            Some(s.doy - 1)
        } else {
            Some(s.doy)
        };
        chk!("day_of_year_no_leap", d.day_of_year_no_leap().map(|x| x as i64), no_leap);
        chk!("days_in_month", d.days_in_month() as i64, cal::days_in_month(s.y, s.m));
        chk!("in_leap_year", d.in_leap_year(), leap);
        chk!("days_in_year", d.days_in_year() as i64, cal::days_in_year(s.y));
        chk!("first_of_month", vf::conv::date_ymd(d.first_of_month()), (s.y, s.m, 1));
        chk!("last_of_month", vf::conv::date_ymd(d.last_of_month()), (s.y, s.m, cal::days_in_month(s.y, s.m)));
        chk!("first_of_year", vf::conv::date_ymd(d.first_of_year()), (s.y, 1, 1));
        chk!("last_of_year", vf::conv::date_ymd(d.last_of_year()), (s.y, 12, 31));
        let tom = d.tomorrow().ok().map(vf::conv::date_ymd);
        let n = s.next();
        chk!("tomorrow", tom, if s.epoch_day < max { Some((n.y, n.m, n.d)) } else { None });
        let yes = d.yesterday().ok().map(vf::conv::date_ymd);
        let p = s.prev();
        chk!("yesterday", yes, if s.epoch_day > min { Some((p.y, p.m, p.d)) } else { None });
        let iso = d.iso_week_date();
        chk!(
            "iso_week_date",
            (iso.year() as i64, iso.week() as i64, iso.weekday().to_monday_one_offset() as i64),
            (s.iso_y, s.iso_w, s.iso_wd())
        );
        chk!("iso_to_date", iso.date(), d);
        chk!("from_iso_week_date", Date::from_iso_week_date(iso), d);
        let (ey, era) = d.era_year();
        let want_era = if s.y >= 1 { (s.y, Era::CE) } else { (1 - s.y, Era::BCE) };
        chk!("era_year", (ey as i64, era), want_era);
        bad
    });
    match res {
        Err(p) => r.viol("facts", &format!("facts/{}", panic_sig(&p)), case(), p),
        Ok(bad) => {
            for (name, detail) in bad {
                r.viol("facts", &format!("fact/{}", name), case(), detail);
            }
        }
    }
}

