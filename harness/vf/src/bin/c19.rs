//! C19 (sequential part): time zone database lookups are coherent under
//! caching, refresh and reset. E2: every history of events up to the depth
//! bound is executed from a fresh directory/file and a fresh database, with no
//! state merging. "TTL elapsed" is an event: the monotonic clock jiff's caches
//! read is advanced through the `jiff_verif` hook.
//!
//! Property-level monitor (the only source of violations): at (fake) time t,
//! `get(n)` must answer with one of the states the data of name `n` had on
//! disk at some time in the window [max(t - TTL, t_reset), t], where a state
//! is "absent" or a file version; in particular, when the window holds a
//! single state the answer is determined. Every returned zone must carry the
//! canonical spelling, the three case variants issued within one event must
//! agree, and nothing may panic.
//!
//! The fake clock is process-global, so histories are sharded over worker
//! *processes* (never threads).

use jiff::tz::{TimeZone, TimeZoneDatabase};
use jiff::Timestamp;
use serde_json::{json, Value};
use std::path::{Path, PathBuf};
use std::time::{Duration, SystemTime};
use vf::{guard, panic_sig, Report};

const TTL: u64 = 300;
const HALF: u64 = 151; // two of these exceed the TTL, one does not
const FULL: u64 = 301;
const NAMES: [&str; 3] = ["A/x", "B", "c/Y"];

/// A minimal TZif v2 file: no transitions, one local time type, a footer.
fn tiny_tzif(utoff: i32, abbr: &str) -> Vec<u8> {
    let mut block = |v: u8| -> Vec<u8> {
        let mut b = vec![];
        b.extend_from_slice(b"TZif");
        b.push(v);
        b.extend_from_slice(&[0u8; 15]);
        for n in [0u32, 0, 0, 0, 1, abbr.len() as u32 + 1] {
            b.extend_from_slice(&n.to_be_bytes());
        }
        b.extend_from_slice(&utoff.to_be_bytes());
        b.push(0); // isdst
        b.push(0); // abbrind
        b.extend_from_slice(abbr.as_bytes());
        b.push(0);
        b
    };
    let mut out = block(b'2');
    out.extend(block(b'2'));
    // POSIX offsets are positive west
    let p = -utoff;
    let sign = if p < 0 { "-" } else { "" };
    let a = p.abs();
    let off = if a % 3600 == 0 { format!("{}{}", sign, a / 3600) } else { format!("{}{}:{:02}", sign, a / 3600, (a % 3600) / 60) };
    out.extend_from_slice(format!("\n{}{}\n", abbr, off).as_bytes());
    out
}

/// utoff that identifies (name index, version) uniquely.
fn utoff_of(name: usize, version: u8) -> i32 {
    (name as i32 * 2 + version as i32) * 3600 + 1800
}
fn abbr_of(name: usize, version: u8) -> String {
    format!("{}{}", ["AAA", "BBB", "CCC"][name], ["V", "W"][version as usize - 1])
}

#[derive(Clone, Copy, PartialEq, Eq, Debug, PartialOrd, Ord)]
enum St {
    Absent,
    V(u8),
}

#[derive(Clone, Copy, Debug, PartialEq, Eq)]
enum Ev {
    /// get(name) issued as three case variants, starting with variant `first`
    Get(usize, u8),
    GetUnknown,
    Available,
    Reset,
    /// toggle to the other version (or create with v1)
    Write(usize),
    /// like Write, but the new file carries a modification time OLDER than
    /// anything seen so far (a restored backup, `cp -p`, a tzdata downgrade)
    WriteOld(usize),
    Touch(usize),
    Remove(usize),
    Advance(u64),
}

fn alphabet() -> Vec<Ev> {
    let mut v = vec![];
    for n in 0..3 {
        for c in 0..3 {
            v.push(Ev::Get(n, c));
        }
    }
    v.push(Ev::GetUnknown);
    v.push(Ev::Available);
    v.push(Ev::Reset);
    for n in 0..3 {
        v.push(Ev::Write(n));
    }
    v.push(Ev::WriteOld(0));
    v.push(Ev::Touch(1));
    for n in 0..3 {
        v.push(Ev::Remove(n));
    }
    v.push(Ev::Advance(HALF));
    v.push(Ev::Advance(FULL));
    v
}

fn variant(name: &str, c: u8) -> String {
    match c {
        0 => name.to_string(),
        1 => name.to_ascii_uppercase(),
        _ => name.to_ascii_lowercase(),
    }
}

#[derive(Clone, Copy, PartialEq, Eq)]
enum Kind {
    ZoneinfoDir,
    Concatenated,
}

struct Disk {
    kind: Kind,
    root: PathBuf,
    mtime_ctr: u64,
    /// when set, the next modification time handed out runs backwards
    older: bool,
    state: [St; 3],
}

impl Disk {
    fn next_mtime(&mut self) -> SystemTime {
        self.mtime_ctr += 1;
        if std::mem::take(&mut self.older) {
            return SystemTime::UNIX_EPOCH + Duration::from_secs(1_500_000_000 - self.mtime_ctr * 7);
        }
        SystemTime::UNIX_EPOCH + Duration::from_secs(1_600_000_000 + self.mtime_ctr * 7)
    }
    fn zone_path(&self, n: usize) -> PathBuf {
        self.root.join(NAMES[n])
    }
    fn concat_path(&self) -> PathBuf {
        self.root.join("tzdata")
    }
    fn write_file(path: &Path, bytes: &[u8], mtime: SystemTime) {
        if let Some(p) = path.parent() {
            std::fs::create_dir_all(p).unwrap();
        }
        // write to a temp name and rename: a reader never sees a torn file
        let tmp = path.with_extension("tmp~");
        std::fs::write(&tmp, bytes).unwrap();
        let f = std::fs::File::options().write(true).open(&tmp).unwrap();
        f.set_modified(mtime).unwrap();
        drop(f);
        std::fs::rename(&tmp, path).unwrap();
    }
    /// Bring the disk to `self.state` for name `n` (or everything for the concatenated file).
    fn sync(&mut self, n: usize, force: bool) {
        let m = self.next_mtime();
        match self.kind {
            Kind::ZoneinfoDir => match self.state[n] {
                St::Absent => {
                    let _ = std::fs::remove_file(self.zone_path(n));
                }
                St::V(v) => {
                    let _ = force;
                    Disk::write_file(&self.zone_path(n), &tiny_tzif(utoff_of(n, v), &abbr_of(n, v)), m);
                }
            },
            Kind::Concatenated => {
                let mut index = vec![];
                let mut data = vec![];
                for k in 0..3 {
                    if let St::V(v) = self.state[k] {
                        let bytes = tiny_tzif(utoff_of(k, v), &abbr_of(k, v));
                        let mut e = [0u8; 52];
                        e[..NAMES[k].len()].copy_from_slice(NAMES[k].as_bytes());
                        e[40..44].copy_from_slice(&(data.len() as u32).to_be_bytes());
                        e[44..48].copy_from_slice(&(bytes.len() as u32).to_be_bytes());
                        index.extend_from_slice(&e);
                        data.extend_from_slice(&bytes);
                    }
                }
                let mut out = vec![];
                out.extend_from_slice(b"tzdata2025b\0");
                let io = 24u32;
                let dof = io + index.len() as u32;
                out.extend_from_slice(&io.to_be_bytes());
                out.extend_from_slice(&dof.to_be_bytes());
                out.extend_from_slice(&(dof + data.len() as u32).to_be_bytes());
                out.extend_from_slice(&index);
                out.extend_from_slice(&data);
                Disk::write_file(&self.concat_path(), &out, m);
            }
        }
    }
    fn reset_to_initial(&mut self) {
        self.state = [St::V(1), St::V(1), St::Absent];
        for n in 0..3 {
            self.sync(n, true);
        }
    }
    fn open(&self) -> Result<TimeZoneDatabase, String> {
        match self.kind {
            Kind::ZoneinfoDir => TimeZoneDatabase::from_dir(&self.root).map_err(|e| e.to_string()),
            Kind::Concatenated => TimeZoneDatabase::from_concatenated_path(self.concat_path()).map_err(|e| e.to_string()),
        }
    }
}

/// Time line of one name's disk state: (fake time the state began, sequence
/// number of the event that began it, state).
struct Line(Vec<(u64, usize, St)>);
impl Line {
    /// States in force at some moment that is both within the last TTL (by the
    /// fake clock, boundaries inclusive) and after the last reset (by event
    /// order).
    fn admissible(&self, now: u64, reset_seq: usize) -> Vec<St> {
        let lo = now.saturating_sub(TTL);
        let mut out = vec![];
        for (i, &(_, _, s)) in self.0.iter().enumerate() {
            match self.0.get(i + 1) {
                None => out.push(s), // the current state
                Some(&(end_t, end_seq, _)) => {
                    if end_t >= lo && end_seq > reset_seq {
                        out.push(s);
                    }
                }
            }
        }
        out.sort();
        out.dedup();
        out
    }
}

fn observe(tz: &TimeZone) -> (i32, Option<String>) {
    (tz.to_offset(Timestamp::UNIX_EPOCH).seconds(), tz.iana_name().map(|s| s.to_string()))
}

/// Run one history. Returns the number of lookups checked.
fn run_history(r: &Report, sec: &str, disk: &mut Disk, evs: &[Ev], hist_id: &str) -> u64 {
    disk.reset_to_initial();
    let db = match disk.open() {
        Ok(db) => db,
        Err(e) => {
            r.viol(sec, "open/fails", hist_id.to_string(), e);
            return 0;
        }
    };
    let mut now: u64 = 0; // fake seconds since the database was opened
    let mut reset_seq: usize = 0;
    let mut lines: Vec<Line> = (0..3).map(|n| Line(vec![(0, 0, disk.state[n])])).collect();
    let mut checked = 0;
    for (step, ev) in evs.iter().enumerate() {
        let case = || format!("{} step {} of {:?}", hist_id, step, evs);
        let seq = step + 1;
        match *ev {
            Ev::Advance(s) => {
                jiff::__verif_advance_monotonic(Duration::from_secs(s));
                now += s;
            }
            Ev::Reset => {
                if let Err(p) = guard(|| db.reset()) {
                    r.viol(sec, &format!("reset/{}", panic_sig(&p)), case(), p);
                }
                reset_seq = seq;
            }
            Ev::Write(n) | Ev::WriteOld(n) => {
                disk.older = matches!(*ev, Ev::WriteOld(_));
                disk.state[n] = match disk.state[n] {
                    St::Absent => St::V(1),
                    St::V(1) => St::V(2),
                    St::V(_) => St::V(1),
                };
                disk.sync(n, false);
                lines[n].0.push((now, seq, disk.state[n]));
            }
            Ev::Touch(n) => {
                if disk.state[n] != St::Absent {
                    disk.sync(n, true);
                }
            }
            Ev::Remove(n) => {
                // the concatenated file must keep at least one zone
                let others = (0..3).filter(|&k| k != n && disk.state[k] != St::Absent).count();
                if disk.state[n] != St::Absent && others > 0 {
                    disk.state[n] = St::Absent;
                    disk.sync(n, false);
                    lines[n].0.push((now, seq, St::Absent));
                }
            }
            Ev::Get(n, first) => {
                let adm = lines[n].admissible(now, reset_seq);
                let mut answers: Vec<Option<(i32, Option<String>)>> = vec![];
                for k in 0..3 {
                    let c = (first + k) % 3;
                    let q = variant(NAMES[n], c);
                    match guard(|| db.get(&q).ok()) {
                        Err(p) => {
                            r.viol(sec, &format!("get/{}", panic_sig(&p)), case(), p);
                            return checked;
                        }
                        Ok(tz) => answers.push(tz.as_ref().map(observe)),
                    }
                    checked += 1;
                }
                for a in &answers {
                    let st = match a {
                        None => St::Absent,
                        Some((off, name)) => {
                            let found = (1..=2u8).find(|&v| utoff_of(n, v) == *off);
                            match found {
                                Some(v) => {
                                    if name.as_deref() != Some(NAMES[n]) {
                                        r.viol(sec, "get/not-canonical-spelling", case(), format!("iana_name {:?}, want {}", name, NAMES[n]));
                                    }
                                    St::V(v)
                                }
                                None => {
                                    r.viol(sec, "get/returns-data-of-no-version-of-that-name", case(), format!("offset {} name {:?} for query {}", off, name, NAMES[n]));
                                    continue;
                                }
                            }
                        }
                    };
                    if !adm.contains(&st) {
                        let class = if adm.len() == 1 { "fresh-state-determined" } else { "window" };
                        r.viol(
                            sec,
                            &format!("get/answer-not-admissible:{}", class),
                            case(),
                            format!("answered {:?}; states of {} on disk during [t-TTL|reset, t] = {:?} (t={})", st, NAMES[n], adm, now),
                        );
                    }
                }
                if answers.windows(2).any(|w| w[0] != w[1]) {
                    r.viol(sec, "get/case-variants-disagree", case(), format!("{:?}", answers));
                }
                r.outcome(&format!("{:?}", answers[0].as_ref().map(|x| x.0)), 1);
            }
            Ev::GetUnknown => {
                for q in ["Does/NotExist", "A", "A/", "B/x"] {
                    match guard(|| db.get(q).ok()) {
                        Err(p) => r.viol(sec, &format!("get/{}", panic_sig(&p)), case(), p),
                        Ok(Some(tz)) => r.viol(sec, "get/unknown-name-found", case(), format!("{} -> {:?}", q, observe(&tz))),
                        Ok(None) => {}
                    }
                    checked += 1;
                }
            }
            Ev::Available => match guard(|| db.available().map(|n| n.as_str().to_string()).collect::<Vec<_>>()) {
                Err(p) => r.viol(sec, &format!("available/{}", panic_sig(&p)), case(), p),
                Ok(list) => {
                    checked += 1;
                    for n in 0..3 {
                        let adm = lines[n].admissible(now, reset_seq);
                        let listed = list.iter().any(|x| x == NAMES[n]);
                        if listed && adm == vec![St::Absent] {
                            r.viol(sec, "available/lists-name-absent-for-whole-window", case(), format!("{} listed in {:?}", NAMES[n], list));
                        }
                        if !listed && !adm.contains(&St::Absent) {
                            r.viol(sec, "available/misses-name-present-for-whole-window", case(), format!("{} not in {:?}", NAMES[n], list));
                        }
                    }
                    if list.iter().any(|x| !NAMES.contains(&x.as_str())) {
                        r.viol(sec, "available/lists-unknown-name", case(), format!("{:?}", list));
                    }
                }
            },
        }
    }
    checked
}

fn history_of(mut idx: u64, alpha: &[Ev], depth: usize) -> Vec<Ev> {
    let mut v = Vec::with_capacity(depth);
    for _ in 0..depth {
        v.push(alpha[(idx % alpha.len() as u64) as usize]);
        idx /= alpha.len() as u64;
    }
    v
}

fn main() {
    let args: Vec<String> = std::env::args().collect();
    let worker = args.iter().position(|a| a == "--worker").map(|i| args[i + 1].clone());
    let r = Report::from_args("C19");
    let alpha = alphabet();
    let depth = if r.quick() { 4 } else { 5 };
    let total = (alpha.len() as u64).pow(depth as u32);

    if let Some(w) = worker {
        // worker: "<kind>:<i>/<n>"
        let (kind_s, rest) = w.split_once(':').unwrap();
        let (i, n) = rest.split_once('/').unwrap();
        let (i, n): (u64, u64) = (i.parse().unwrap(), n.parse().unwrap());
        let kind = if kind_s == "dir" { Kind::ZoneinfoDir } else { Kind::Concatenated };
        let sec = if kind == Kind::ZoneinfoDir { "seq-zoneinfo-dir" } else { "seq-concatenated" };
        let root = PathBuf::from(format!("/verif/.build/c19/{}-{}-{}", kind_s, std::process::id(), i));
        let _ = std::fs::remove_dir_all(&root);
        std::fs::create_dir_all(&root).unwrap();
        let mut disk = Disk { kind, root: root.clone(), mtime_ctr: 0, older: false, state: [St::Absent; 3] };
        let mut lookups = 0;
        let mut hists = 0;
        // the concatenated back-end gets one level less depth (its get() path has no name index)
        let (d, tot) = if kind == Kind::Concatenated { (depth - 1, (alpha.len() as u64).pow(depth as u32 - 1)) } else { (depth, total) };
        let mut idx = i;
        while idx < tot {
            let evs = history_of(idx, &alpha, d);
            let id = format!("{}#{}", kind_s, idx);
            if r.only_case.is_none() || r.only_case.as_deref().map_or(false, |c| c.starts_with(&format!("{} ", id))) {
                lookups += run_history(&r, sec, &mut disk, &evs, &id);
                hists += 1;
            }
            idx += n;
        }
        let _ = std::fs::remove_dir_all(&root);
        r.add_states(hists);
        r.add_transitions(hists * d as u64);
        r.add_validated(lookups);
        r.count(&format!("histories_{}", kind_s), hists);
        r.finish();
    }

    // parent: spawn worker processes and merge their result files
    let nworkers = 16u64;
    let exe = std::env::current_exe().unwrap();
    let tier = if r.quick() { "quick" } else { "thorough" };
    let mut merged_viol: Vec<Value> = vec![];
    for kind_s in ["dir", "concat"] {
        let sec = if kind_s == "dir" { "seq-zoneinfo-dir" } else { "seq-concatenated" };
        if let Some(s) = &r.only_section {
            if s != sec {
                continue;
            }
        }
        let t0 = std::time::Instant::now();
        let mut kids = vec![];
        for i in 0..nworkers {
            let out = format!("/verif/.build/out/C19-worker-{}-{}.json", kind_s, i);
            let _ = std::fs::remove_file(&out);
            let mut cmd = std::process::Command::new(&exe);
            cmd.args(["--tier", tier, "--out", &out, "--worker", &format!("{}:{}/{}", kind_s, i, nworkers)]);
            if let Some(c) = &r.only_case {
                cmd.args(["--only-case", c]);
            }
            kids.push((out, cmd.spawn().expect("spawn worker")));
        }
        for (out, mut k) in kids {
            let st = k.wait().unwrap();
            let Ok(text) = std::fs::read_to_string(&out) else {
                eprintln!("ENGINE-FAILURE: worker produced no result ({:?})", st);
                std::process::exit(2);
            };
            let v: Value = serde_json::from_str(&text).unwrap();
            r.add_states(v["states"].as_u64().unwrap_or(0));
            r.add_transitions(v["transitions"].as_u64().unwrap_or(0));
            r.add_validated(v["traces_validated_against_impl"].as_u64().unwrap_or(0));
            for (k2, c) in v["counters"].as_object().unwrap() {
                r.count(k2, c.as_u64().unwrap_or(0));
            }
            for (k2, c) in v["outcomes"].as_object().unwrap() {
                r.outcome(k2, c.as_u64().unwrap_or(0));
            }
            for viol in v["violations"].as_array().unwrap() {
                merged_viol.push(viol.clone());
            }
            let _ = std::fs::remove_file(&out);
        }
        eprintln!("[C19] section {} done in {:.2}s", sec, t0.elapsed().as_secs_f64());
    }
    // re-inject the workers' violations (minimal case per signature is kept by Report)
    let only = r.only_case.clone();
    for v in merged_viol {
        let n = v["count"].as_u64().unwrap_or(1);
        let case = v["case"].as_str().unwrap().to_string();
        if only.is_some() && only.as_deref() != Some(case.as_str()) {
            continue;
        }
        for _ in 0..n.min(1) {
            r.viol(v["section"].as_str().unwrap(), v["sig"].as_str().unwrap(), case.clone(), v["detail"].as_str().unwrap());
        }
        if n > 1 {
            r.count(&format!("violations[{}]", v["sig"].as_str().unwrap()), n);
        }
    }
    r.sample(json!({"alphabet": format!("{:?}", alpha), "depth": depth, "histories_zoneinfo_dir": total,
        "monitor": "answer in {state of the name's data on disk at some time in [max(t-TTL, t_reset), t]}; case variants agree; canonical spelling; no panic"}));
    if r.only_section.is_none() && r.only_case.is_none() {
        r.require(r.get_count("histories_dir") == total, "all zoneinfo-dir histories executed");
    }
    r.finish();
}
