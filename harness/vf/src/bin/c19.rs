//! C19 (sequential part): time zone database lookups are coherent under
//! caching, refresh and reset. E2: every history of events up to the depth
//! bound is executed from a fresh directory/file and a fresh database, with no
//! state merging. "TTL elapsed" is an event: the monotonic clock jiff's caches
//! read is advanced through the `jiff_verif` hook.
//!
//! Property-level monitor (the only source of violations): at (fake) time t,
//! `get(n)` must answer with one of the states the data of name `n` had on
//! disk at some time in the window [max(t - TTL, t_reset), t], where a state
//! is "absent" (or not loadable: unparsable data, a directory) or a file
//! version; in particular, when the window holds a single state the answer is
//! determined. Every returned zone must carry the canonical spelling, the
//! three case variants issued within one event must agree, and nothing may
//! panic.
//!
//! Reuse clause ("an unchanged file is reused"): revalidation is by
//! modification time by design, so the harness has a *stealth* event that
//! replaces a file's content while keeping its modification time. It is the
//! instrument that makes re-reading observable without tracing system calls:
//! an entry that answered with the content belonging to the modification time
//! still on disk must keep answering with that content (whatever time passes)
//! until the modification time changes or `reset()` is called - after which
//! the documented "will need to re-read time zone data from disk" makes the
//! new content mandatory.
//!
//! Sections (each a complete enumeration of its declared alphabet, on both
//! back-ends):
//!   seq-*            three names, 22 events, nothing cached at the start;
//!   seq-*-deep       one name in focus with both sorted neighbours cached by
//!                    a fixed prefix; adds stealth replacement, unparsable
//!                    data, file -> directory (whole-file damage for the
//!                    concatenated back-end), a second name differing only in
//!                    case, and advances of TTL-1 s / 1 s / TTL+1 s;
//!   seq-*-revalidated  the same alphabet after a prefix in which the entry in
//!                    focus was cached, expired and revalidated once;
//!   seq-*-solo       a database holding a single zone, so that the directory
//!                    (index) can become empty and a names refresh can fail;
//!                    the zoneinfo flavour opens the database through
//!                    `TimeZoneDatabase::from_env()` with `TZDIR` set;
//!   open-edge        constructors on missing/empty/invalid inputs, `none()`;
//!   replaced-during-read  a replacement that lands inside a lookup (named pipe);
//!   seq-bundled      the bundled back-end's global sorted cache.
//!
//! The fake clock is process-global, so histories are sharded over worker
//! *processes* (never threads).

use jiff::tz::{TimeZone, TimeZoneDatabase};
use jiff::Timestamp;
use serde_json::{json, Value};
use std::path::{Path, PathBuf};
use std::time::{Duration, SystemTime};
use vf::{guard, panic_sig, Report};

const TTL: u64 = 300;
const HALF: u64 = 151; // two of these exceed the TTL, one does not
const FULL: u64 = 301;
const NAMES: [&str; 3] = ["A/x", "B", "c/Y"];
/// A second file whose name differs from `NAMES[1]` only in ASCII case
/// (file index 3 throughout).
const TWIN: &str = "b";
const NFILES: usize = 4;

fn file_name(k: usize) -> &'static str {
    if k < 3 {
        NAMES[k]
    } else {
        TWIN
    }
}

/// A minimal TZif v2 file: no transitions, one local time type, a footer.
fn tiny_tzif(utoff: i32, abbr: &str) -> Vec<u8> {
    let mut block = |v: u8| -> Vec<u8> {
        let mut b = vec![];
        b.extend_from_slice(b"TZif");
        b.push(v);
        b.extend_from_slice(&[0u8; 15]);
        for n in [0u32, 0, 0, 0, 1, abbr.len() as u32 + 1] {
            b.extend_from_slice(&n.to_be_bytes());
        }
        b.extend_from_slice(&utoff.to_be_bytes());
        b.push(0); // isdst
        b.push(0); // abbrind
        b.extend_from_slice(abbr.as_bytes());
        b.push(0);
        b
    };
    let mut out = block(b'2');
    out.extend(block(b'2'));
    // POSIX offsets are positive west
    let p = -utoff;
    let sign = if p < 0 { "-" } else { "" };
    let a = p.abs();
    let off = if a % 3600 == 0 { format!("{}{}", sign, a / 3600) } else { format!("{}{}:{:02}", sign, a / 3600, (a % 3600) / 60) };
    out.extend_from_slice(format!("\n{}{}\n", abbr, off).as_bytes());
    out
}

/// Data that passes the "starts with TZif" sniff of the directory walk but is
/// not a TZif file (the header is cut short).
fn bad_tzif() -> Vec<u8> {
    let mut b = b"TZif2".to_vec();
    b.extend_from_slice(&[0u8; 15]);
    b.extend_from_slice(&[0, 0, 0, 9]);
    b
}

/// utoff that identifies (file index, version) uniquely.
fn utoff_of(name: usize, version: u8) -> i32 {
    (name as i32 * 2 + version as i32) * 3600 + 1800
}
fn abbr_of(name: usize, version: u8) -> String {
    // the second version's data is a few bytes longer, so that toggling one
    // zone's version shifts the position of every later zone inside the
    // concatenated file while the number of zones stays the same
    format!("{}{}", ["AAA", "BBB", "CCC", "TWN"][name], ["V", "WXYZ"][version as usize - 1])
}

#[derive(Clone, Copy, PartialEq, Eq, Debug, PartialOrd, Ord)]
enum St {
    Absent,
    V(u8),
    /// present, sniffed as TZif, not parsable: a lookup must fail
    Bad,
    /// the path is a directory: a lookup must fail
    Dir,
}

impl St {
    /// Would a scan of the disk list this name?
    fn listable(self) -> bool {
        matches!(self, St::V(_) | St::Bad)
    }
}

/// What a lookup answered / may answer: nothing, or (file index, version).
#[derive(Clone, Copy, PartialEq, Eq, Debug, PartialOrd, Ord)]
enum Ans {
    None,
    Z(usize, u8),
}

fn ans_of(file: usize, st: St) -> Ans {
    match st {
        St::V(v) => Ans::Z(file, v),
        _ => Ans::None,
    }
}

#[derive(Clone, Copy, Debug, PartialEq, Eq)]
enum Ev {
    /// get(name) issued as three case variants, starting with variant `first`
    Get(usize, u8),
    GetUnknown,
    Available,
    Reset,
    /// toggle to the other version (or create with v1)
    Write(usize),
    /// like Write, but the new file carries a modification time OLDER than
    /// anything seen so far (a restored backup, `cp -p`, a tzdata downgrade)
    WriteOld(usize),
    Touch(usize),
    Remove(usize),
    Advance(u64),
    /// like Write, but the modification time is the one the file has (or had
    /// before it was removed): invisible to revalidation by design
    Stealth(usize),
    /// replace by data that is not TZif (new modification time)
    WriteBad(usize),
    /// zoneinfo: the file becomes a directory; concatenated: the whole file is
    /// cut off after its index block (every entry's data is gone)
    ToDir(usize),
    /// create / remove the file `b` next to `B`
    Twin,
}

/// The original 22-event alphabet (sections seq-zoneinfo-dir, seq-concatenated).
fn alphabet() -> Vec<Ev> {
    let mut v = vec![];
    for n in 0..3 {
        for c in 0..3 {
            v.push(Ev::Get(n, c));
        }
    }
    v.push(Ev::GetUnknown);
    v.push(Ev::Available);
    v.push(Ev::Reset);
    for n in 0..3 {
        v.push(Ev::Write(n));
    }
    v.push(Ev::WriteOld(0));
    v.push(Ev::Touch(1));
    for n in 0..3 {
        v.push(Ev::Remove(n));
    }
    v.push(Ev::Advance(HALF));
    v.push(Ev::Advance(FULL));
    v
}

/// Focus on `B` with `A/x` and `c/Y` cached around it.
fn alphabet_deep(quick: bool) -> Vec<Ev> {
    let mut v = vec![
        Ev::Get(1, 0),
        Ev::Get(2, 1),
        Ev::Available,
        Ev::Reset,
        Ev::Write(1),
        Ev::Stealth(1),
        Ev::WriteBad(1),
        Ev::Remove(1),
        Ev::ToDir(1),
        Ev::Twin,
        Ev::Advance(TTL - 1),
        Ev::Advance(TTL + 1),
    ];
    if !quick {
        v.push(Ev::Advance(1)); // TTL-1 then 1: exactly the TTL; then 1 more: TTL+1
    }
    v
}

/// A database with a single zone: removing it empties the directory / index.
fn alphabet_solo(quick: bool) -> Vec<Ev> {
    let mut v = vec![
        Ev::Get(1, 0),
        Ev::GetUnknown,
        Ev::Available,
        Ev::Reset,
        Ev::Write(1),
        Ev::WriteBad(1),
        Ev::Remove(1),
        Ev::Advance(HALF),
        Ev::Advance(FULL),
    ];
    if !quick {
        v.push(Ev::Stealth(1));
        v.push(Ev::ToDir(1));
    }
    v
}

fn variant(name: &str, c: u8) -> String {
    match c {
        0 => name.to_string(),
        1 => name.to_ascii_uppercase(),
        _ => name.to_ascii_lowercase(),
    }
}

#[derive(Clone, Copy, PartialEq, Eq, Debug)]
enum Kind {
    ZoneinfoDir,
    Concatenated,
}

/// How the database of a section is opened.
#[derive(Clone, Copy, PartialEq, Eq)]
enum Open {
    Explicit,
    /// `TimeZoneDatabase::from_env()` with `TZDIR` pointing at the scratch directory
    FromEnv,
}

struct Sect {
    key: &'static str,
    name: &'static str,
    kind: Kind,
    alpha: Vec<Ev>,
    prefix: Vec<Ev>,
    depth: usize,
    init: [St; NFILES],
    /// may the last zone be removed?
    allow_empty: bool,
    open: Open,
}

impl Sect {
    fn total(&self) -> u64 {
        (self.alpha.len() as u64).pow(self.depth as u32)
    }
}

fn sections(quick: bool) -> Vec<Sect> {
    let a = St::Absent;
    let v1 = St::V(1);
    let depth = if quick { 4 } else { 5 };
    let deep_prefix = vec![Ev::Get(0, 0), Ev::Get(2, 0)];
    let reval_prefix = vec![Ev::Get(0, 0), Ev::Get(2, 0), Ev::Get(1, 0), Ev::Advance(FULL), Ev::Get(1, 0)];
    vec![
        Sect { key: "dir", name: "seq-zoneinfo-dir", kind: Kind::ZoneinfoDir, alpha: alphabet(), prefix: vec![], depth, init: [v1, v1, a, a], allow_empty: false, open: Open::Explicit },
        Sect { key: "concat", name: "seq-concatenated", kind: Kind::Concatenated, alpha: alphabet(), prefix: vec![], depth, init: [v1, v1, a, a], allow_empty: false, open: Open::Explicit },
        Sect { key: "dir-deep", name: "seq-zoneinfo-dir-deep", kind: Kind::ZoneinfoDir, alpha: alphabet_deep(quick), prefix: deep_prefix.clone(), depth: if quick { 5 } else { 6 }, init: [v1, v1, v1, a], allow_empty: false, open: Open::Explicit },
        Sect { key: "concat-deep", name: "seq-concatenated-deep", kind: Kind::Concatenated, alpha: alphabet_deep(quick), prefix: deep_prefix, depth: if quick { 5 } else { 6 }, init: [v1, v1, v1, a], allow_empty: false, open: Open::Explicit },
        // the entry in focus has been revalidated once already (its expiry was
        // re-armed by `revalidate`, not by a load)
        Sect { key: "dir-reval", name: "seq-zoneinfo-dir-revalidated", kind: Kind::ZoneinfoDir, alpha: alphabet_deep(quick), prefix: reval_prefix.clone(), depth: if quick { 4 } else { 5 }, init: [v1, v1, v1, a], allow_empty: false, open: Open::Explicit },
        Sect { key: "concat-reval", name: "seq-concatenated-revalidated", kind: Kind::Concatenated, alpha: alphabet_deep(quick), prefix: reval_prefix, depth: if quick { 4 } else { 5 }, init: [v1, v1, v1, a], allow_empty: false, open: Open::Explicit },
        Sect { key: "dir-solo", name: "seq-zoneinfo-dir-solo", kind: Kind::ZoneinfoDir, alpha: alphabet_solo(quick), prefix: vec![], depth: if quick { 5 } else { 6 }, init: [a, v1, a, a], allow_empty: true, open: Open::FromEnv },
        Sect { key: "concat-solo", name: "seq-concatenated-solo", kind: Kind::Concatenated, alpha: alphabet_solo(quick), prefix: vec![], depth: if quick { 5 } else { 6 }, init: [a, v1, a, a], allow_empty: true, open: Open::Explicit },
    ]
}

#[derive(Clone, Copy, PartialEq, Eq)]
enum Stamp {
    Fresh,
    Older,
    Same,
}

struct Disk {
    kind: Kind,
    root: PathBuf,
    mtime_ctr: u64,
    /// logical content per file
    state: [St; NFILES],
    /// zoneinfo: the modification time last given to each file (kept across removal)
    mtime: [Option<SystemTime>; NFILES],
    /// identity of that modification time (0: never written)
    mid: [u64; NFILES],
    /// concatenated: the file's modification time and its identity
    file_mtime: Option<SystemTime>,
    file_mid: u64,
    /// concatenated: the data block is cut off
    damaged: bool,
    hdr_toggle: bool,
}

impl Disk {
    fn new(kind: Kind, root: PathBuf) -> Disk {
        Disk { kind, root, mtime_ctr: 0, state: [St::Absent; NFILES], mtime: [None; NFILES], mid: [0; NFILES], file_mtime: None, file_mid: 0, damaged: false, hdr_toggle: false }
    }
    fn next_mtime(&mut self, older: bool) -> (SystemTime, u64) {
        self.mtime_ctr += 1;
        let t = if older {
            SystemTime::UNIX_EPOCH + Duration::from_secs(1_500_000_000 - self.mtime_ctr * 7)
        } else {
            SystemTime::UNIX_EPOCH + Duration::from_secs(1_600_000_000 + self.mtime_ctr * 7)
        };
        (t, self.mtime_ctr)
    }
    fn zone_path(&self, n: usize) -> PathBuf {
        self.root.join(file_name(n))
    }
    fn concat_path(&self) -> PathBuf {
        self.root.join("tzdata")
    }
    fn write_file(path: &Path, bytes: &[u8], mtime: SystemTime) {
        if let Some(p) = path.parent() {
            std::fs::create_dir_all(p).unwrap();
        }
        // write to a temp name and rename: a reader never sees a torn file
        let tmp = path.with_extension("tmp~");
        std::fs::write(&tmp, bytes).unwrap();
        let f = std::fs::File::options().write(true).open(&tmp).unwrap();
        f.set_modified(mtime).unwrap();
        drop(f);
        std::fs::rename(&tmp, path).unwrap();
    }
    fn bytes_of(k: usize, st: St) -> Option<Vec<u8>> {
        match st {
            St::V(v) => Some(tiny_tzif(utoff_of(k, v), &abbr_of(k, v))),
            St::Bad => Some(bad_tzif()),
            St::Absent | St::Dir => None,
        }
    }
    /// The state of name `n` as a lookup can see it.
    fn effective(&self, n: usize) -> St {
        if self.kind == Kind::Concatenated && self.damaged && self.state[n] != St::Absent {
            return St::Bad;
        }
        self.state[n]
    }
    /// Identity of the modification time a revalidation of name `n` would read (0: no file).
    fn mid_eff(&self, n: usize) -> u64 {
        match self.kind {
            Kind::ZoneinfoDir => {
                if self.state[n] == St::Absent {
                    0
                } else {
                    self.mid[n]
                }
            }
            Kind::Concatenated => {
                if self.state[n] == St::Absent {
                    0
                } else {
                    self.file_mid
                }
            }
        }
    }
    /// Put name `n` into state `st` on disk.
    fn set(&mut self, n: usize, st: St, stamp: Stamp) {
        match self.kind {
            Kind::ZoneinfoDir => {
                let path = self.zone_path(n);
                if self.state[n] == St::Dir {
                    let _ = std::fs::remove_dir(&path);
                }
                let (m, id) = match (stamp, self.mtime[n]) {
                    (Stamp::Same, Some(m)) => (m, self.mid[n]),
                    (Stamp::Older, _) => self.next_mtime(true),
                    _ => self.next_mtime(false),
                };
                match st {
                    St::Absent => {
                        let _ = std::fs::remove_file(&path);
                    }
                    St::Dir => {
                        let _ = std::fs::remove_file(&path);
                        std::fs::create_dir_all(&path).unwrap();
                        if let Ok(f) = std::fs::File::open(&path) {
                            let _ = f.set_modified(m);
                        }
                        self.mtime[n] = Some(m);
                        self.mid[n] = id;
                    }
                    St::V(_) | St::Bad => {
                        Disk::write_file(&path, &Disk::bytes_of(n, st).unwrap(), m);
                        self.mtime[n] = Some(m);
                        self.mid[n] = id;
                    }
                }
                self.state[n] = st;
            }
            Kind::Concatenated => {
                if st == St::Dir {
                    self.damaged = true;
                } else {
                    self.damaged = false;
                    self.state[n] = st;
                }
                self.write_concat(stamp);
            }
        }
    }
    fn write_concat(&mut self, stamp: Stamp) {
        let (m, id) = match (stamp, self.file_mtime) {
            (Stamp::Same, Some(m)) => (m, self.file_mid),
            (Stamp::Older, _) => self.next_mtime(true),
            _ => self.next_mtime(false),
        };
        let mut index = vec![];
        let mut data = vec![];
        // index order: A/x, B, b, c/Y
        for k in [0usize, 1, 3, 2] {
            if let Some(bytes) = Disk::bytes_of(k, self.state[k]) {
                let nm = file_name(k);
                let mut e = [0u8; 52];
                e[..nm.len()].copy_from_slice(nm.as_bytes());
                e[40..44].copy_from_slice(&(data.len() as u32).to_be_bytes());
                e[44..48].copy_from_slice(&(bytes.len() as u32).to_be_bytes());
                index.extend_from_slice(&e);
                data.extend_from_slice(&bytes);
            }
        }
        // the version in the header alternates between rewrites
        self.hdr_toggle = !self.hdr_toggle;
        let mut out = vec![];
        out.extend_from_slice(if self.hdr_toggle { b"tzdata2025b\0" } else { b"tzdata2024a\0" });
        let io = 24u32;
        let dof = io + index.len() as u32;
        out.extend_from_slice(&io.to_be_bytes());
        out.extend_from_slice(&dof.to_be_bytes());
        out.extend_from_slice(&(dof + data.len() as u32).to_be_bytes());
        out.extend_from_slice(&index);
        if !self.damaged {
            out.extend_from_slice(&data);
        }
        Disk::write_file(&self.concat_path(), &out, m);
        self.file_mtime = Some(m);
        self.file_mid = id;
    }
    fn reset_to(&mut self, init: [St; NFILES]) {
        match self.kind {
            Kind::ZoneinfoDir => {
                for n in 0..NFILES {
                    if self.state[n] != St::Absent || init[n] != St::Absent {
                        self.set(n, init[n], Stamp::Fresh);
                    }
                    if init[n] == St::Absent {
                        self.mtime[n] = None;
                        self.mid[n] = 0;
                    }
                }
            }
            Kind::Concatenated => {
                self.state = init;
                self.damaged = false;
                self.write_concat(Stamp::Fresh);
            }
        }
    }
    fn open(&self, how: Open) -> Result<TimeZoneDatabase, String> {
        match (self.kind, how) {
            (Kind::ZoneinfoDir, Open::FromEnv) => Ok(TimeZoneDatabase::from_env()),
            (Kind::ZoneinfoDir, Open::Explicit) => TimeZoneDatabase::from_dir(&self.root).map_err(|e| e.to_string()),
            (Kind::Concatenated, _) => TimeZoneDatabase::from_concatenated_path(self.concat_path()).map_err(|e| e.to_string()),
        }
    }
    fn present(&self) -> usize {
        (0..NFILES).filter(|&k| self.state[k] != St::Absent).count()
    }
}

/// One stretch of a name's time line.
#[derive(Clone, Copy)]
struct Ent {
    /// fake time the state began
    t: u64,
    /// sequence number of the event that began it
    seq: usize,
    st: St,
    /// identity of the modification time (0: no file)
    mid: u64,
}

/// Time line of one file's disk state.
struct Line(Vec<Ent>);
impl Line {
    fn since_reset(&self, i: usize, reset_seq: usize) -> bool {
        match self.0.get(i + 1) {
            None => true,
            Some(e) => e.seq > reset_seq,
        }
    }
    fn in_window(&self, i: usize, now: u64, reset_seq: usize) -> bool {
        let lo = now.saturating_sub(TTL);
        match self.0.get(i + 1) {
            None => true, // the current state
            Some(e) => e.t >= lo && e.seq > reset_seq,
        }
    }
    /// States in force at some moment that is both within the last TTL (by the
    /// fake clock, boundaries inclusive) and after the last reset (by event
    /// order). With `same_mtime`, also the states (since the last reset) that
    /// carried the modification time of one of those: revalidation cannot tell
    /// them apart, by design.
    fn admissible(&self, now: u64, reset_seq: usize, same_mtime: bool) -> Vec<St> {
        let mut out = vec![];
        let mut mids = vec![];
        for (i, e) in self.0.iter().enumerate() {
            if self.in_window(i, now, reset_seq) {
                out.push(e.st);
                if e.mid != 0 {
                    mids.push(e.mid);
                }
            }
        }
        if same_mtime {
            for (i, e) in self.0.iter().enumerate() {
                if e.mid != 0 && mids.contains(&e.mid) && self.since_reset(i, reset_seq) {
                    out.push(e.st);
                }
            }
        }
        out.sort();
        out.dedup();
        out
    }
    /// Do all states of the window carry modification time `mid`? (Then an
    /// entry validated within the window was validated against `mid`.)
    fn window_all_mid(&self, now: u64, reset_seq: usize, mid: u64) -> bool {
        self.0.iter().enumerate().all(|(i, e)| !self.in_window(i, now, reset_seq) || e.mid == mid)
    }
    /// Was version `v` on disk (since the last reset) under modification time `mid`?
    fn had(&self, v: u8, mid: u64, reset_seq: usize) -> bool {
        self.0.iter().enumerate().any(|(i, e)| e.st == St::V(v) && e.mid == mid && self.since_reset(i, reset_seq))
    }
    fn ever_present(&self) -> bool {
        self.0.iter().any(|e| e.st != St::Absent)
    }
}

fn observe(tz: &TimeZone) -> (i32, Option<String>) {
    (tz.to_offset(Timestamp::UNIX_EPOCH).seconds(), tz.iana_name().map(|s| s.to_string()))
}

/// Which (file, version) carries this offset?
fn decode(off: i32) -> Option<(usize, u8)> {
    for k in 0..NFILES {
        for v in 1..=2u8 {
            if utoff_of(k, v) == off {
                return Some((k, v));
            }
        }
    }
    None
}

#[derive(Default)]
struct Tally {
    checked: u64,
    reuse_required: u64,
    reuse_required_content_differs: u64,
    reuse_required_after_ttl: u64,
    lookups_unloadable_determined: u64,
    lookups_after_reset_of_stealth_change: u64,
    twin_answers: u64,
    twin_none_while_one_twin_loadable: u64,
    available_excluded_empty_disk: u64,
    available_checked: u64,
}

/// Run one history.
fn run_history(r: &Report, s: &Sect, disk: &mut Disk, evs: &[Ev], hist_id: &str, tl: &mut Tally) {
    let sec = s.name;
    disk.reset_to(s.init);
    let db = match disk.open(s.open) {
        Ok(db) => db,
        Err(e) => {
            r.viol(sec, "open/fails", hist_id.to_string(), e);
            return;
        }
    };
    // "A TimeZoneDatabase can be cheaply cloned. It will share a thread safe
    // cache with other copies": the second case variant of every lookup and
    // every other reset go through a clone.
    let db2 = db.clone();
    let mut now: u64 = 0; // fake seconds since the database was opened
    let mut reset_seq: usize = 0;
    let mut lines: Vec<Line> = (0..NFILES).map(|n| Line(vec![Ent { t: 0, seq: 0, st: disk.effective(n), mid: disk.mid_eff(n) }])).collect();
    // reuse monitor: the last answer of each name that was the content
    // belonging to the modification time then on disk: (answer, seq, fake time)
    let mut last_ans: [Option<(Ans, usize, u64)>; 3] = [None; 3];
    // sequence number of the last event that changed the modification time a lookup of the name depends on
    let mut chg_seq: [usize; 3] = [0; 3];
    // sequence number of the last stealth change per name
    let mut stealth_seq: [usize; 3] = [0; 3];
    // global time line: (fake time, seq, state of every file) at every disk event
    let snapshot = |d: &Disk| -> [St; NFILES] { [d.effective(0), d.effective(1), d.effective(2), d.effective(3)] };
    let mut glob: Vec<(u64, usize, [St; NFILES])> = vec![(0, 0, snapshot(disk))];
    for (step, ev) in evs.iter().enumerate() {
        let case = || format!("{} step {} of {:?}", hist_id, step, evs);
        let seq = step + 1;
        let mut disk_event: Option<(usize, bool)> = None; // (file, changes the modification time)
        match *ev {
            Ev::Advance(secs) => {
                jiff::__verif_advance_monotonic(Duration::from_secs(secs));
                now += secs;
            }
            Ev::Reset => {
                let which = if seq % 2 == 0 { &db2 } else { &db };
                if let Err(p) = guard(|| which.reset()) {
                    r.viol(sec, &format!("reset/{}", panic_sig(&p)), case(), p);
                }
                reset_seq = seq;
            }
            Ev::Write(n) | Ev::WriteOld(n) | Ev::Stealth(n) => {
                let next = match disk.state[n] {
                    St::V(1) => St::V(2),
                    St::V(_) => St::V(1),
                    _ => St::V(1),
                };
                let stamp = match *ev {
                    Ev::WriteOld(_) => Stamp::Older,
                    Ev::Stealth(_) => Stamp::Same,
                    _ => Stamp::Fresh,
                };
                disk.set(n, next, stamp);
                disk_event = Some((n, stamp != Stamp::Same));
                if stamp == Stamp::Same && n < 3 {
                    stealth_seq[n] = seq;
                }
            }
            Ev::Touch(n) => {
                if matches!(disk.state[n], St::V(_)) {
                    disk.set(n, disk.state[n], Stamp::Fresh);
                    disk_event = Some((n, true));
                }
            }
            Ev::WriteBad(n) => {
                disk.set(n, St::Bad, Stamp::Fresh);
                disk_event = Some((n, true));
            }
            Ev::ToDir(n) => {
                disk.set(n, St::Dir, Stamp::Fresh);
                disk_event = Some((n, true));
            }
            Ev::Twin => {
                let next = if disk.state[3] == St::Absent { St::V(1) } else { St::Absent };
                if next != St::Absent || disk.present() > 1 {
                    disk.set(3, next, Stamp::Fresh);
                    disk_event = Some((3, true));
                }
            }
            Ev::Remove(n) => {
                // the main sections keep at least one zone on disk
                let others = (0..NFILES).filter(|&k| k != n && disk.state[k] != St::Absent).count();
                if disk.state[n] != St::Absent && (others > 0 || s.allow_empty) {
                    disk.set(n, St::Absent, Stamp::Fresh);
                    disk_event = Some((n, true));
                }
            }
            Ev::Get(n, first) => {
                // answers the window admits (plus same-modification-time content)
                let mut adm: Vec<Ans> = lines[n].admissible(now, reset_seq, true).into_iter().map(|st| ans_of(n, st)).collect();
                let twin_in_play = n == 1 && lines[3].ever_present();
                if twin_in_play {
                    // Excluded from the stated property (lookups ignore ASCII
                    // case, so with `B` and `b` both known to the database it
                    // is unspecified which of the two a query resolves to -
                    // including a twin that has meanwhile become unloadable):
                    // any answer either twin admits is admitted.
                    adm.extend(lines[3].admissible(now, reset_seq, true).into_iter().map(|st| ans_of(3, st)));
                }
                adm.sort();
                adm.dedup();
                let mut answers: Vec<Option<(i32, Option<String>)>> = vec![];
                for k in 0..3 {
                    let c = (first + k) % 3;
                    let q = variant(NAMES[n], c);
                    let which = if k == 1 { &db2 } else { &db };
                    match guard(|| which.get(&q).ok()) {
                        Err(p) => {
                            r.viol(sec, &format!("get/{}", panic_sig(&p)), case(), p);
                            return;
                        }
                        Ok(tz) => answers.push(tz.as_ref().map(observe)),
                    }
                    tl.checked += 1;
                }
                if adm == vec![Ans::None] && lines[n].admissible(now, reset_seq, true).iter().any(|st| matches!(st, St::Bad | St::Dir)) {
                    tl.lookups_unloadable_determined += 1;
                }
                if adm.len() == 1 && stealth_seq[n] != 0 && reset_seq > stealth_seq[n] && chg_seq[n] < stealth_seq[n] {
                    tl.lookups_after_reset_of_stealth_change += 1;
                }
                if twin_in_play && answers.iter().any(|a| a.is_none()) {
                    let b_ok = lines[1].admissible(now, reset_seq, true).iter().all(|st| matches!(st, St::V(_)));
                    let t_ok = lines[3].admissible(now, reset_seq, true).iter().all(|st| matches!(st, St::V(_)));
                    if b_ok || t_ok {
                        tl.twin_none_while_one_twin_loadable += 1;
                    }
                }
                let mut decoded: Vec<Ans> = vec![];
                for a in &answers {
                    let got = match a {
                        None => Ans::None,
                        Some((off, name)) => match decode(*off) {
                            Some((k, v)) if k == n || (n == 1 && k == 3) => {
                                if name.as_deref() != Some(file_name(k)) {
                                    r.viol(sec, "get/not-canonical-spelling", case(), format!("iana_name {:?}, want {}", name, file_name(k)));
                                }
                                if k == 3 {
                                    tl.twin_answers += 1;
                                }
                                Ans::Z(k, v)
                            }
                            _ => {
                                r.viol(sec, "get/returns-data-of-no-version-of-that-name", case(), format!("offset {} name {:?} for query {}", off, name, NAMES[n]));
                                continue;
                            }
                        },
                    };
                    decoded.push(got);
                    if !adm.contains(&got) {
                        let class = if adm.len() == 1 { "fresh-state-determined" } else { "window" };
                        r.viol(
                            sec,
                            &format!("get/answer-not-admissible:{}", class),
                            case(),
                            format!("answered {:?}; states of {} on disk during [t-TTL|reset, t] = {:?} (t={})", got, NAMES[n], adm, now),
                        );
                    }
                }
                if answers.windows(2).any(|w| w[0] != w[1]) {
                    r.viol(sec, "get/case-variants-disagree", case(), format!("{:?}", answers));
                }
                // reuse: an entry that answered with the content belonging to
                // the modification time still on disk keeps answering with it
                if !twin_in_play {
                    if let Some((a, p, tp)) = last_ans[n] {
                        if p > reset_seq && chg_seq[n] < p {
                            tl.reuse_required += 1;
                            let differs = ans_of(n, disk.effective(n)) != a;
                            if differs {
                                tl.reuse_required_content_differs += 1;
                            }
                            if now - tp > TTL {
                                tl.reuse_required_after_ttl += 1;
                            }
                            if decoded.iter().any(|g| *g != a) {
                                let class = if differs { "content-replaced-under-same-mtime" } else { "content-unchanged" };
                                r.viol(
                                    sec,
                                    &format!("get/unchanged-mtime-entry-not-reused:{}", class),
                                    case(),
                                    format!("answered {:?}; the lookup at step {} answered {:?} and neither the modification time changed nor reset() was called since (t={})", decoded, p - 1, a, now),
                                );
                            }
                        }
                    }
                    // arm for the next lookup
                    last_ans[n] = None;
                    if let (Some(&Ans::Z(k, v)), true) = (decoded.first(), decoded.len() == 3 && decoded.windows(2).all(|w| w[0] == w[1])) {
                        let cur = disk.mid_eff(k);
                        if cur != 0 && lines[k].window_all_mid(now, reset_seq, cur) && lines[k].had(v, cur, reset_seq) {
                            last_ans[n] = Some((Ans::Z(k, v), seq, now));
                        }
                    }
                } else {
                    last_ans[n] = None;
                }
                r.outcome(&format!("{:?}", answers[0].as_ref().map(|x| x.0)), 1);
            }
            Ev::GetUnknown => {
                for q in ["Does/NotExist", "A", "A/", "B/x"] {
                    match guard(|| db.get(q).ok()) {
                        Err(p) => r.viol(sec, &format!("get/{}", panic_sig(&p)), case(), p),
                        Ok(Some(tz)) => r.viol(sec, "get/unknown-name-found", case(), format!("{} -> {:?}", q, observe(&tz))),
                        Ok(None) => {}
                    }
                    tl.checked += 1;
                }
            }
            Ev::Available => match guard(|| db.available().map(|n| n.as_str().to_string()).collect::<Vec<_>>()) {
                Err(p) => r.viol(sec, &format!("available/{}", panic_sig(&p)), case(), p),
                Ok(list) => {
                    tl.checked += 1;
                    let adm: Vec<Vec<St>> = (0..NFILES).map(|k| lines[k].admissible(now, reset_seq, false)).collect();
                    // Excluded (in-code contract of `refresh`: "If an error occurs
                    // when fetching the names, then no names are updated"): when
                    // the disk held no name at all at some moment of the window,
                    // a refresh then failed and the last good list stands.
                    let lo = now.saturating_sub(TTL);
                    let disk_was_empty = glob.iter().enumerate().any(|(i, g)| {
                        let in_window = match glob.get(i + 1) {
                            None => true,
                            Some(nx) => nx.0 >= lo && nx.1 > reset_seq,
                        };
                        in_window && g.2.iter().all(|st| !st.listable())
                    });
                    if disk_was_empty {
                        tl.available_excluded_empty_disk += 1;
                    } else {
                        tl.available_checked += 1;
                    }
                    for k in 0..NFILES {
                        let listed = list.iter().any(|x| x == file_name(k));
                        if k == 3 && !lines[3].ever_present() {
                            continue;
                        }
                        if listed && adm[k].iter().all(|st| !st.listable()) && !disk_was_empty {
                            r.viol(sec, "available/lists-name-absent-for-whole-window", case(), format!("{} listed in {:?}", file_name(k), list));
                        }
                        if !listed && adm[k].iter().all(|st| st.listable()) {
                            r.viol(sec, "available/misses-name-present-for-whole-window", case(), format!("{} not in {:?}", file_name(k), list));
                        }
                    }
                    if list.iter().any(|x| !NAMES.contains(&x.as_str()) && !(x == TWIN && lines[3].ever_present())) {
                        r.viol(sec, "available/lists-unknown-name", case(), format!("{:?}", list));
                    }
                }
            },
        }
        if let Some((file, changes_mtime)) = disk_event {
            if changes_mtime {
                match disk.kind {
                    Kind::ZoneinfoDir => {
                        let n = if file == 3 { 1 } else { file };
                        chg_seq[n] = seq;
                    }
                    Kind::Concatenated => chg_seq = [seq; 3],
                }
            }
            glob.push((now, seq, snapshot(disk)));
            for k in 0..NFILES {
                let cur = (disk.effective(k), disk.mid_eff(k));
                let last = lines[k].0.last().unwrap();
                if (last.st, last.mid) != cur {
                    lines[k].0.push(Ent { t: now, seq, st: cur.0, mid: cur.1 });
                }
            }
        }
    }
}

fn history_of(mut idx: u64, alpha: &[Ev], depth: usize) -> Vec<Ev> {
    let mut v = Vec::with_capacity(depth);
    for _ in 0..depth {
        v.push(alpha[(idx % alpha.len() as u64) as usize]);
        idx /= alpha.len() as u64;
    }
    v
}

/// Scratch base directory (per-process subdirectories and worker result files
/// live below it). `C19_SCRATCH` overrides; the default is a memory-backed
/// directory when there is one (the histories are file-system-call bound and
/// a journalled disk shared with other jobs costs an order of magnitude), else
/// the build tree.
fn scratch_base() -> String {
    let b = match std::env::var("C19_SCRATCH") {
        Ok(b) => b,
        Err(_) => {
            let shm = "/dev/shm/verif-c19";
            if std::fs::create_dir_all(shm).is_ok() {
                shm.to_string()
            } else {
                "/verif/.build/c19".to_string()
            }
        }
    };
    let _ = std::fs::create_dir_all(&b);
    b
}

// ---------------------------------------------------------------------------
// open-edge: constructors on missing / empty / invalid inputs, none()

fn open_edge(r: &Report) {
    let sec = "open-edge";
    let root = PathBuf::from(format!("{}/edge-{}", scratch_base(), std::process::id()));
    let _ = std::fs::remove_dir_all(&root);
    std::fs::create_dir_all(&root).unwrap();
    let mut n = 0u64;
    // from_dir: "This returns an error if the given directory does not contain
    // a valid copy of the Time Zone Database. Generally, this means a
    // directory with at least one valid TZif file."
    let missing = root.join("missing");
    let empty = root.join("empty");
    std::fs::create_dir_all(&empty).unwrap();
    let nontz = root.join("nontz");
    std::fs::create_dir_all(nontz.join("sub")).unwrap();
    std::fs::write(nontz.join("README"), b"not a zone").unwrap();
    std::fs::write(nontz.join("sub/short"), b"TZ").unwrap();
    let afile = root.join("afile");
    std::fs::write(&afile, tiny_tzif(3600, "XXX")).unwrap();
    for (label, p) in [("missing", &missing), ("empty-directory", &empty), ("directory-without-tzif", &nontz), ("path-is-a-file", &afile)] {
        n += 1;
        match guard(|| TimeZoneDatabase::from_dir(p).map(|db| db.available().count())) {
            Err(pn) => r.viol(sec, &format!("from_dir/{}", panic_sig(&pn)), label.to_string(), pn),
            Ok(Ok(cnt)) => r.viol(sec, "from_dir/ok-without-any-zone", label.to_string(), format!("from_dir succeeded, available().count() = {}", cnt)),
            Ok(Err(_)) => r.outcome("open-edge: from_dir error", 1),
        }
    }
    // from_concatenated_path: "an error if the given path does not contain a
    // valid copy of the concatenated Time Zone Database"
    let c_empty = root.join("c-empty");
    std::fs::write(&c_empty, b"").unwrap();
    let c_garbage = root.join("c-garbage");
    std::fs::write(&c_garbage, vec![0x55u8; 64]).unwrap();
    let c_noentries = root.join("c-noentries");
    {
        let mut out = b"tzdata2025b\0".to_vec();
        for x in [24u32, 24, 24] {
            out.extend_from_slice(&x.to_be_bytes());
        }
        std::fs::write(&c_noentries, out).unwrap();
    }
    let c_badoffsets = root.join("c-badoffsets");
    {
        let mut out = b"tzdata2025b\0".to_vec();
        for x in [100u32, 24, 24] {
            out.extend_from_slice(&x.to_be_bytes());
        }
        std::fs::write(&c_badoffsets, out).unwrap();
    }
    let c_ragged = root.join("c-ragged-index");
    {
        let mut out = b"tzdata2025b\0".to_vec();
        for x in [24u32, 24 + 51, 24 + 51] {
            out.extend_from_slice(&x.to_be_bytes());
        }
        out.extend_from_slice(&[b'A'; 51]);
        std::fs::write(&c_ragged, out).unwrap();
    }
    let c_cutindex = root.join("c-index-beyond-eof");
    {
        let mut out = b"tzdata2025b\0".to_vec();
        for x in [24u32, 24 + 52, 24 + 52] {
            out.extend_from_slice(&x.to_be_bytes());
        }
        out.extend_from_slice(&[b'A'; 20]);
        std::fs::write(&c_cutindex, out).unwrap();
    }
    for (label, p) in [
        ("missing", &missing),
        ("path-is-a-directory", &empty),
        ("empty-file", &c_empty),
        ("garbage", &c_garbage),
        ("no-index-entries", &c_noentries),
        ("index-offset-after-data-offset", &c_badoffsets),
        ("index-length-not-a-multiple-of-52", &c_ragged),
        ("index-beyond-end-of-file", &c_cutindex),
    ] {
        n += 1;
        match guard(|| TimeZoneDatabase::from_concatenated_path(p).map(|db| db.available().count())) {
            Err(pn) => r.viol(sec, &format!("from_concatenated_path/{}", panic_sig(&pn)), label.to_string(), pn),
            Ok(Ok(cnt)) => r.viol(sec, "from_concatenated_path/ok-without-any-zone", label.to_string(), format!("succeeded, available().count() = {}", cnt)),
            Ok(Err(_)) => r.outcome("open-edge: from_concatenated_path error", 1),
        }
    }
    // none(): "a database for which all time zone lookups fail"
    n += 1;
    match guard(|| {
        let db = TimeZoneDatabase::none();
        let mut bad = vec![];
        for q in ["UTC", "Etc/Unknown", "America/New_York", "B", ""] {
            if db.get(q).is_ok() {
                bad.push(format!("get({:?}) succeeded", q));
            }
        }
        if db.available().count() != 0 {
            bad.push("available() not empty".to_string());
        }
        if !db.is_definitively_empty() {
            bad.push("is_definitively_empty() false".to_string());
        }
        db.reset();
        db.clone().reset();
        if db.get("UTC").is_ok() {
            bad.push("get(\"UTC\") succeeded after reset".to_string());
        }
        bad
    }) {
        Err(pn) => r.viol(sec, &format!("none/{}", panic_sig(&pn)), "none()".to_string(), pn),
        Ok(bad) => {
            if !bad.is_empty() {
                r.viol(sec, "none/lookup-does-not-fail", "none()".to_string(), bad.join("; "));
            } else {
                r.outcome("open-edge: none() fails everything", 1);
            }
        }
    }
    // A database whose whole directory disappears and comes back.
    n += 1;
    let live = root.join("live");
    let put = |ver: u8| {
        Disk::write_file(&live.join("B"), &tiny_tzif(utoff_of(1, ver), &abbr_of(1, ver)), SystemTime::UNIX_EPOCH + Duration::from_secs(1_600_000_000 + ver as u64));
    };
    put(1);
    match guard(|| {
        let mut bad = vec![];
        let db = TimeZoneDatabase::from_dir(&live).map_err(|e| e.to_string())?;
        let o = |db: &TimeZoneDatabase, q: &str| db.get(q).ok().map(|t| observe(&t).0);
        if o(&db, "b") != Some(utoff_of(1, 1)) {
            bad.push(format!("first get: {:?}", o(&db, "b")));
        }
        std::fs::remove_dir_all(&live).unwrap();
        db.reset();
        if o(&db, "B").is_some() {
            bad.push("get succeeded after the directory was removed and reset() called".to_string());
        }
        let av: Vec<String> = db.available().map(|n| n.as_str().to_string()).collect();
        if !av.is_empty() {
            bad.push(format!("available() after the directory was removed and reset() called: {:?}", av));
        }
        put(2);
        db.reset();
        if o(&db, "B") != Some(utoff_of(1, 2)) {
            bad.push(format!("get after the directory came back and reset(): {:?}", o(&db, "B")));
        }
        Ok::<_, String>(bad)
    }) {
        Err(pn) => r.viol(sec, &format!("from_dir-directory-removed/{}", panic_sig(&pn)), "live".to_string(), pn),
        Ok(Err(e)) => r.viol(sec, "open/fails", "open-edge live".to_string(), e),
        Ok(Ok(bad)) => {
            if !bad.is_empty() {
                r.viol(sec, "get/wrong-after-directory-removed-and-restored", "open-edge live".to_string(), bad.join("; "));
            } else {
                r.outcome("open-edge: directory removed and restored", 1);
            }
        }
    }
    let _ = std::fs::remove_dir_all(&root);
    r.add_states(n);
    r.add_transitions(n);
    r.add_validated(n);
    r.count("open_edge_cases", n);
}

// ---------------------------------------------------------------------------
// seq-bundled: the bundled back-end keeps one process-global cache, sorted by
// name, that `reset()` clears. Histories over {get(4 names x 2 spellings),
// get(unknown), available, reset}; every history starts with a reset. Oracle:
// the zone parsed directly from the bundled bytes of that name.

fn seq_bundled(r: &Report) {
    let sec = "seq-bundled";
    // first / middle / middle / last of the sorted name list, so that cache
    // insertions happen before, between and after cached names
    let names = ["Africa/Abidjan", "Asia/Tokyo", "Europe/London", "Zulu"];
    let probes: Vec<Timestamp> = [-2_000_000_000i64, 0, 1_000_000_000, 1_720_000_000, 4_000_000_000].iter().map(|&s| Timestamp::from_second(s).unwrap()).collect();
    let sig_of = |tz: &TimeZone| -> (Vec<i32>, Option<String>) { (probes.iter().map(|&p| tz.to_offset(p).seconds()).collect(), tz.iana_name().map(|s| s.to_string())) };
    let mut want = vec![];
    for n in names {
        let Some((canon, bytes)) = jiff_tzdb::get(n) else {
            r.require(false, "bundled data holds the four probe zones");
            return;
        };
        let tz = TimeZone::tzif(canon, bytes).expect("bundled TZif parses");
        want.push(sig_of(&tz));
    }
    r.require(want.iter().map(|w| &w.0).collect::<std::collections::BTreeSet<_>>().len() >= 3, "the bundled probe zones are distinguishable");
    // events: 0..8 get(name = e/2, spelling = e%2), 8 unknown, 9 available, 10 reset
    let nev = 11u64;
    let depth = if r.quick() { 4 } else { 5 };
    let total = nev.pow(depth);
    let db = TimeZoneDatabase::bundled();
    let db2 = db.clone();
    let mut lookups = 0u64;
    for idx in 0..total {
        let mut evs = vec![];
        let mut x = idx;
        for _ in 0..depth {
            evs.push(x % nev);
            x /= nev;
        }
        let id = format!("bundled#{} {:?}", idx, evs);
        if let Some(c) = &r.only_case {
            if !c.starts_with(&format!("bundled#{} ", idx)) {
                continue;
            }
        }
        db.reset();
        for (step, &e) in evs.iter().enumerate() {
            let case = || format!("{} step {}", id, step);
            let which = if step % 2 == 0 { &db } else { &db2 };
            match e {
                0..=7 => {
                    let n = (e / 2) as usize;
                    let q = if e % 2 == 0 { names[n].to_string() } else { names[n].to_ascii_lowercase() };
                    lookups += 1;
                    match guard(|| which.get(&q).ok().map(|tz| sig_of(&tz))) {
                        Err(p) => r.viol(sec, &format!("bundled-get/{}", panic_sig(&p)), case(), p),
                        Ok(None) => r.viol(sec, "bundled-get/known-name-not-found", case(), q),
                        Ok(Some(got)) => {
                            if got != want[n] {
                                let sig = if got.0 != want[n].0 { "bundled-get/returns-other-data" } else { "bundled-get/not-canonical-spelling" };
                                r.viol(sec, sig, case(), format!("get({:?}) = {:?}, want {:?}", q, got, want[n]));
                            }
                        }
                    }
                }
                8 => {
                    lookups += 1;
                    match guard(|| which.get("Does/NotExist").is_ok()) {
                        Err(p) => r.viol(sec, &format!("bundled-get/{}", panic_sig(&p)), case(), p),
                        Ok(true) => r.viol(sec, "bundled-get/unknown-name-found", case(), "Does/NotExist"),
                        Ok(false) => {}
                    }
                }
                9 => {
                    lookups += 1;
                    match guard(|| which.available().map(|n| n.as_str().to_string()).collect::<Vec<_>>()) {
                        Err(p) => r.viol(sec, &format!("bundled-available/{}", panic_sig(&p)), case(), p),
                        Ok(list) => {
                            if names.iter().any(|n| !list.iter().any(|x| x == n)) {
                                r.viol(sec, "bundled-available/misses-name", case(), format!("{} names listed", list.len()));
                            }
                        }
                    }
                }
                _ => {
                    if let Err(p) = guard(|| which.reset()) {
                        r.viol(sec, &format!("bundled-reset/{}", panic_sig(&p)), case(), p);
                    }
                }
            }
        }
    }
    r.add_states(total);
    r.add_transitions(total * depth as u64);
    r.add_validated(lookups);
    r.count("histories_bundled", total);
    r.count("bundled_lookups", lookups);
}

// ---------------------------------------------------------------------------
// replaced-during-read: the one position of a "file replaced" event that the
// histories above cannot express - *inside* a lookup, between the moment the
// zone file's bytes are read and the moment the lookup returns. It is made
// deterministic with a named pipe: the zone's path is a FIFO when the lookup
// opens it; the harness's writer thread writes the old version's bytes, then
// renames a regular file holding the NEW version over the path, and only then
// closes the pipe, so the reader sees end-of-file strictly after the
// replacement. Whatever the lookup cached (old data), once the TTL has passed
// (or after reset) the changed file must be re-read.
// ---------------------------------------------------------------------------
fn replaced_during_read(r: &Report) {
    use std::io::Write;
    use std::os::unix::ffi::OsStrExt;
    let sec = "replaced-during-read";
    let root = PathBuf::from(format!("{}/rdr-{}", scratch_base(), std::process::id()));
    let mut n = 0u64;
    // (label, what happens between the racing lookup and the judged lookup, query spelling)
    let variants: [(&str, &[&str], &str); 6] = [
        ("ttl", &["advance:301"], "B"),
        ("ttl-other-case", &["advance:301"], "b"),
        ("ttl-twice", &["advance:301", "get", "advance:301"], "B"),
        ("half-then-ttl", &["advance:151", "get", "advance:151"], "B"),
        ("reset", &["reset"], "B"),
        ("reset-then-ttl", &["reset", "get", "advance:301"], "B"),
    ];
    for (label, steps, query) in variants {
        n += 1;
        let _ = std::fs::remove_dir_all(&root);
        std::fs::create_dir_all(&root).unwrap();
        let old = SystemTime::UNIX_EPOCH + Duration::from_secs(1_600_000_000);
        let newer = SystemTime::UNIX_EPOCH + Duration::from_secs(1_600_000_777);
        Disk::write_file(&root.join("A/x"), &tiny_tzif(utoff_of(0, 1), &abbr_of(0, 1)), old);
        let path = root.join("B");
        Disk::write_file(&path, &tiny_tzif(utoff_of(1, 1), &abbr_of(1, 1)), old);
        let case = format!("replaced-during-read {}", label);
        let res = guard(|| {
            let db = TimeZoneDatabase::from_dir(&root).map_err(|e| e.to_string())?;
            // the name index now knows `B` (nothing is cached for it yet);
            // turn the path into a FIFO
            let fifo_tmp = root.join("B.fifo~");
            let c = std::ffi::CString::new(fifo_tmp.as_os_str().as_bytes()).unwrap();
            // SAFETY: plain libc call with a valid NUL-terminated path
            if unsafe { libc::mkfifo(c.as_ptr(), 0o644) } != 0 {
                return Err("mkfifo failed".to_string());
            }
            std::fs::rename(&fifo_tmp, &path).map_err(|e| e.to_string())?;
            let new_tmp = root.join("B.new~");
            std::fs::write(&new_tmp, tiny_tzif(utoff_of(1, 2), &abbr_of(1, 2))).unwrap();
            std::fs::File::options().write(true).open(&new_tmp).unwrap().set_modified(newer).unwrap();
            let (p2, n2) = (path.clone(), new_tmp.clone());
            let writer = std::thread::spawn(move || -> Result<(), String> {
                // opening a FIFO for writing blocks until the reader (the lookup) has opened it
                let mut w = std::fs::File::options().write(true).open(&p2).map_err(|e| e.to_string())?;
                w.write_all(&tiny_tzif(utoff_of(1, 1), &abbr_of(1, 1))).map_err(|e| e.to_string())?;
                // the replacement lands while the lookup is still reading ...
                std::fs::rename(&n2, &p2).map_err(|e| e.to_string())?;
                // ... and only now does the reader see end-of-file
                drop(w);
                Ok(())
            });
            // safety net: if the lookup never opens the path, unblock the writer
            let (p3, done) = (path.clone(), std::sync::Arc::new(std::sync::atomic::AtomicBool::new(false)));
            let d2 = done.clone();
            let net = std::thread::spawn(move || {
                for _ in 0..200 {
                    std::thread::sleep(Duration::from_millis(50));
                    if d2.load(std::sync::atomic::Ordering::SeqCst) {
                        return;
                    }
                }
                // O_RDWR on a FIFO never blocks: lets a stuck writer proceed
                let _ = std::fs::File::options().read(true).write(true).open(&p3);
            });
            let first = db.get("B").ok().map(|t| observe(&t));
            writer.join().map_err(|_| "writer thread panicked".to_string())??;
            done.store(true, std::sync::atomic::Ordering::SeqCst);
            let _ = net.join();
            for st in steps {
                if let Some(secs) = st.strip_prefix("advance:") {
                    jiff::__verif_advance_monotonic(Duration::from_secs(secs.parse().unwrap()));
                } else if *st == "reset" {
                    db.reset();
                } else {
                    let _ = db.get("B");
                }
            }
            let last = db.get(query).ok().map(|t| observe(&t));
            Ok::<_, String>((first, last))
        });
        let v1 = (utoff_of(1, 1), Some("B".to_string()));
        let v2 = (utoff_of(1, 2), Some("B".to_string()));
        match res {
            Err(pn) => r.viol(sec, &format!("get/{}", panic_sig(&pn)), case, pn),
            Ok(Err(e)) => {
                // the machinery (mkfifo, rename, threads) failed: not a verdict
                r.note(format!("replaced-during-read {}: machinery failed: {}", label, e));
                r.count("replaced_during_read_machinery_failed", 1);
            }
            Ok(Ok((first, last))) => {
                // the racing lookup itself may answer with either version
                if first != Some(v1.clone()) && first != Some(v2.clone()) {
                    r.viol(sec, "get/answer-not-admissible:lookup-racing-a-replacement", case.clone(), format!("{:?}", first));
                }
                if first == Some(v1) {
                    r.count("replaced_during_read_old_version_served_by_racing_lookup", 1);
                }
                if last != Some(v2) {
                    r.viol(sec, "get/answer-not-admissible:file-replaced-during-an-earlier-read", case, format!("racing lookup answered {:?}; lookup after {:?} answered {:?}; on disk since the replacement: version 2", first, steps, last));
                }
            }
        }
    }
    let _ = std::fs::remove_dir_all(&root);
    r.add_states(n);
    r.add_transitions(n * 3);
    r.add_validated(n * 2);
    r.count("replaced_during_read_cases", n);
    r.require(r.get_count("replaced_during_read_machinery_failed") == 0, "the named-pipe machinery of replaced-during-read worked");
    r.require(r.get_count("replaced_during_read_old_version_served_by_racing_lookup") > 0, "the racing lookup did read the old bytes through the pipe");
}

// ---------------------------------------------------------------------------
// root-symlink: the database is opened on a path that is a symbolic link to
// the zone directory (the usual way of switching tzdata versions atomically);
// the link is re-pointed to another directory. "The zone data currently on
// disk" is what the path given to `from_dir` leads to now: after `reset()` or
// once the TTL has passed, lookups and `available()` must follow the link.
// ---------------------------------------------------------------------------
fn root_symlink(r: &Report) {
    let sec = "root-symlink";
    let root = PathBuf::from(format!("{}/lnk-{}", scratch_base(), std::process::id()));
    let mut n = 0u64;
    for (label, steps) in [("reset", &["reset"][..]), ("ttl", &["advance:301"][..]), ("ttl-then-reset", &["advance:301", "reset"][..]), ("half-get-half", &["advance:151", "get", "advance:151"][..])] {
        n += 1;
        let _ = std::fs::remove_dir_all(&root);
        std::fs::create_dir_all(&root).unwrap();
        let t0 = SystemTime::UNIX_EPOCH + Duration::from_secs(1_600_000_000);
        let t1 = SystemTime::UNIX_EPOCH + Duration::from_secs(1_600_000_777);
        for (dir, ver, mt, with_c) in [("v1", 1u8, t0, false), ("v2", 2u8, t1, true)] {
            Disk::write_file(&root.join(dir).join("A/x"), &tiny_tzif(utoff_of(0, 1), &abbr_of(0, 1)), mt);
            Disk::write_file(&root.join(dir).join("B"), &tiny_tzif(utoff_of(1, ver), &abbr_of(1, ver)), mt);
            if with_c {
                Disk::write_file(&root.join(dir).join("c/Y"), &tiny_tzif(utoff_of(2, 1), &abbr_of(2, 1)), mt);
            }
        }
        let link = root.join("current");
        std::os::unix::fs::symlink("v1", &link).unwrap();
        let case = format!("root-symlink {}", label);
        let res = guard(|| {
            let db = TimeZoneDatabase::from_dir(&link).map_err(|e| e.to_string())?;
            let o = |q: &str| db.get(q).ok().map(|t| observe(&t).0);
            let first = (o("B"), o("c/Y"));
            // re-point the link atomically
            let tmp = root.join("current.tmp~");
            std::os::unix::fs::symlink("v2", &tmp).map_err(|e| e.to_string())?;
            std::fs::rename(&tmp, &link).map_err(|e| e.to_string())?;
            for st in steps {
                if let Some(secs) = st.strip_prefix("advance:") {
                    jiff::__verif_advance_monotonic(Duration::from_secs(secs.parse().unwrap()));
                } else if *st == "reset" {
                    db.reset();
                } else {
                    let _ = db.get("B");
                }
            }
            let last = (o("b"), o("C/y"));
            let mut av: Vec<String> = db.available().map(|n| n.as_str().to_string()).collect();
            av.sort();
            Ok::<_, String>((first, last, av))
        });
        match res {
            Err(pn) => r.viol(sec, &format!("get/{}", panic_sig(&pn)), case, pn),
            Ok(Err(e)) => r.viol(sec, "open/fails", case, e),
            Ok(Ok((first, last, av))) => {
                if first != (Some(utoff_of(1, 1)), None) {
                    r.viol(sec, "get/answer-not-admissible:before-the-link-moved", case.clone(), format!("{:?}", first));
                }
                if last != (Some(utoff_of(1, 2)), Some(utoff_of(2, 1))) {
                    r.viol(sec, "get/answer-not-admissible:root-link-re-pointed", case.clone(), format!("after {:?}: (B, c/Y) = {:?}; the directory the path leads to holds B version 2 and c/Y", steps, last));
                }
                if av != vec!["A/x".to_string(), "B".to_string(), "c/Y".to_string()] {
                    r.viol(sec, "available/not-the-names-on-disk:root-link-re-pointed", case, format!("{:?}", av));
                }
            }
        }
    }
    let _ = std::fs::remove_dir_all(&root);
    r.add_states(n);
    r.add_transitions(n * 4);
    r.add_validated(n * 5);
    r.count("root_symlink_cases", n);
}

fn main() {
    let args: Vec<String> = std::env::args().collect();
    let worker = args.iter().position(|a| a == "--worker").map(|i| args[i + 1].clone());
    let r = Report::from_args("C19");
    let sects = sections(r.quick());

    if let Some(w) = worker {
        // worker: "<section key>:<i>/<n>"
        let (key, rest) = w.split_once(':').unwrap();
        let (i, n) = rest.split_once('/').unwrap();
        let (i, n): (u64, u64) = (i.parse().unwrap(), n.parse().unwrap());
        let s = sects.iter().find(|s| s.key == key).expect("section key");
        let root = PathBuf::from(format!("{}/{}-{}-{}", scratch_base(), key, std::process::id(), i));
        let _ = std::fs::remove_dir_all(&root);
        std::fs::create_dir_all(&root).unwrap();
        if s.open == Open::FromEnv {
            // single-threaded here; from_env() reads TZDIR at every call
            std::env::set_var("TZDIR", &root);
        }
        let mut disk = Disk::new(s.kind, root.clone());
        let mut tl = Tally::default();
        let mut hists = 0;
        let tot = s.total();
        let mut idx = i;
        while idx < tot {
            let mut evs = s.prefix.clone();
            evs.extend(history_of(idx, &s.alpha, s.depth));
            let id = format!("{}#{}", key, idx);
            if r.only_case.is_none() || r.only_case.as_deref().map_or(false, |c| c.starts_with(&format!("{} ", id))) {
                run_history(&r, s, &mut disk, &evs, &id, &mut tl);
                hists += 1;
            }
            idx += n;
        }
        let _ = std::fs::remove_dir_all(&root);
        r.add_states(hists);
        r.add_transitions(hists * (s.depth + s.prefix.len()) as u64);
        r.add_validated(tl.checked);
        r.count(&format!("histories_{}", key), hists);
        r.count("reuse_required", tl.reuse_required);
        r.count("reuse_required_content_differs", tl.reuse_required_content_differs);
        r.count("reuse_required_after_ttl", tl.reuse_required_after_ttl);
        r.count(&format!("reuse_required_content_differs[{}]", key), tl.reuse_required_content_differs);
        r.count(&format!("lookups_unloadable_determined[{}]", key), tl.lookups_unloadable_determined);
        r.count(&format!("lookups_after_reset_of_stealth_change[{}]", key), tl.lookups_after_reset_of_stealth_change);
        r.count(&format!("twin_answers[{}]", key), tl.twin_answers);
        r.count(&format!("conformance_note_twin_lookup_fails_while_one_twin_loadable[{}]", key), tl.twin_none_while_one_twin_loadable);
        r.count(&format!("available_excluded_empty_disk[{}]", key), tl.available_excluded_empty_disk);
        r.count(&format!("available_checked[{}]", key), tl.available_checked);
        r.finish();
    }

    // parent: in-process sections, then worker processes whose result files are merged
    r.section("open-edge", || open_edge(&r));
    r.section("replaced-during-read", || replaced_during_read(&r));
    r.section("root-symlink", || root_symlink(&r));
    r.section("seq-bundled", || seq_bundled(&r));

    let nworkers = 16u64;
    let exe = std::env::current_exe().unwrap();
    let tier = if r.quick() { "quick" } else { "thorough" };
    let mut merged_viol: Vec<Value> = vec![];
    for s in &sects {
        let (key, sec) = (s.key, s.name);
        if let Some(os) = &r.only_section {
            if os != sec {
                continue;
            }
        }
        if let Some(c) = &r.only_case {
            if !c.starts_with(&format!("{}#", key)) {
                continue;
            }
        }
        let t0 = std::time::Instant::now();
        let mut kids = vec![];
        for i in 0..nworkers {
            let out = format!("{}/C19-worker-{}-{}-{}.json", scratch_base(), std::process::id(), key, i);
            let _ = std::fs::remove_file(&out);
            let mut cmd = std::process::Command::new(&exe);
            cmd.args(["--tier", tier, "--out", &out, "--worker", &format!("{}:{}/{}", key, i, nworkers)]);
            if let Some(c) = &r.only_case {
                cmd.args(["--only-case", c]);
            }
            kids.push((out, cmd.spawn().expect("spawn worker")));
        }
        for (out, mut k) in kids {
            let st = k.wait().unwrap();
            let Ok(text) = std::fs::read_to_string(&out) else {
                eprintln!("ENGINE-FAILURE: worker produced no result ({:?})", st);
                std::process::exit(2);
            };
            let v: Value = serde_json::from_str(&text).unwrap();
            r.add_states(v["states"].as_u64().unwrap_or(0));
            r.add_transitions(v["transitions"].as_u64().unwrap_or(0));
            r.add_validated(v["traces_validated_against_impl"].as_u64().unwrap_or(0));
            for (k2, c) in v["counters"].as_object().unwrap() {
                r.count(k2, c.as_u64().unwrap_or(0));
            }
            for (k2, c) in v["outcomes"].as_object().unwrap() {
                r.outcome(k2, c.as_u64().unwrap_or(0));
            }
            for viol in v["violations"].as_array().unwrap() {
                merged_viol.push(viol.clone());
            }
            let _ = std::fs::remove_file(&out);
        }
        eprintln!("[C19] section {} done in {:.2}s ({} histories)", sec, t0.elapsed().as_secs_f64(), r.get_count(&format!("histories_{}", key)));
    }
    // re-inject the workers' violations (minimal case per signature is kept by Report)
    let only = r.only_case.clone();
    for v in merged_viol {
        let n = v["count"].as_u64().unwrap_or(1);
        let case = v["case"].as_str().unwrap().to_string();
        if only.is_some() && only.as_deref() != Some(case.as_str()) {
            continue;
        }
        for _ in 0..n.min(1) {
            r.viol(v["section"].as_str().unwrap(), v["sig"].as_str().unwrap(), case.clone(), v["detail"].as_str().unwrap());
        }
        if n > 1 {
            r.count(&format!("violations[{}]", v["sig"].as_str().unwrap()), n);
        }
    }
    let total = sects[0].total();
    r.sample(json!({"alphabet": format!("{:?}", sects[0].alpha), "depth": sects[0].depth, "histories_zoneinfo_dir": total,
        "monitor": "answer in {state of the name's data on disk at some time in [max(t-TTL, t_reset), t]}; case variants agree; canonical spelling; no panic"}));
    r.sample(json!({"sections": sects.iter().map(|s| json!({"section": s.name, "alphabet": format!("{:?}", s.alpha), "fixed_prefix": format!("{:?}", s.prefix), "depth": s.depth, "histories": s.total(), "initial_disk": format!("{:?}", s.init)})).collect::<Vec<_>>(),
        "reuse_monitor": "an entry that answered with the content belonging to the modification time still on disk keeps answering with it until the modification time changes or reset() is called; stealth replacement (new content, same modification time) makes re-reading observable",
        "excluded": "content changed under an unchanged modification time is not required to be noticed before reset() (revalidation is by modification time by design); two names differing only in case: either may answer; available() while the disk holds no zone keeps the last good list"}));
    if r.only_section.is_none() && r.only_case.is_none() {
        r.require(r.get_count("histories_dir") == total, "all zoneinfo-dir histories executed");
        for s in &sects {
            r.require(r.get_count(&format!("histories_{}", s.key)) == s.total(), &format!("all {} histories executed", s.name));
        }
        for key in ["dir-deep", "concat-deep"] {
            r.require(r.get_count(&format!("reuse_required_content_differs[{}]", key)) > 0, &format!("{}: reuse was demanded while the content differed under the same modification time", key));
            r.require(r.get_count(&format!("lookups_unloadable_determined[{}]", key)) > 0, &format!("{}: lookups of unparsable data / a directory were determined to fail", key));
            r.require(r.get_count(&format!("lookups_after_reset_of_stealth_change[{}]", key)) > 0, &format!("{}: reset() after a stealth change made the new content mandatory", key));
            r.require(r.get_count(&format!("twin_answers[{}]", key)) > 0, &format!("{}: the case twin answered some lookups", key));
        }
        r.require(r.get_count("reuse_required_after_ttl") > 0, "reuse was demanded across an elapsed TTL");
        for key in ["dir-solo", "concat-solo"] {
            r.require(r.get_count(&format!("available_excluded_empty_disk[{}]", key)) > 0, &format!("{}: the disk became empty", key));
            r.require(r.get_count(&format!("available_checked[{}]", key)) > 0, &format!("{}: available() was checked", key));
        }
        r.require(r.get_count("open_edge_cases") >= 14, "constructor edge cases ran");
        r.require(r.get_count("bundled_lookups") > 0, "bundled histories ran");
    }
    r.finish();
}
