//! Independent readers of duration text (no call into jiff).
//!
//! `read_friendly` follows the grammar written out in the documentation of
//! `jiff::fmt::friendly` (module docs, section "Grammar"); `read_iso` follows
//! the ISO 8601 / Temporal duration grammar (`[+-]P nY nM nW nD T nH nM n.fS`).
//! Both return what the text *denotes* in exact integers:
//! per-unit magnitudes, the fraction of the last unit and the total of the
//! time units scaled by 10^9 (unit of account: 10^-9 ns, so that a nine-digit
//! fraction of a millisecond is still an integer).

/// Nanoseconds per time unit, indexed years..nanoseconds (calendar units: 0).
pub const SIZE: [i128; 10] = [0, 0, 0, 0, 3_600_000_000_000, 60_000_000_000, 1_000_000_000, 1_000_000, 1_000, 1];
/// Scale of `time_scaled`: denoted values are in units of 10^-9 ns.
pub const SCALE: i128 = 1_000_000_000;

/// The labels the documented grammar accepts, with their unit index.
const LABELS: &[(&str, usize)] = &[
    ("years", 0),
    ("year", 0),
    ("yrs", 0),
    ("yr", 0),
    ("y", 0),
    ("months", 1),
    ("month", 1),
    ("mos", 1),
    ("mo", 1),
    ("weeks", 2),
    ("week", 2),
    ("wks", 2),
    ("wk", 2),
    ("w", 2),
    ("days", 3),
    ("day", 3),
    ("d", 3),
    ("hours", 4),
    ("hour", 4),
    ("hrs", 4),
    ("hr", 4),
    ("h", 4),
    ("minutes", 5),
    ("minute", 5),
    ("mins", 5),
    ("min", 5),
    ("m", 5),
    ("seconds", 6),
    ("second", 6),
    ("secs", 6),
    ("sec", 6),
    ("s", 6),
    ("milliseconds", 7),
    ("millisecond", 7),
    ("millis", 7),
    ("milli", 7),
    ("msecs", 7),
    ("msec", 7),
    ("ms", 7),
    ("microseconds", 8),
    ("microsecond", 8),
    ("micros", 8),
    ("micro", 8),
    ("usecs", 8),
    ("usec", 8),
    ("\u{b5}secs", 8),
    ("\u{b5}sec", 8),
    ("us", 8),
    ("\u{b5}s", 8),
    ("nanoseconds", 9),
    ("nanosecond", 9),
    ("nanos", 9),
    ("nano", 9),
    ("nsecs", 9),
    ("nsec", 9),
    ("ns", 9),
];

fn label_unit(l: &str) -> Option<usize> {
    LABELS.iter().find(|(s, _)| *s == l).map(|(_, u)| *u)
}

#[derive(Clone, Copy, Debug, Default)]
pub struct Tok<'a> {
    pub unit: usize,
    /// magnitude of the integer part
    pub int: i128,
    pub int_digits: u8,
    /// number of fraction digits written (0: no fraction)
    pub frac_digits: u8,
    /// the fraction scaled to nine digits
    pub frac9: i64,
    /// the last fraction digit as written (b'0' when there is no fraction)
    pub frac_last: u8,
    pub ws_before_label: u8,
    pub label: &'a str,
    pub comma: bool,
    /// whitespace after the label (or comma) and before the next value;
    /// 0 for the last token (whitespace before `ago` is `ago_ws`)
    pub ws_after: u8,
}

#[derive(Clone, Copy, Debug, Default)]
pub struct Hms {
    pub h: i128,
    pub h_digits: u8,
    pub m: i128,
    pub m_digits: u8,
    pub s: i128,
    pub s_digits: u8,
    pub frac_digits: u8,
    pub frac9: i64,
    pub frac_last: u8,
}

#[derive(Clone, Debug)]
pub struct Friendly<'a> {
    pub prefix: Option<u8>,
    pub ago: bool,
    pub ago_ws: u8,
    pub toks: [Tok<'a>; 10],
    pub n: usize,
    pub hms: Option<Hms>,
}

fn is_ws(b: u8) -> bool {
    matches!(b, b' ' | b'\t' | b'\n' | 0x0c | b'\r')
}

fn skip_ws(b: &[u8], mut i: usize) -> usize {
    while i < b.len() && is_ws(b[i]) {
        i += 1;
    }
    i
}

/// `[0-9]+`; returns (value, digits, next index).
fn read_int(b: &[u8], mut i: usize) -> Result<(i128, u8, usize), String> {
    let start = i;
    let mut v: i128 = 0;
    while i < b.len() && b[i].is_ascii_digit() {
        v = v.checked_mul(10).and_then(|x| x.checked_add((b[i] - b'0') as i128)).ok_or_else(|| format!("integer at byte {} does not fit 128 bits", start))?;
        i += 1;
    }
    if i == start {
        return Err(format!("expected a decimal integer at byte {}", start));
    }
    if i - start > 250 {
        return Err("integer with more than 250 digits".into());
    }
    Ok((v, (i - start) as u8, i))
}

/// `fractional = ('.' | ',') [0-9]{1,9}` starting at the separator.
/// Returns (digits, scaled to nine digits, last digit byte, next index).
fn read_fraction(b: &[u8], i: usize) -> Result<(u8, i64, u8, usize), String> {
    let mut j = i + 1;
    let mut v: i64 = 0;
    let mut n = 0u8;
    while j < b.len() && b[j].is_ascii_digit() {
        if n == 9 {
            return Err(format!("more than nine fraction digits at byte {}", i));
        }
        v = v * 10 + (b[j] - b'0') as i64;
        n += 1;
        j += 1;
    }
    if n == 0 {
        return Err(format!("decimal separator at byte {} is not followed by a digit", i));
    }
    let last = b[j - 1];
    for _ in n..9 {
        v *= 10;
    }
    Ok((n, v, last, j))
}

pub fn read_friendly(text: &str) -> Result<Friendly<'_>, String> {
    let b = text.as_bytes();
    let mut out = Friendly { prefix: None, ago: false, ago_ws: 0, toks: [Tok::default(); 10], n: 0, hms: None };
    let mut i = 0usize;
    if i < b.len() && (b[i] == b'+' || b[i] == b'-') {
        out.prefix = Some(b[i]);
        i += 1;
    }
    let mut after_comma;
    let mut had_fraction = false;
    loop {
        let (int, int_digits, j) = read_int(b, i)?;
        i = j;
        after_comma = false;
        if i < b.len() && b[i] == b':' {
            // format-hms = [0-9]+ ':' [0-9]+ ':' [0-9]+ fractional?
            if out.n > 0 && out.toks[out.n - 1].unit >= 4 {
                return Err("HH:MM:SS after a unit of hours or smaller".into());
            }
            let (m, md, j) = read_int(b, i + 1)?;
            if j >= b.len() || b[j] != b':' {
                return Err(format!("expected ':' after the minutes at byte {}", j));
            }
            let (s, sd, j) = read_int(b, j + 1)?;
            i = j;
            let mut h = Hms { h: int, h_digits: int_digits, m, m_digits: md, s, s_digits: sd, frac_digits: 0, frac9: 0, frac_last: b'0' };
            if i < b.len() && (b[i] == b'.' || b[i] == b',') {
                let (fd, f9, fl, j) = read_fraction(b, i)?;
                h.frac_digits = fd;
                h.frac9 = f9;
                h.frac_last = fl;
                i = j;
            }
            out.hms = Some(h);
            break;
        }
        let mut tok = Tok { int, int_digits, frac_last: b'0', ..Tok::default() };
        if i < b.len() && (b[i] == b'.' || b[i] == b',') {
            let (fd, f9, fl, j) = read_fraction(b, i)?;
            tok.frac_digits = fd;
            tok.frac9 = f9;
            tok.frac_last = fl;
            i = j;
        }
        let j = skip_ws(b, i);
        tok.ws_before_label = (j - i).min(255) as u8;
        i = j;
        // the label: a maximal run of letters (ASCII letters and U+00B5)
        let start = i;
        while i < b.len() {
            if b[i].is_ascii_alphabetic() {
                i += 1;
            } else if b[i] == 0xc2 && i + 1 < b.len() && b[i + 1] == 0xb5 {
                i += 2;
            } else {
                break;
            }
        }
        let label = &text[start..i];
        tok.label = label;
        tok.unit = label_unit(label).ok_or_else(|| format!("{:?} at byte {} is not a unit designator of the grammar", label, start))?;
        if out.n > 0 && out.toks[out.n - 1].unit >= tok.unit {
            return Err(format!("unit {:?} does not come in descending order without repetition", label));
        }
        if tok.frac_digits > 0 {
            if tok.unit < 4 {
                return Err(format!("fraction on the calendar unit {:?}", label));
            }
            had_fraction = true;
        }
        if i < b.len() && b[i] == b',' {
            // comma = ',' ws
            if i + 1 >= b.len() || !is_ws(b[i + 1]) {
                return Err(format!("comma at byte {} is not followed by whitespace", i));
            }
            tok.comma = true;
            after_comma = true;
            i += 1;
        }
        let j = skip_ws(b, i);
        let next_is_value = j < b.len() && b[j].is_ascii_digit();
        if next_is_value {
            tok.ws_after = (j - i).min(255) as u8;
        }
        out.toks[out.n] = tok;
        out.n += 1;
        if !next_is_value {
            break;
        }
        if had_fraction {
            return Err("a unit follows a unit written with a fraction".into());
        }
        if out.n == 10 {
            return Err("more than ten units".into());
        }
        i = j;
    }
    if after_comma {
        return Err("a comma is not followed by another unit".into());
    }
    // direction = ws 'ago'
    if i < b.len() {
        let j = skip_ws(b, i);
        if j == i || &b[j..] != b"ago" {
            return Err(format!("unexpected trailing text {:?}", &text[i..]));
        }
        if out.prefix.is_some() {
            return Err("both a prefix sign and an `ago` suffix".into());
        }
        out.ago = true;
        out.ago_ws = (j - i).min(255) as u8;
    }
    Ok(out)
}

impl<'a> Friendly<'a> {
    pub fn negative(&self) -> bool {
        self.prefix == Some(b'-') || self.ago
    }

    /// Per-unit integer magnitudes (HH:MM:SS maps onto hours, minutes,
    /// seconds) and the fraction: (unit index, fraction scaled to 9 digits).
    pub fn magnitudes(&self) -> ([i128; 10], Option<(usize, i64)>) {
        let mut m = [0i128; 10];
        let mut fr = None;
        for t in &self.toks[..self.n] {
            m[t.unit] = t.int;
            if t.frac_digits > 0 {
                fr = Some((t.unit, t.frac9));
            }
        }
        if let Some(h) = &self.hms {
            m[4] = h.h;
            m[5] = h.m;
            m[6] = h.s;
            if h.frac_digits > 0 {
                fr = Some((6, h.frac9));
            }
        }
        (m, fr)
    }

    /// Number of fraction digits written and the unit carrying them.
    pub fn fraction_digits(&self) -> Option<(usize, u8)> {
        for t in &self.toks[..self.n] {
            if t.frac_digits > 0 {
                return Some((t.unit, t.frac_digits));
            }
        }
        match &self.hms {
            Some(h) if h.frac_digits > 0 => Some((6, h.frac_digits)),
            _ => None,
        }
    }

    /// Signed total of the units with index >= k (k >= 4), in 10^-9 ns.
    pub fn time_scaled_from(&self, k: usize) -> Option<i128> {
        let (m, fr) = self.magnitudes();
        let mut tot: i128 = 0;
        for i in k.max(4)..10 {
            tot = tot.checked_add(m[i].checked_mul(SIZE[i])?.checked_mul(SCALE)?)?;
        }
        if let Some((u, f9)) = fr {
            if u >= k {
                tot = tot.checked_add((f9 as i128).checked_mul(SIZE[u])?)?;
            }
        }
        Some(if self.negative() { -tot } else { tot })
    }

    /// Signed per-unit values of the units with index < k.
    pub fn signed_fields_below(&self, k: usize) -> [i128; 10] {
        let (m, _) = self.magnitudes();
        let mut out = [0i128; 10];
        for i in 0..k.min(10) {
            out[i] = if self.negative() { -m[i] } else { m[i] };
        }
        out
    }

}

// ---------------------------------------------------------------------------
// ISO 8601
// ---------------------------------------------------------------------------

#[allow(dead_code)]
#[derive(Clone, Copy, Debug, Default)]
pub struct IsoTok {
    /// unit index years..seconds (0..=6)
    pub unit: usize,
    pub int: i128,
    pub int_digits: u8,
    pub frac_digits: u8,
    pub frac9: i64,
    pub label: u8,
}

#[derive(Clone, Debug)]
pub struct Iso {
    pub prefix: Option<u8>,
    pub p: u8,
    pub t: Option<u8>,
    pub toks: [IsoTok; 7],
    pub n: usize,
}

pub fn read_iso(text: &str) -> Result<Iso, String> {
    let b = text.as_bytes();
    let mut out = Iso { prefix: None, p: 0, t: None, toks: [IsoTok::default(); 7], n: 0 };
    let mut i = 0;
    if i < b.len() && (b[i] == b'+' || b[i] == b'-') {
        out.prefix = Some(b[i]);
        i += 1;
    }
    if i >= b.len() || !(b[i] == b'P' || b[i] == b'p') {
        return Err("expected 'P'".into());
    }
    out.p = b[i];
    i += 1;
    let mut in_time = false;
    let mut last_unit: Option<usize> = None;
    let mut had_fraction = false;
    let mut time_units = 0;
    while i < b.len() {
        if !in_time && (b[i] == b'T' || b[i] == b't') {
            in_time = true;
            out.t = Some(b[i]);
            i += 1;
            continue;
        }
        if had_fraction {
            return Err("a unit follows a unit written with a fraction".into());
        }
        let (int, int_digits, j) = read_int(b, i)?;
        i = j;
        let mut tok = IsoTok { int, int_digits, ..IsoTok::default() };
        if i < b.len() && (b[i] == b'.' || b[i] == b',') {
            let (fd, f9, _, j) = read_fraction(b, i)?;
            tok.frac_digits = fd;
            tok.frac9 = f9;
            i = j;
            had_fraction = true;
        }
        if i >= b.len() {
            return Err("number without a unit designator".into());
        }
        tok.label = b[i];
        let l = b[i].to_ascii_uppercase();
        tok.unit = match (in_time, l) {
            (false, b'Y') => 0,
            (false, b'M') => 1,
            (false, b'W') => 2,
            (false, b'D') => 3,
            (true, b'H') => 4,
            (true, b'M') => 5,
            (true, b'S') => 6,
            _ => return Err(format!("unexpected designator {:?} at byte {}", b[i] as char, i)),
        };
        i += 1;
        if tok.frac_digits > 0 && tok.unit < 4 {
            return Err("fraction on a calendar unit".into());
        }
        if let Some(p) = last_unit {
            if p >= tok.unit {
                return Err("units out of order or repeated".into());
            }
        }
        last_unit = Some(tok.unit);
        if in_time {
            time_units += 1;
        }
        out.toks[out.n] = tok;
        out.n += 1;
    }
    if out.n == 0 {
        return Err("no unit".into());
    }
    if in_time && time_units == 0 {
        return Err("'T' without a time unit".into());
    }
    Ok(out)
}

impl Iso {
    pub fn negative(&self) -> bool {
        self.prefix == Some(b'-')
    }
    /// Signed years..minutes.
    pub fn signed_fields_below(&self, k: usize) -> [i128; 10] {
        let mut out = [0i128; 10];
        for t in &self.toks[..self.n] {
            if t.unit < k {
                out[t.unit] = if self.negative() { -t.int } else { t.int };
            }
        }
        out
    }
    /// Signed total of the units with index >= k (k >= 4), in 10^-9 ns.
    pub fn time_scaled_from(&self, k: usize) -> Option<i128> {
        let mut tot: i128 = 0;
        for t in &self.toks[..self.n] {
            if t.unit >= k.max(4) {
                tot = tot.checked_add(t.int.checked_mul(SIZE[t.unit])?.checked_mul(SCALE)?)?;
                tot = tot.checked_add((t.frac9 as i128).checked_mul(SIZE[t.unit])?)?;
            }
        }
        Some(if self.negative() { -tot } else { tot })
    }
}

#[cfg(test)]
mod tests {
    use super::*;
    #[test]
    fn friendly_basic() {
        let r = read_friendly("1 year, 2 months, 15:00:30.000000001 ago").unwrap();
        assert!(r.negative());
        assert_eq!(r.signed_fields_below(4)[..2], [-1, -2]);
        assert_eq!(r.time_scaled_from(4), Some(-((15 * 3600 + 30) * 1_000_000_000i128 + 1) * SCALE));
        assert!(read_friendly("1y,2mo").is_err());
        assert!(read_friendly("-1y ago").is_err());
        assert!(read_friendly("1.5s 1ms").is_err());
        assert!(read_friendly("1s 1m").is_err());
        assert!(read_friendly("1d, ").is_err());
        assert!(read_friendly("1day,  00:00:00").is_ok());
        let r = read_friendly("0.0021s").unwrap();
        assert_eq!(r.time_scaled_from(4), Some(2_100_000 * SCALE));
        let r = read_friendly("1.5\u{b5}s").unwrap();
        assert_eq!(r.time_scaled_from(4), Some(1_500 * SCALE));
    }
    #[test]
    fn iso_basic() {
        let r = read_iso("-P1Y2M3W4DT5H6M7.5S").unwrap();
        assert_eq!(r.signed_fields_below(6)[..6], [-1, -2, -3, -4, -5, -6]);
        assert_eq!(r.time_scaled_from(6), Some(-7_500_000_000 * SCALE));
        assert!(read_iso("P").is_err());
        assert!(read_iso("PT").is_err());
        assert!(read_iso("P1H").is_err());
    }
}
