//! The documented effect of each `friendly::SpanPrinter` option on the shape
//! of the printed text, checked on the independent reading of that text.
//!
//! Every rule quotes the sentence of the option's documentation
//! (`src/fmt/friendly/printer.rs`) it is taken from. Where the documentation
//! is silent or contradicts itself the rule abstains (and says so). These
//! rules are what makes the enumeration of the *option* alphabet non-vacuous:
//! the value round trip alone is invariant under most options (the parser
//! accepts every label, any padding, any spacing, either sign style).

use super::reader::Friendly;

#[derive(Clone, Copy, Debug)]
pub struct ShapeCfg {
    pub des: u8,
    pub sp: u8,
    pub dir: u8,
    /// fractional unit in effect (HH:MM:SS forces seconds)
    pub eff_frac: Option<usize>,
    pub comma: bool,
    pub hms: bool,
    pub pad: Option<u8>,
    pub prec: Option<u8>,
    pub zero: usize,
}

#[derive(Clone, Copy, Debug)]
pub struct Facts {
    pub negative: bool,
    pub zero: bool,
    /// the original value has a non-zero calendar unit
    pub has_cal: bool,
}

const VERBOSE: [&str; 10] = ["year", "month", "week", "day", "hour", "minute", "second", "millisecond", "microsecond", "nanosecond"];
const SHORT: [&str; 10] = ["yr", "mo", "wk", "day", "hr", "min", "sec", "msec", "\u{b5}sec", "nsec"];
const COMPACT: [&str; 10] = ["y", "mo", "w", "d", "h", "m", "s", "ms", "\u{b5}s", "ns"];

/// Some(true): the singular form of the configured style, Some(false): the
/// plural form, None: not a label of the configured style. For styles without
/// a distinction the answer is `Some(singular_wanted)`.
fn label_form(des: u8, unit: usize, label: &str, singular_wanted: bool) -> Option<bool> {
    match des {
        0 | 1 => {
            let base = if des == 0 { VERBOSE[unit] } else { SHORT[unit] };
            if label == base {
                Some(true)
            } else if label.len() == base.len() + 1 && label.starts_with(base) && label.ends_with('s') {
                Some(false)
            } else {
                None
            }
        }
        2 => (label == COMPACT[unit]).then_some(singular_wanted),
        _ => match unit {
            // "2y 1month 15d 5h 59m 1s 123ms 456us 789ns" (module docs)
            1 => match label {
                "month" => Some(true),
                "months" => Some(false),
                _ => None,
            },
            2 => match label {
                "w" => Some(singular_wanted),
                "week" => Some(true),
                "weeks" => Some(false),
                _ => None,
            },
            8 => (label == "us").then_some(singular_wanted),
            _ => (label == COMPACT[unit]).then_some(singular_wanted),
        },
    }
}

fn natural_digits(mut v: i128) -> u8 {
    let mut n = 1;
    while v >= 10 {
        v /= 10;
        n += 1;
    }
    n
}

#[derive(Default, Clone, Copy)]
pub struct ShapeTally {
    pub checked: u64,
    pub abstained_suffix_hms_without_calendar: u64,
    pub abstained_padding_above_19: u64,
    pub singular_seen: u64,
    pub plural_seen: u64,
    /// label written, by designator style x value class (0, 1, many, with a
    /// fraction)
    pub label_class: [[u64; 4]; 4],
    /// sign decisions taken, by direction x HH:MM:SS x (zero, positive,
    /// negative)
    pub sign_class: [[[u64; 3]; 2]; 4],
}

impl ShapeTally {
    pub fn add(mut self, o: ShapeTally) -> ShapeTally {
        self.checked += o.checked;
        self.abstained_suffix_hms_without_calendar += o.abstained_suffix_hms_without_calendar;
        self.abstained_padding_above_19 += o.abstained_padding_above_19;
        self.singular_seen += o.singular_seen;
        self.plural_seen += o.plural_seen;
        for i in 0..4 {
            for j in 0..4 {
                self.label_class[i][j] += o.label_class[i][j];
            }
            for j in 0..2 {
                for k in 0..3 {
                    self.sign_class[i][j][k] += o.sign_class[i][j][k];
                }
            }
        }
        self
    }

    /// Every designator style wrote a label next to 0, 1, many and a
    /// fraction; every direction took a decision for zero, positive and
    /// negative values with and without HH:MM:SS.
    pub fn all_paths_seen(&self) -> bool {
        self.label_class.iter().all(|r| r.iter().all(|&x| x > 0)) && self.sign_class.iter().all(|a| a.iter().all(|b| b.iter().all(|&x| x > 0)))
    }
}

pub fn check(fr: &Friendly<'_>, sc: &ShapeCfg, fa: &Facts, t: &mut ShapeTally, emit: &mut dyn FnMut(&'static str, String)) {
    t.checked += 1;
    let toks = &fr.toks[..fr.n];

    // hours_minutes_seconds: "Formats the span or duration into a
    // HH:MM:SS[.fffffffff] format. ... the calendar units are formatted as
    // typical with their corresponding designators."
    if sc.hms {
        if fr.hms.is_none() || toks.iter().any(|k| k.unit >= 4) {
            emit("hours_minutes_seconds/time-part-not-in-HH:MM:SS-form", String::new());
        }
    } else if fr.hms.is_some() {
        emit("hours_minutes_seconds/HH:MM:SS-form-without-the-option", String::new());
    }

    // fractional: "it defaults to None, which means no fractions are ever
    // written"; "The fractional unit set refers to the smallest whole integer
    // that can occur ... any non-zero units less than the fractional unit ...
    // are formatted as a fraction."
    match sc.eff_frac {
        None => {
            if fr.fraction_digits().is_some() {
                emit("fractional/fraction-written-without-a-fractional-unit", String::new());
            }
        }
        Some(k) => {
            if toks.iter().any(|x| x.unit > k) {
                emit("fractional/unit-below-the-fractional-unit-written", String::new());
            }
            if let Some((u, _)) = fr.fraction_digits() {
                if u != k {
                    emit("fractional/fraction-on-another-unit", format!("fraction on unit {} want {}", u, k));
                }
            }
        }
    }

    // precision: "The precision to use when writing fractional unit values";
    // "A precision of Some(0) implies that truncation of any fractional
    // component always occurs"; "None ... the precision is automatically
    // determined from the value. If no fractional component is needed, then
    // none will be printed."
    if let Some(k) = sc.eff_frac {
        let written: Option<(u8, u8)> = if sc.hms {
            fr.hms.as_ref().map(|h| (h.frac_digits, h.frac_last))
        } else {
            toks.iter().find(|x| x.unit == k).map(|x| (x.frac_digits, x.frac_last))
        };
        if let Some((digits, last)) = written {
            match sc.prec {
                Some(p) if p <= 9 => {
                    if digits != p {
                        emit("precision/fraction-digit-count", format!("{} fraction digits, precision {}", digits, p));
                    }
                }
                Some(_) => {}
                None => {
                    if digits > 0 && last == b'0' {
                        emit("precision/trailing-zero-with-automatic-precision", String::new());
                    }
                }
            }
        }
    }

    // padding: "If a unit value has fewer digits than specified here, it is
    // padded to the left with zeroes."; "By default, when writing in the
    // hours-minutes-seconds format, a padding of 2 is used for units of
    // hours, minutes and seconds. Otherwise, a padding of 0 is used."
    // (the cap at 19 digits is an internal limit: abstain above it)
    {
        let mut one = |what: &str, int: i128, digits: u8, default: u8, t: &mut ShapeTally| {
            let pad = sc.pad.unwrap_or(default);
            if pad > 19 {
                t.abstained_padding_above_19 += 1;
                return;
            }
            let want = natural_digits(int).max(pad);
            if digits != want {
                emit("padding/digit-count", format!("{} written with {} digits, want {}", what, digits, want));
            }
        };
        for x in toks {
            one(x.label, x.int, x.int_digits, 0, t);
        }
        if let Some(h) = &fr.hms {
            one("HH", h.h, h.h_digits, 2, t);
            one("MM", h.m, h.m_digits, 2, t);
            one("SS", h.s, h.s_digits, 2, t);
        }
    }

    // designator: "Verbose: This writes out the full word of each unit
    // designation"; "Short: ... `yr` for `year` and `yrs` for `years`";
    // "Compact: ... no distinction between singular or plural"; HumanTime:
    // the labels of the module documentation's example.
    t.sign_class[(sc.dir as usize).min(3)][sc.hms as usize][if fa.zero { 0 } else if fa.negative { 2 } else { 1 }] += 1;
    for x in toks {
        let class = if x.frac_digits > 0 {
            3
        } else if x.int == 0 {
            0
        } else if x.int == 1 {
            1
        } else {
            2
        };
        t.label_class[(sc.des as usize).min(3)][class] += 1;
        let singular_wanted = x.int == 1 && x.frac_digits == 0;
        match label_form(sc.des, x.unit, x.label, singular_wanted) {
            None => emit("designator/label-not-of-the-configured-style", format!("label {:?}", x.label)),
            Some(singular) => {
                if singular {
                    t.singular_seen += 1;
                } else {
                    t.plural_seen += 1;
                }
                // whole values only: 1 is singular, 2 and more are plural;
                // the documentation says nothing about 0 and about fractions
                if x.frac_digits == 0 && x.int >= 1 && singular != (x.int == 1) {
                    emit("designator/singular-plural", format!("{} {:?}", x.int, x.label));
                }
            }
        }
    }

    // spacing: "None: Does not insert any ASCII whitespace. Except [HH:MM:SS
    // after calendar units]"; "BetweenUnits: Inserts one ASCII whitespace
    // between the unit designator and the next unit value";
    // "BetweenUnitsAndDesignators: ... one ... between the unit value and the
    // unit designator, in addition ...". A comma must be followed by
    // whitespace (grammar), so with Spacing::None at least one is accepted
    // there.
    for (i, x) in toks.iter().enumerate() {
        let want_before = if sc.sp == 2 { 1 } else { 0 };
        if x.ws_before_label != want_before {
            emit("spacing/between-value-and-designator", format!("{} spaces before {:?}, want {}", x.ws_before_label, x.label, want_before));
        }
        let last = i + 1 == toks.len() && fr.hms.is_none();
        if !last {
            let before_hms = i + 1 == toks.len();
            let ok = if sc.sp == 0 {
                if x.comma || before_hms {
                    x.ws_after >= 1
                } else {
                    x.ws_after == 0
                }
            } else {
                x.ws_after == 1
            };
            if !ok {
                emit("spacing/between-units", format!("{} spaces after {:?}", x.ws_after, x.label));
            }
        }
    }

    // comma_after_designator: "When enabled, commas are written after unit
    // designators."
    for (i, x) in toks.iter().enumerate() {
        let last = i + 1 == toks.len() && fr.hms.is_none();
        if !last && x.comma != sc.comma {
            emit("comma_after_designator/comma", format!("after {:?}: comma {}", x.label, x.comma));
        }
    }

    // direction: Sign / ForceSign / Suffix / Auto as documented on
    // `Direction`. The documentation of `Direction` says that with HH:MM:SS
    // and no calendar units `Suffix` is treated as `Sign`, while the method
    // documentation and the implementation write ` ago`: abstain there.
    {
        // 0 = sign mode, 1 = force sign, 2 = suffix
        let mode = match sc.dir {
            1 => Some(0),
            2 => Some(1),
            3 => {
                if sc.hms && !fa.has_cal {
                    t.abstained_suffix_hms_without_calendar += 1;
                    None
                } else {
                    Some(2)
                }
            }
            _ => {
                if sc.sp == 0 || (sc.hms && !fa.has_cal) {
                    Some(0)
                } else {
                    Some(2)
                }
            }
        };
        let (want_prefix, want_ago) = match mode {
            Some(0) => (if fa.negative { Some(b'-') } else { None }, false),
            Some(1) => (Some(if fa.negative { b'-' } else { b'+' }), false),
            Some(_) => (None, fa.negative),
            None => (fr.prefix, fr.ago),
        };
        if fr.prefix != want_prefix || fr.ago != want_ago {
            emit(
                "direction/sign-placement",
                format!("prefix {:?} ago {}; want prefix {:?} ago {}", fr.prefix.map(|c| c as char), fr.ago, want_prefix.map(|c| c as char), want_ago),
            );
        } else if fr.ago && fr.ago_ws != 1 {
            emit("direction/ago-not-preceded-by-one-space", String::new());
        }
    }

    // zero_unit: "Sets the unit to use when printing a duration that is
    // zero. When SpanPrinter::fractional is set, then this setting is ignored
    // and the zero unit corresponds to the fractional unit specified."
    // Module docs: printing "just emits whatever units are non-zero".
    if !sc.hms {
        if fa.zero {
            let want = sc.eff_frac.unwrap_or(sc.zero);
            if !(toks.len() == 1 && toks[0].int == 0 && toks[0].frac9 == 0 && toks[0].unit == want) {
                emit("zero_unit/unit-of-a-zero-duration", format!("want a single zero of unit index {}", want));
            }
        } else if sc.eff_frac.is_none() && toks.iter().any(|x| x.int == 0) {
            emit("zero_unit/zero-valued-unit-written-for-a-non-zero-duration", String::new());
        }
    }
}
