//! C07: hand-built TZif (version 2) data for zones at the edge of what a
//! well-formed zone may contain: offsets of +-25:59:59 (jiff's documented
//! offset range), so that a single transition moves the wall clock by up to
//! 51:59:58, and several such transitions close together. zic refuses or
//! mangles such input, so the bytes are written directly (RFC 8536 layout).
//! Both jiff (`TimeZone::tzif`) and the reference model read the same bytes.

use vf::zones::ZoneSrc;

fn header(version: u8, timecnt: u32, typecnt: u32, charcnt: u32) -> Vec<u8> {
    let mut v = b"TZif".to_vec();
    v.push(version);
    v.extend_from_slice(&[0u8; 15]);
    for c in [0u32, 0, 0, timecnt, typecnt, charcnt] {
        v.extend_from_slice(&c.to_be_bytes());
    }
    v
}

/// `types`: (utoff, isdst, abbreviation); `trans`: (unix second, type index),
/// strictly increasing. Type 0 is in force before the first transition.
pub fn tzif(types: &[(i32, bool, &str)], trans: &[(i64, u8)], footer: &str) -> Vec<u8> {
    let mut chars: Vec<u8> = vec![];
    let mut idx: Vec<u8> = vec![];
    for (_, _, ab) in types {
        idx.push(chars.len() as u8);
        chars.extend_from_slice(ab.as_bytes());
        chars.push(0);
    }
    // version-1 block: the minimal one zic -b slim writes (one type, no times)
    let mut v = header(b'2', 0, 1, 1);
    v.extend_from_slice(&[0, 0, 0, 0, 0, 0]);
    v.push(0);
    // version-2 block
    v.extend(header(b'2', trans.len() as u32, types.len() as u32, chars.len() as u32));
    for (t, _) in trans {
        v.extend_from_slice(&t.to_be_bytes());
    }
    for (_, i) in trans {
        v.push(*i);
    }
    for (k, (off, dst, _)) in types.iter().enumerate() {
        v.extend_from_slice(&off.to_be_bytes());
        v.push(*dst as u8);
        v.push(idx[k]);
    }
    v.extend_from_slice(&chars);
    v.push(b'\n');
    v.extend_from_slice(footer.as_bytes());
    v.push(b'\n');
    v
}

/// 2001-01-01T00:00:00Z
pub const T0: i64 = 978_307_200;
pub const MAXOFF: i32 = 25 * 3600 + 59 * 60 + 59;

fn src(name: &str, types: &[(i32, bool, &str)], trans: &[(i64, u8)]) -> ZoneSrc {
    ZoneSrc { name: format!("Hand/{}", name), origin: "hand-built-tzif".into(), bytes: tzif(types, trans, ""), aliases: vec![] }
}

pub fn zones() -> Vec<ZoneSrc> {
    let lo = (-MAXOFF, false, "XLO");
    let hi = (MAXOFF, false, "XHI");
    let mid = (0, false, "XMD");
    let h = 3600i64;
    let mut v = vec![];
    // one gap / one fold of 51:59:58, at four alignments to the civil day
    for (tag, shift) in [("a", 0i64), ("b", 7 * h), ("c", 13 * h + 1), ("d", 19 * h + 1800)] {
        v.push(src(&format!("Gap52{}", tag), &[lo, hi], &[(T0 + shift, 1)]));
        v.push(src(&format!("Fold52{}", tag), &[hi, lo], &[(T0 + shift, 1)]));
    }
    // two gaps (26 h each) with a sliver of valid wall-clock time between them
    for (tag, d) in [("1s", 1i64), ("1h", h), ("23h", 23 * h), ("30h", 30 * h)] {
        v.push(src(&format!("GapGap{}", tag), &[lo, mid, hi], &[(T0, 1), (T0 + d, 2)]));
        v.push(src(&format!("FoldFold{}", tag), &[hi, mid, lo], &[(T0, 1), (T0 + d, 2)]));
    }
    // gap, fold, gap and fold, gap, fold in quick succession
    for (tag, d) in [("1h", h), ("30h", 30 * h), ("60h", 60 * h)] {
        v.push(src(&format!("GapFoldGap{}", tag), &[lo, hi], &[(T0, 1), (T0 + d, 0), (T0 + 2 * d, 1)]));
        v.push(src(&format!("FoldGapFold{}", tag), &[hi, lo], &[(T0, 1), (T0 + d, 0), (T0 + 2 * d, 1)]));
    }
    // a saw: the extreme jump every three days, eight times
    let saw: Vec<(i64, u8)> = (0..8).map(|k| (T0 + k * 72 * h + 5 * h, ((k + 1) % 2) as u8)).collect();
    v.push(src("Saw72h", &[lo, hi], &saw));
    // the same gap as Synth/WideJump (-24:00 -> +24:00) and its mirror, plus
    // 47 h and 49 h jumps (either side of two whole days)
    let (m24, p24) = ((-24 * 3600, false, "XAA"), (24 * 3600, false, "XBB"));
    v.push(src("Gap48", &[m24, p24], &[(T0, 1)]));
    v.push(src("Fold48", &[p24, m24], &[(T0, 1)]));
    let (m2330, p2330) = ((-23 * 3600 - 1800, false, "XAA"), (23 * 3600 + 1800, false, "XBB"));
    v.push(src("Gap47", &[m2330, p2330], &[(T0, 1)]));
    let (m2430, p2430) = ((-24 * 3600 - 1800, false, "XAA"), (24 * 3600 + 1800, false, "XBB"));
    v.push(src("Gap49", &[m2430, p2430], &[(T0, 1)]));
    v.push(src("Fold49", &[p2430, m2430], &[(T0, 1)]));
    v
}

/// POSIX zones whose two rule transitions move the wall clock by about 50 h
/// (the POSIX syntax allows offsets up to 24:59:59 either side), and ordinary ones.
pub fn posix() -> Vec<&'static str> {
    vec![
        "XAA24:59:59XBB-24:59:59,M3.2.0/0,M10.2.0/0",
        "XAA-24:59:59XBB24:59:59,M3.2.0,M10.2.0",
        "XAA24XBB-24,M4.1.0/12,M9.1.0/12",
        "XAA12XBB-13,M4.1.0/3,M9.1.0/3",
        "EST5EDT,M3.2.0,M11.1.0",
        "<+1030>-10:30<+11>-11,M10.1.0,M4.1.0",
        "IST-1GMT0,M10.5.0,M3.5.0/1",
    ]
}
