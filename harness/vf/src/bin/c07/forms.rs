//! C07 extensions that are not about calendar arithmetic but about *which*
//! computation an entry point performs:
//!
//! * `errors`: the documented refusals - `Date::until` with a largest unit
//!   below days, `Time::until` / `Timestamp::until` with a largest unit above
//!   hours - over complete pools x every such unit, `until` and `since`;
//! * `forms`: every argument form a `*Difference` type accepts
//!   (`From<T>`, `From<(Unit, T)>`, the cross-type forms taking a `DateTime`,
//!   `Zoned` or `&Zoned`, the builder `new(..).largest(..)`, and the builder
//!   with the *default* smallest unit, increment 1 and every rounding mode,
//!   which must not change anything) gives the result of the plain
//!   `(Unit, T)` form judged by the main sections;
//! * `zoned_cross_zone`: `Zoned::until/since` between values of different time
//!   zones: exact for largest <= hour, a documented error for largest >= day;
//!   `duration_until` and `-` are exact.

use super::{fields, fmt_sp, model, Sp, UNAME, UNITS};
use jiff::civil::{Date, DateDifference, DateTime, DateTimeDifference, Time, TimeDifference};
use jiff::tz::TimeZone;
use jiff::{RoundMode, Span, Timestamp, TimestampDifference, Unit, Zoned, ZonedDifference};
use rayon::prelude::*;
use std::sync::atomic::{AtomicU64, Ordering::Relaxed};
use vf::conv;
use vf::{guard, panic_sig, Report};

const MODES: [RoundMode; 9] = [
    RoundMode::Ceil,
    RoundMode::Floor,
    RoundMode::Expand,
    RoundMode::Trunc,
    RoundMode::HalfCeil,
    RoundMode::HalfFloor,
    RoundMode::HalfExpand,
    RoundMode::HalfTrunc,
    RoundMode::HalfEven,
];

type Res = Result<Sp, String>;

fn res(x: Result<Span, jiff::Error>) -> Res {
    x.map(|s| fields(&s)).map_err(|e| e.to_string())
}

fn same(a: &Res, b: &Res) -> bool {
    match (a, b) {
        (Ok(x), Ok(y)) => x == y,
        (Err(_), Err(_)) => true,
        _ => false,
    }
}

fn show(r: &Res) -> String {
    match r {
        Ok(f) => fmt_sp(f),
        Err(e) => format!("error({})", e),
    }
}

struct Fx<'a> {
    r: &'a Report,
    sec: &'a str,
    calls: AtomicU64,
    ok: AtomicU64,
    err: AtomicU64,
}

impl<'a> Fx<'a> {
    fn new(r: &'a Report, sec: &'a str) -> Fx<'a> {
        Fx { r, sec, calls: AtomicU64::new(0), ok: AtomicU64::new(0), err: AtomicU64::new(0) }
    }
    /// `got()` must equal `want` (a span field by field, or an error on both sides)
    fn chk(&self, op: &str, case: &dyn Fn() -> String, got: impl FnOnce() -> Result<Span, jiff::Error>, want: &Res) {
        self.calls.fetch_add(1, Relaxed);
        match guard(got) {
            Err(p) => self.r.viol(self.sec, &format!("{}/{}", op, panic_sig(&p)), case(), p),
            Ok(g) => {
                let g = res(g);
                if g.is_ok() {
                    self.ok.fetch_add(1, Relaxed);
                } else {
                    self.err.fetch_add(1, Relaxed);
                }
                if !same(&g, want) {
                    self.r.viol(self.sec, &format!("{}/differs-from-the-(Unit,value)-form", op), case(), format!("this form {}; (Unit, value) form {}", show(&g), show(want)));
                }
            }
        }
    }
    fn book(&self) {
        let n = self.calls.load(Relaxed);
        self.r.add_states(n);
        self.r.add_transitions(n);
        self.r.add_validated(n);
        self.r.count(&format!("{}_calls", self.sec), n);
        self.r.count(&format!("{}_calls_ok", self.sec), self.ok.load(Relaxed));
        self.r.count(&format!("{}_calls_err", self.sec), self.err.load(Relaxed));
    }
}

fn zshow(z: &Zoned) -> String {
    format!("{}[{}]", conv::fmt_ns(z.timestamp().as_nanosecond()), z.time_zone().iana_name().map(|s| s.to_string()).unwrap_or_else(|| z.offset().to_string()))
}

/// zoned values used as arguments of the cross-type forms and for the
/// cross-zone section: a few instants (ordinary, in the gap edge and the fold
/// of America/New_York 2024, before the epoch, near both range limits) in
/// several zones, including fixed offsets at the documented extremes
fn zoned_pool() -> Vec<(usize, Zoned)> {
    let tzs: Vec<TimeZone> = vec![
        TimeZone::UTC,
        TimeZone::get("America/New_York").expect("bundled zone"),
        TimeZone::get("Pacific/Apia").expect("bundled zone"),
        TimeZone::get("Asia/Kathmandu").expect("bundled zone"),
        TimeZone::fixed(jiff::tz::Offset::from_seconds(25 * 3600 + 59 * 60 + 59).unwrap()),
        TimeZone::fixed(jiff::tz::Offset::from_seconds(-(25 * 3600 + 59 * 60 + 59)).unwrap()),
        TimeZone::posix("EST5EDT,M3.2.0,M11.1.0").expect("posix zone"),
    ];
    let min = Timestamp::MIN.as_nanosecond();
    let max = Timestamp::MAX.as_nanosecond();
    let ns: Vec<i128> = vec![
        0,
        -1,
        1_710_054_000_000_000_000 - 1,             // 2024-03-10T06:59:59.999999999Z, last instant before the New York gap
        1_710_054_000_000_000_000,                 // first instant after it
        1_730_611_800_000_000_000,                 // 2024-11-03T05:30Z = 01:30 EDT (first pass of the fold)
        1_730_615_400_000_000_000,                 // 2024-11-03T06:30Z = 01:30 EST (second pass)
        1_730_615_400_000_000_000 + 86_400_000_000_000 + 123_456_789,
        1_700_000_000_123_456_789,
        -1_700_000_000_123_456_789,
        min,
        min + 1,
        max - 1,
        max,
    ];
    let mut v = vec![];
    for (i, tz) in tzs.iter().enumerate() {
        for &n in &ns {
            v.push((i, Timestamp::from_nanosecond(n).unwrap().to_zoned(tz.clone())));
        }
    }
    v
}

pub fn run(r: &Report, thorough: bool, dates: &[Date], times: &[Time], tss: &[Timestamp]) {
    errors(r, dates, times, tss);
    forms(r, thorough);
    cross_zone(r);
}

// ---------------------------------------------------------------------------
// documented errors
// ---------------------------------------------------------------------------

fn errors(r: &Report, dates: &[Date], times: &[Time], tss: &[Timestamp]) {
    r.section("errors", || {
        let n_err = AtomicU64::new(0);
        let n_equal_ok = AtomicU64::new(0);
        let n_equal_err = AtomicU64::new(0);
        // (what, refused units, values)
        let judge = |name: &str, class: &str, li: usize, equal: bool, case: &dyn Fn() -> String, op: &str, f: &dyn Fn() -> Result<Span, jiff::Error>| {
            match guard(f) {
                Err(p) => r.viol("errors", &format!("{}::{}/{}", name, op, panic_sig(&p)), case(), p),
                Ok(Err(_)) => {
                    if equal {
                        n_equal_err.fetch_add(1, Relaxed);
                    }
                    n_err.fetch_add(1, Relaxed);
                }
                Ok(Ok(s)) => {
                    // The documentation only says the configuration "can" be
                    // refused; for equal values the zero span is as good an
                    // answer, provided it is the zero span.
                    if equal && fields(&s) == [0i64; 10] {
                        n_equal_ok.fetch_add(1, Relaxed);
                    } else {
                        r.viol("errors", &format!("{}::{}/ok-with-largest-{}", name, op, class), case(), format!("largest={} gave {}", UNAME[li], fmt_sp(&fields(&s))));
                    }
                }
            }
        };
        dates.par_iter().for_each(|a| {
            for b in dates {
                for li in 4..10 {
                    let case = || format!("Date a={} b={} largest={}", a, b, UNAME[li]);
                    judge("Date", "below-day", li, a == b, &case, "until", &|| a.until((UNITS[li], *b)));
                    judge("Date", "below-day", li, a == b, &case, "since", &|| a.since((UNITS[li], *b)));
                    judge("Date", "below-day", li, a == b, &case, "until(builder)", &|| a.until(DateDifference::new(*b).largest(UNITS[li])));
                }
            }
        });
        times.par_iter().for_each(|a| {
            for b in times {
                for li in 0..4 {
                    let case = || format!("Time a={} b={} largest={}", a, b, UNAME[li]);
                    judge("Time", "above-hour", li, a == b, &case, "until", &|| a.until((UNITS[li], *b)));
                    judge("Time", "above-hour", li, a == b, &case, "since", &|| a.since((UNITS[li], *b)));
                    judge("Time", "above-hour", li, a == b, &case, "until(builder)", &|| a.until(TimeDifference::new(*b).largest(UNITS[li])));
                }
            }
        });
        tss.par_iter().for_each(|a| {
            for b in tss {
                for li in 0..4 {
                    let case = || format!("Timestamp a={} b={} largest={}", conv::fmt_ns(a.as_nanosecond()), conv::fmt_ns(b.as_nanosecond()), UNAME[li]);
                    judge("Timestamp", "above-hour", li, a == b, &case, "until", &|| a.until((UNITS[li], *b)));
                    judge("Timestamp", "above-hour", li, a == b, &case, "since", &|| a.since((UNITS[li], *b)));
                    judge("Timestamp", "above-hour", li, a == b, &case, "until(builder)", &|| a.until(TimestampDifference::new(*b).largest(UNITS[li])));
                }
            }
        });
        let n = (dates.len() * dates.len() * 6 + times.len() * times.len() * 4 + tss.len() * tss.len() * 4) as u64 * 3;
        r.add_states(n);
        r.add_transitions(n);
        r.add_validated(n);
        r.outcome("error:largest-unit-not-permitted-for-the-type(documented)", n_err.load(Relaxed));
        r.count("errors_equal_values_refused", n_equal_err.load(Relaxed));
        r.count("errors_equal_values_zero_span", n_equal_ok.load(Relaxed));
        r.require(n_err.load(Relaxed) > 1000, "the documented unit refusals occur");
    });
}

// ---------------------------------------------------------------------------
// argument forms
// ---------------------------------------------------------------------------

fn forms(r: &Report, thorough: bool) {
    r.section("forms", || {
        let fx = Fx::new(r, "forms");
        let zp: Vec<Zoned> = zoned_pool().into_iter().map(|(_, z)| z).collect();
        let dates = vf::pools::dates();
        let times = vf::pools::times();
        let tss = vf::pools::timestamps();
        let tods: Vec<Time> = vec![Time::midnight(), Time::new(12, 0, 0, 1).unwrap(), Time::new(23, 59, 59, 999_999_999).unwrap()];
        let dts: Vec<DateTime> = {
            let ds: Vec<Date> = if thorough { dates.clone() } else { dates.iter().copied().take(14).chain(dates.iter().copied().rev().take(4)).collect() };
            ds.iter().flat_map(|d| times.iter().map(move |t| DateTime::from_parts(*d, *t))).collect()
        };
        r.count("forms_zoned_arguments", zp.len() as u64);
        r.count("forms_datetime_pool", dts.len() as u64);

        // ---- Date ----
        dates.par_iter().for_each(|a| {
            let a = *a;
            for &b in &dates {
                let case = || format!("Date a={} b={}", a, b);
                let wu: Vec<Res> = (0..10).map(|u| res(a.until((UNITS[u], b)))).collect();
                let ws: Vec<Res> = (0..10).map(|u| res(a.since((UNITS[u], b)))).collect();
                fx.chk("Date::until(Date)", &case, || a.until(b), &wu[3]);
                fx.chk("Date::since(Date)", &case, || a.since(b), &ws[3]);
                fx.chk("Date::until(DateDifference::new)", &case, || a.until(DateDifference::new(b)), &wu[3]);
                fx.chk("Date::until(DateDifference::from(Date))", &case, || a.until(DateDifference::from(b)), &wu[3]);
                for u in 0..10 {
                    fx.chk("Date::until(DateDifference::new.largest)", &case, || a.until(DateDifference::new(b).largest(UNITS[u])), &wu[u]);
                    fx.chk("Date::since(DateDifference::new.largest)", &case, || a.since(DateDifference::new(b).largest(UNITS[u])), &ws[u]);
                    fx.chk("Date::until(DateDifference::from((Unit,Date)))", &case, || a.until(DateDifference::from((UNITS[u], b))), &wu[u]);
                    for m in MODES {
                        fx.chk("Date::until(builder:default-smallest,increment=1,mode)", &case, || a.until(DateDifference::new(b).largest(UNITS[u]).increment(1).mode(m)), &wu[u]);
                    }
                    for &t in &tods {
                        let dt = DateTime::from_parts(b, t);
                        fx.chk("Date::until((Unit,DateTime))", &case, || a.until((UNITS[u], dt)), &wu[u]);
                        fx.chk("Date::since((Unit,DateTime))", &case, || a.since((UNITS[u], dt)), &ws[u]);
                    }
                }
                for &t in &tods {
                    let dt = DateTime::from_parts(b, t);
                    fx.chk("Date::until(DateTime)", &case, || a.until(dt), &wu[3]);
                    fx.chk("Date::since(DateTime)", &case, || a.since(dt), &ws[3]);
                }
            }
            for z in &zp {
                let b = z.date();
                let case = || format!("Date a={} b={}", a, zshow(z));
                for u in 0..10 {
                    let wu = res(a.until((UNITS[u], b)));
                    let ws = res(a.since((UNITS[u], b)));
                    fx.chk("Date::until((Unit,&Zoned))", &case, || a.until((UNITS[u], z)), &wu);
                    fx.chk("Date::until((Unit,Zoned))", &case, || a.until((UNITS[u], z.clone())), &wu);
                    fx.chk("Date::since((Unit,&Zoned))", &case, || a.since((UNITS[u], z)), &ws);
                    fx.chk("Date::since((Unit,Zoned))", &case, || a.since((UNITS[u], z.clone())), &ws);
                }
                let wu = res(a.until((Unit::Day, b)));
                fx.chk("Date::until(&Zoned)", &case, || a.until(z), &wu);
                fx.chk("Date::until(Zoned)", &case, || a.until(z.clone()), &wu);
            }
        });

        // ---- DateTime ----
        dts.par_iter().for_each(|a| {
            let a = *a;
            for &b in &dts {
                let case = || format!("DateTime a={} b={}", a, b);
                let wu: Vec<Res> = (0..10).map(|u| res(a.until((UNITS[u], b)))).collect();
                let ws: Vec<Res> = (0..10).map(|u| res(a.since((UNITS[u], b)))).collect();
                fx.chk("DateTime::until(DateTime)", &case, || a.until(b), &wu[3]);
                fx.chk("DateTime::since(DateTime)", &case, || a.since(b), &ws[3]);
                fx.chk("DateTime::until(DateTimeDifference::new)", &case, || a.until(DateTimeDifference::new(b)), &wu[3]);
                for u in 0..10 {
                    fx.chk("DateTime::until(DateTimeDifference::new.largest)", &case, || a.until(DateTimeDifference::new(b).largest(UNITS[u])), &wu[u]);
                    fx.chk("DateTime::since(DateTimeDifference::new.largest)", &case, || a.since(DateTimeDifference::new(b).largest(UNITS[u])), &ws[u]);
                    let m = MODES[(u + a.day() as usize + b.hour() as usize) % 9];
                    fx.chk("DateTime::until(builder:smallest=nanosecond,increment=1,mode)", &case, || a.until(DateTimeDifference::from((UNITS[u], b)).smallest(Unit::Nanosecond).increment(1).mode(m)), &wu[u]);
                }
            }
            // the Date form means that date at midnight
            for &d in &dates {
                let b = DateTime::from_parts(d, Time::midnight());
                let case = || format!("DateTime a={} b={}", a, d);
                for u in 0..10 {
                    let wu = res(a.until((UNITS[u], b)));
                    let ws = res(a.since((UNITS[u], b)));
                    fx.chk("DateTime::until((Unit,Date))", &case, || a.until((UNITS[u], d)), &wu);
                    fx.chk("DateTime::since((Unit,Date))", &case, || a.since((UNITS[u], d)), &ws);
                }
                let wu = res(a.until((Unit::Day, b)));
                fx.chk("DateTime::until(Date)", &case, || a.until(d), &wu);
            }
            for z in &zp {
                let b = z.datetime();
                let case = || format!("DateTime a={} b={}", a, zshow(z));
                for u in 0..10 {
                    let wu = res(a.until((UNITS[u], b)));
                    let ws = res(a.since((UNITS[u], b)));
                    fx.chk("DateTime::until((Unit,&Zoned))", &case, || a.until((UNITS[u], z)), &wu);
                    fx.chk("DateTime::until((Unit,Zoned))", &case, || a.until((UNITS[u], z.clone())), &wu);
                    fx.chk("DateTime::since((Unit,&Zoned))", &case, || a.since((UNITS[u], z)), &ws);
                }
                let wu = res(a.until((Unit::Day, b)));
                fx.chk("DateTime::until(&Zoned)", &case, || a.until(z), &wu);
                fx.chk("DateTime::until(Zoned)", &case, || a.until(z.clone()), &wu);
            }
        });

        // ---- Time ----
        times.par_iter().for_each(|a| {
            let a = *a;
            for &b in &times {
                let case = || format!("Time a={} b={}", a, b);
                let wu: Vec<Res> = (0..10).map(|u| res(a.until((UNITS[u], b)))).collect();
                let ws: Vec<Res> = (0..10).map(|u| res(a.since((UNITS[u], b)))).collect();
                fx.chk("Time::until(Time)", &case, || a.until(b), &wu[4]);
                fx.chk("Time::since(Time)", &case, || a.since(b), &ws[4]);
                fx.chk("Time::until(TimeDifference::new)", &case, || a.until(TimeDifference::new(b)), &wu[4]);
                for u in 0..10 {
                    fx.chk("Time::until(TimeDifference::new.largest)", &case, || a.until(TimeDifference::new(b).largest(UNITS[u])), &wu[u]);
                    fx.chk("Time::since(TimeDifference::new.largest)", &case, || a.since(TimeDifference::new(b).largest(UNITS[u])), &ws[u]);
                    for m in MODES {
                        fx.chk("Time::until(builder:smallest=nanosecond,increment=1,mode)", &case, || a.until(TimeDifference::from((UNITS[u], b)).smallest(Unit::Nanosecond).increment(1).mode(m)), &wu[u]);
                    }
                    for &d in dates.iter().take(6) {
                        let dt = DateTime::from_parts(d, b);
                        fx.chk("Time::until((Unit,DateTime))", &case, || a.until((UNITS[u], dt)), &wu[u]);
                        fx.chk("Time::since((Unit,DateTime))", &case, || a.since((UNITS[u], dt)), &ws[u]);
                    }
                }
                for &d in dates.iter().take(6) {
                    let dt = DateTime::from_parts(d, b);
                    fx.chk("Time::until(DateTime)", &case, || a.until(dt), &wu[4]);
                }
            }
            for z in &zp {
                let b = z.time();
                let case = || format!("Time a={} b={}", a, zshow(z));
                for u in 0..10 {
                    let wu = res(a.until((UNITS[u], b)));
                    let ws = res(a.since((UNITS[u], b)));
                    fx.chk("Time::until((Unit,&Zoned))", &case, || a.until((UNITS[u], z)), &wu);
                    fx.chk("Time::until((Unit,Zoned))", &case, || a.until((UNITS[u], z.clone())), &wu);
                    fx.chk("Time::since((Unit,&Zoned))", &case, || a.since((UNITS[u], z)), &ws);
                }
                let wu = res(a.until((Unit::Hour, b)));
                fx.chk("Time::until(&Zoned)", &case, || a.until(z), &wu);
                fx.chk("Time::until(Zoned)", &case, || a.until(z.clone()), &wu);
            }
        });

        // ---- Timestamp ----
        tss.par_iter().for_each(|a| {
            let a = *a;
            let sh = |t: Timestamp| conv::fmt_ns(t.as_nanosecond());
            for &b in &tss {
                let case = || format!("Timestamp a={} b={}", sh(a), sh(b));
                let wu: Vec<Res> = (0..10).map(|u| res(a.until((UNITS[u], b)))).collect();
                let ws: Vec<Res> = (0..10).map(|u| res(a.since((UNITS[u], b)))).collect();
                fx.chk("Timestamp::until(Timestamp)", &case, || a.until(b), &wu[6]);
                fx.chk("Timestamp::since(Timestamp)", &case, || a.since(b), &ws[6]);
                fx.chk("Timestamp::until(TimestampDifference::new)", &case, || a.until(TimestampDifference::new(b)), &wu[6]);
                for u in 0..10 {
                    fx.chk("Timestamp::until(TimestampDifference::new.largest)", &case, || a.until(TimestampDifference::new(b).largest(UNITS[u])), &wu[u]);
                    fx.chk("Timestamp::since(TimestampDifference::new.largest)", &case, || a.since(TimestampDifference::new(b).largest(UNITS[u])), &ws[u]);
                    for m in MODES {
                        fx.chk("Timestamp::until(builder:smallest=nanosecond,increment=1,mode)", &case, || a.until(TimestampDifference::from((UNITS[u], b)).smallest(Unit::Nanosecond).increment(1).mode(m)), &wu[u]);
                    }
                }
            }
            for z in &zp {
                let b = z.timestamp();
                let case = || format!("Timestamp a={} b={}", sh(a), zshow(z));
                for u in 0..10 {
                    let wu = res(a.until((UNITS[u], b)));
                    let ws = res(a.since((UNITS[u], b)));
                    fx.chk("Timestamp::until((Unit,&Zoned))", &case, || a.until((UNITS[u], z)), &wu);
                    fx.chk("Timestamp::until((Unit,Zoned))", &case, || a.until((UNITS[u], z.clone())), &wu);
                    fx.chk("Timestamp::since((Unit,&Zoned))", &case, || a.since((UNITS[u], z)), &ws);
                }
                let wu = res(a.until((Unit::Second, b)));
                fx.chk("Timestamp::until(&Zoned)", &case, || a.until(z), &wu);
                fx.chk("Timestamp::until(Zoned)", &case, || a.until(z.clone()), &wu);
            }
        });

        // ---- Zoned (same zone) ----
        let zpi = zoned_pool();
        zpi.par_iter().for_each(|(ia, a)| {
            for (ib, b) in &zpi {
                if ia != ib {
                    continue;
                }
                let case = || format!("Zoned a={} b={}", zshow(a), zshow(b));
                let wu: Vec<Res> = (0..10).map(|u| res(a.until((UNITS[u], b)))).collect();
                let ws: Vec<Res> = (0..10).map(|u| res(a.since((UNITS[u], b)))).collect();
                fx.chk("Zoned::until(&Zoned)", &case, || a.until(b), &wu[4]);
                fx.chk("Zoned::since(&Zoned)", &case, || a.since(b), &ws[4]);
                fx.chk("Zoned::until(ZonedDifference::new)", &case, || a.until(ZonedDifference::new(b)), &wu[4]);
                fx.chk("Zoned::until(ZonedDifference::from(&Zoned))", &case, || a.until(ZonedDifference::from(b)), &wu[4]);
                for u in 0..10 {
                    fx.chk("Zoned::until(ZonedDifference::new.largest)", &case, || a.until(ZonedDifference::new(b).largest(UNITS[u])), &wu[u]);
                    fx.chk("Zoned::since(ZonedDifference::new.largest)", &case, || a.since(ZonedDifference::new(b).largest(UNITS[u])), &ws[u]);
                    for m in MODES {
                        fx.chk("Zoned::until(builder:smallest=nanosecond,increment=1,mode)", &case, || a.until(ZonedDifference::from((UNITS[u], b)).smallest(Unit::Nanosecond).increment(1).mode(m)), &wu[u]);
                    }
                }
            }
        });
        fx.book();
        r.require(fx.ok.load(Relaxed) > 10_000 && fx.err.load(Relaxed) > 1_000, "argument forms produce both spans and documented errors");
    });
}

// ---------------------------------------------------------------------------
// different time zones
// ---------------------------------------------------------------------------

fn cross_zone(r: &Report) {
    r.section("zoned_cross_zone", || {
        let zp = zoned_pool();
        let (n_exact, n_err, n_ns, n_eq_ok, n_eq_err, n_pairs) = (AtomicU64::new(0), AtomicU64::new(0), AtomicU64::new(0), AtomicU64::new(0), AtomicU64::new(0), AtomicU64::new(0));
        zp.par_iter().for_each(|(ia, a)| {
            for (ib, b) in &zp {
                if ia == ib {
                    continue;
                }
                n_pairs.fetch_add(1, Relaxed);
                let n = b.timestamp().as_nanosecond() - a.timestamp().as_nanosecond();
                let case0 = || format!("Zoned a={} b={}", zshow(a), zshow(b));
                // absolute duration and the operator
                match guard(|| (a.duration_until(b).as_nanos(), a.duration_since(b).as_nanos(), fields(&(b - a)))) {
                    Err(p) => r.viol("zoned_cross_zone", &format!("Zoned::duration_until(other zone)/{}", panic_sig(&p)), case0(), p),
                    Ok((du, ds, op)) => {
                        if du != n || ds != -n {
                            r.viol("zoned_cross_zone", "Zoned::duration_until(other zone)/value", case0(), format!("until {} since {} exact {}", du, ds, n));
                        }
                        let want = model::decompose(n, 4);
                        if op != want {
                            r.viol("zoned_cross_zone", "Zoned - Zoned(other zone)/not-the-exact-decomposition", case0(), format!("b - a = {}; exact {}", fmt_sp(&op), fmt_sp(&want)));
                        }
                    }
                }
                for li in 0..10 {
                    let case = || format!("Zoned a={} b={} largest={}", zshow(a), zshow(b), UNAME[li]);
                    for (op, neg) in [("until", false), ("since", true)] {
                        let got = guard(|| if neg { a.since((UNITS[li], b)) } else { a.until((UNITS[li], b)) });
                        let got = match got {
                            Err(p) => {
                                r.viol("zoned_cross_zone", &format!("Zoned::{}(other zone)/{}", op, panic_sig(&p)), case(), p);
                                continue;
                            }
                            Ok(g) => res(g),
                        };
                        if li < 4 {
                            // documented: units above hours require the same time zone
                            match got {
                                Err(_) => {
                                    if n == 0 {
                                        n_eq_err.fetch_add(1, Relaxed);
                                    }
                                    n_err.fetch_add(1, Relaxed);
                                }
                                Ok(f) if n == 0 && f == [0i64; 10] => {
                                    n_eq_ok.fetch_add(1, Relaxed);
                                }
                                Ok(f) => r.viol("zoned_cross_zone", &format!("Zoned::{}(other zone)/ok-with-largest-above-hour", op), case(), fmt_sp(&f)),
                            }
                        } else if li == 9 && (n > i64::MAX as i128 || n < -(i64::MAX as i128)) {
                            match got {
                                Err(_) => {
                                    n_ns.fetch_add(1, Relaxed);
                                }
                                Ok(f) => r.viol("zoned_cross_zone", &format!("Zoned::{}(other zone)/ok-but-nanoseconds-do-not-fit", op), case(), fmt_sp(&f)),
                            }
                        } else {
                            let want = model::decompose(if neg { -n } else { n }, li);
                            match got {
                                Ok(f) if f == want => {
                                    n_exact.fetch_add(1, Relaxed);
                                }
                                Ok(f) => r.viol("zoned_cross_zone", &format!("Zoned::{}(other zone)/not-the-exact-decomposition", op), case(), format!("jiff {} exact {}", fmt_sp(&f), fmt_sp(&want))),
                                Err(e) => r.viol("zoned_cross_zone", &format!("Zoned::{}(other zone)/unexpected-error", op), case(), e),
                            }
                        }
                    }
                }
            }
        });
        let n = n_pairs.load(Relaxed) * 23;
        r.add_states(n_pairs.load(Relaxed) * 10);
        r.add_transitions(n);
        r.add_validated(n);
        r.count("cross_zone_pairs", n_pairs.load(Relaxed));
        r.count("cross_zone_exact_decompositions", n_exact.load(Relaxed));
        r.count("cross_zone_equal_instants_refused", n_eq_err.load(Relaxed));
        r.count("cross_zone_equal_instants_zero_span", n_eq_ok.load(Relaxed));
        r.outcome("error:different-time-zones-with-largest>=day(documented)", n_err.load(Relaxed));
        r.outcome("error:nanoseconds-do-not-fit(documented,other zone)", n_ns.load(Relaxed));
        r.require(n_err.load(Relaxed) > 100 && n_exact.load(Relaxed) > 100 && n_ns.load(Relaxed) > 0, "cross-zone differences produce exact spans and the documented errors");
    });
}
