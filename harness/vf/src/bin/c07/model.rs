//! C07, independent pieces: calendar addition, the expected year/month
//! difference by its two admissible definitions, and zoned addition on the
//! reference zone model. Nothing here calls into jiff.

use refmodel::{cal, tz as rtz};

pub const NS: i128 = 1_000_000_000;
pub const DAY_NS: i128 = 86_400 * NS;
pub const H: i128 = 3_600 * NS;
pub const UNIT_NS: [i128; 10] = [0, 0, 7 * DAY_NS, DAY_NS, H, 60 * NS, NS, 1_000_000, 1_000, 1];
/// documented limit of the months unit of a span
pub const MONTHS_LIMIT: i64 = 239_976;

pub type Sp = [i64; 10];
pub type Ymd = (i64, i64, i64);

pub fn time_total(f: &Sp) -> i128 {
    (4..10).map(|u| f[u] as i128 * UNIT_NS[u]).sum()
}

pub fn has_calendar(f: &Sp) -> bool {
    f[..4].iter().any(|&x| x != 0)
}

/// exact decomposition of `n` nanoseconds into the units from `largest`
/// (>= week index 2) down, truncating toward zero; weeks only if largest is week
pub fn decompose(n: i128, largest: usize) -> Sp {
    let mut rem = n;
    let mut f = [0i64; 10];
    for u in largest.max(2)..10 {
        if u == 2 && largest != 2 {
            continue;
        }
        let q = rem / UNIT_NS[u];
        f[u] = q as i64;
        rem -= q * UNIT_NS[u];
    }
    f
}

/// date + (years, months, weeks, days) of `f`, as documented: years and months
/// first, the day of month clamped to the length of the target month, then
/// weeks and days on the day count. None outside -9999-01-01..=9999-12-31.
pub fn date_add(ymd: Ymd, f: &Sp) -> Option<i64> {
    let (y, m, d) = ymd;
    let (y2, m2) = cal::add_months(y, m, f[0] * 12 + f[1]);
    if !(cal::MIN_YEAR..=cal::MAX_YEAR).contains(&y2) {
        return None;
    }
    let d2 = d.min(cal::days_in_month(y2, m2));
    let day = cal::days_from_civil(y2, m2, d2) + f[2] * 7 + f[3];
    if day < cal::min_day() || day > cal::max_day() {
        return None;
    }
    Some(day)
}

/// civil datetime (ns on the wall clock) + span: calendar units on the date,
/// time units as exact nanoseconds. None outside the supported range.
pub fn civil_add(civil: i128, f: &Sp) -> Option<i128> {
    let day = civil.div_euclid(DAY_NS) as i64;
    let tod = civil.rem_euclid(DAY_NS);
    let day2 = date_add(cal::civil_from_days(day), f)?;
    let x = day2 as i128 * DAY_NS + tod + time_total(f);
    if x < cal::min_day() as i128 * DAY_NS || x >= (cal::max_day() as i128 + 1) * DAY_NS {
        return None;
    }
    Some(x)
}

/// Whole months between two dates in the direction `sign` (= sign of b - a,
/// non-zero), as magnitudes, by the two definitions a correct implementation
/// may follow:
/// * `.0` greedy with clamping: the largest k such that a + k months (day of
///   month clamped) is not beyond b;
/// * `.1` Temporal's "surpasses" rule: the largest k such that the *unclamped*
///   (year, month + k, day of a) is not beyond b, compared field by field.
/// They differ only when the clamped day reaches b's day but a's own day is
/// larger (Jan 31 -> Feb 28: greedy 1 month, Temporal 28 days).
pub fn months_between(a: Ymd, b: Ymd, sign: i64) -> (i64, i64) {
    let k0 = ((b.0 * 12 + b.1) - (a.0 * 12 + a.1)) * sign;
    debug_assert!(k0 >= 0);
    let dim = cal::days_in_month(b.0, b.1);
    let clamped = a.2.min(dim);
    let (g_ok, t_ok) = if sign > 0 { (clamped <= b.2, a.2 <= b.2) } else { (clamped >= b.2, a.2 >= b.2) };
    let g = if g_ok { k0 } else { k0 - 1 };
    let t = if t_ok { k0 } else { k0 - 1 };
    (g.max(0), t.max(0))
}

/// The date part (years, months, days) of the difference a -> b for
/// `largest` = year (0) or month (1), for a month count of magnitude `k`.
pub fn date_span_for(a: Ymd, b_day: i64, sign: i64, k: i64, largest: usize) -> Option<Sp> {
    let mut f = [0i64; 10];
    f[1] = sign * k;
    let mid = date_add(a, &f)?;
    if largest == 0 {
        f[0] = sign * (k / 12);
        f[1] = sign * (k % 12);
    }
    f[3] = b_day - mid;
    Some(f)
}

/// Expected spans (greedy, Temporal) of a civil difference with largest unit
/// year or month. `a`, `b` are wall-clock nanoseconds (whole days for dates).
/// The result is None when the month count exceeds the documented span limit
/// (then an error is the documented outcome).
pub fn expected_calendar(a: i128, b: i128, largest: usize) -> [Option<Sp>; 2] {
    let sign = (b - a).signum() as i64;
    if sign == 0 {
        return [Some([0; 10]), Some([0; 10])];
    }
    let (a_day, a_tod) = (a.div_euclid(DAY_NS) as i64, a.rem_euclid(DAY_NS));
    let (b_day, b_tod) = (b.div_euclid(DAY_NS) as i64, b.rem_euclid(DAY_NS));
    // the last day d such that (d, time of a) is not beyond b
    let d2 = if sign > 0 && b_tod < a_tod {
        b_day - 1
    } else if sign < 0 && b_tod > a_tod {
        b_day + 1
    } else {
        b_day
    };
    let rem = b - (d2 as i128 * DAY_NS + a_tod);
    let time = decompose(rem, 4);
    let ya = cal::civil_from_days(a_day);
    let (g, t) = if d2 == a_day { (0, 0) } else { months_between(ya, cal::civil_from_days(d2), sign) };
    let mk = |k: i64| -> Option<Sp> {
        if largest == 1 && k > MONTHS_LIMIT {
            return None;
        }
        let mut f = date_span_for(ya, d2, sign, k, largest)?;
        f[4..].copy_from_slice(&time[4..]);
        Some(f)
    };
    [mk(g), mk(t)]
}

// ---------------------------------------------------------------------------
// zoned
// ---------------------------------------------------------------------------

pub fn floor_sec(ns: i128) -> i64 {
    ns.div_euclid(NS) as i64
}

pub fn z_to_civil(z: &rtz::Zone, x: i128) -> i128 {
    x + z.utoff_at(floor_sec(x)) as i128 * NS
}

pub enum Resolved {
    At(i128),
    /// the zone's data make the reading of this wall-clock time a matter of
    /// interpretation (overlapping transitions): no model opinion
    Unknown,
}

/// wall-clock nanoseconds -> instant with the "compatible" strategy (fold:
/// the earlier instant; gap: the wall-clock time read with the offset in force
/// before the gap, i.e. the later time)
pub fn z_resolve(z: &rtz::Zone, civil: i128) -> Resolved {
    let csec = floor_sec(civil);
    let sub = civil - csec as i128 * NS;
    // transitions whose wall-clock discontinuity (the skipped or repeated
    // interval) contains this reading
    let lo = z.piece_index_at(csec.saturating_sub(100_000));
    let hi = z.piece_index_at(csec.saturating_add(100_000));
    let mut hit: Option<usize> = None;
    let mut hits = 0;
    for k in lo.max(1)..=(hi + 1).min(z.pieces.len() - 1) {
        let s = z.pieces[k].start;
        let ob = z.infos[z.pieces[k - 1].info as usize].utoff as i64;
        let oa = z.infos[z.pieces[k].info as usize].utoff as i64;
        let (w0, w1) = (s + ob.min(oa), s + ob.max(oa));
        if csec >= w0 && csec < w1 {
            hits += 1;
            hit = Some(k);
        }
    }
    let pre = z.preimages(csec);
    match (hits, hit) {
        (0, _) if pre.len() == 1 => Resolved::At(pre[0].0 as i128 * NS + sub),
        (1, Some(k)) => {
            let ob = z.infos[z.pieces[k - 1].info as usize].utoff as i64;
            let oa = z.infos[z.pieces[k].info as usize].utoff as i64;
            let adjacent = pre.len() == 2 && pre[0].1.min(pre[1].1) == k - 1 && pre[0].1.max(pre[1].1) == k;
            if ob > oa && adjacent {
                // fold: the earlier instant
                Resolved::At(pre[0].0.min(pre[1].0) as i128 * NS + sub)
            } else if ob < oa && pre.is_empty() {
                // gap: read with the offset in force before it
                Resolved::At((csec - ob) as i128 * NS + sub)
            } else {
                Resolved::Unknown
            }
        }
        // the discontinuities of two transitions overlap here (transitions
        // closer together than their jumps): what the reading means is a
        // matter of interpretation
        _ => Resolved::Unknown,
    }
}

pub enum MAdd {
    /// the result (position in ns) and, for zoned values, the instant to
    /// which the intermediate civil datetime resolved
    At(i128, Option<i128>),
    Fail,
    Unknown,
}

/// zoned + span as documented: calendar units on the civil datetime, resolved
/// with the compatible strategy, then the time units on the instant; a span
/// without calendar units is added to the instant.
pub fn z_add(z: &rtz::Zone, a: i128, f: &Sp, ts_min: i128, ts_max: i128) -> MAdd {
    let in_range = |x: i128| x >= ts_min && x <= ts_max;
    if !has_calendar(f) {
        let x = a + time_total(f);
        return if in_range(x) { MAdd::At(x, None) } else { MAdd::Fail };
    }
    let mut cal_only = [0i64; 10];
    cal_only[..4].copy_from_slice(&f[..4]);
    let Some(civil) = civil_add(z_to_civil(z, a), &cal_only) else { return MAdd::Fail };
    match z_resolve(z, civil) {
        Resolved::Unknown => MAdd::Unknown,
        Resolved::At(mid) => {
            let x = mid + time_total(f);
            if in_range(mid) && in_range(x) {
                MAdd::At(x, Some(mid))
            } else {
                MAdd::Fail
            }
        }
    }
}

#[cfg(test)]
mod tests {
    use super::*;
    #[test]
    fn jan31_feb28() {
        let a = cal::days_from_civil(2023, 1, 31) as i128 * DAY_NS;
        let b = cal::days_from_civil(2023, 2, 28) as i128 * DAY_NS;
        let [g, t] = expected_calendar(a, b, 1);
        assert_eq!(g.unwrap()[1], 1);
        assert_eq!(t.unwrap()[3], 28);
    }
}
