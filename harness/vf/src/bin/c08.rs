//! C08: civil date/time arithmetic follows the documented calendar rules.
//! E1: complete products (civil value pool) x (span / duration pool) x
//! (operation), in lockstep with an i128 reference built on R-cal.
//!
//! Oracle (DESIGN.md section 3/C08):
//! * `Date`/`DateTime` + span: years+months first on (y, m) with the day
//!   clamped to the target month's length, then weeks/days on the epoch-day
//!   count, then the time units as exact nanoseconds carried across midnight
//!   in 24-hour days (`Date`: time units summed and truncated toward zero to
//!   whole days). Error iff the *result* is outside -9999-01-01..=9999-12-31.
//! * absolute durations: exact nanoseconds (`Date`: whole days, truncated
//!   toward zero).
//! * `Time`: wrapping = exact arithmetic modulo 86400e9 ns; checked fails iff
//!   the result leaves the day (or, as documented, the span has non-zero
//!   units above hours); saturating clamps in the direction of the operand.
//! * operators on `Date`/`DateTime` panic exactly when `checked_*` is `Err`
//!   (documented); operators on `Time` wrap (documented).
//! * series: item k == start + k*period, exhausted exactly when k*period is
//!   no longer a span or the sum overflows (a zero period repeats the start).
//!
//! Alphabets: single units at 1, 2, every carry +-1, a mid-range magnitude,
//! the magnitudes around the absolute epoch-day range in every unit that can
//! express them, machine-integer widths (2^31, 2^32, 2^53) for the sub-hour
//! units, limit-1, limit; every 2-unit mix; every 3-unit mix over {carry+1,
//! mid}; fixed mixes and composite carries (time units that only together
//! reach a whole day); both signs. `c08/ext.rs` adds model-derived boundary
//! steps (last in-range count and one beyond, per start/unit/direction),
//! all operand forms (by reference, `*Arithmetic::from`, `+=`/`-=`), the
//! `DateTime` calendar helpers and a calendar grid (every day of a set of
//! years x small years/months spans).
//!
//! jiff values are read back through *strict* field readings: a date that is
//! not a calendar day or a time that is not a clock reading (hour 24, second
//! 60, ...) is poisoned instead of being summed into a plausible number.

use jiff::civil::{Date, DateTime, Time};
use jiff::{SignedDuration, Span};
use rayon::prelude::*;
use refmodel::cal;
use serde_json::json;
use std::collections::BTreeSet;
use std::sync::atomic::{AtomicU64, Ordering::Relaxed};
use std::time::Duration as UDur;
use vf::conv::{self, DAY_NS, NS};

// ---------------------------------------------------------------------------
// strict readings of jiff values (public accessors only)
// ---------------------------------------------------------------------------

/// Nanosecond of the day of a jiff time, read from its public fields. A
/// `Time` whose fields are not a clock reading (hour 24, second 60, a
/// sub-second of 1_000_000_000, which a defective carry can fabricate and
/// which would otherwise *sum* to the right nanosecond count) maps to a poison
/// value that never equals a model result. Same idea as
/// `vf::conv::date_epoch_day` for dates.
fn time_ns(t: Time) -> i128 {
    let (h, m, s, n) = (t.hour() as i128, t.minute() as i128, t.second() as i128, t.subsec_nanosecond() as i128);
    if !(0..24).contains(&h) || !(0..60).contains(&m) || !(0..60).contains(&s) || !(0..NS).contains(&n) {
        return TIME_POISON;
    }
    (h * 3600 + m * 60 + s) * NS + n
}
const TIME_POISON: i128 = -(1i128 << 100);

/// Civil datetime as nanoseconds since 1970-01-01T00:00:00 (wall clock);
/// poisoned when either component is not a valid reading.
fn dt_ns(dt: DateTime) -> i128 {
    let t = time_ns(dt.time());
    if t < 0 {
        return t;
    }
    // (an invalid date is poisoned by date_epoch_day: about -1e9 days)
    conv::date_epoch_day(dt.date()) as i128 * DAY_NS + t
}
use vf::{guard, panic_sig, Report};

// ---------------------------------------------------------------------------
// span alphabet
// ---------------------------------------------------------------------------

/// years, months, weeks, days, hours, minutes, seconds, ms, us, ns
type Sp = [i64; 10];
const UNAME: [&str; 10] = ["y", "mo", "w", "d", "h", "mi", "s", "ms", "us", "ns"];
const LIMITS: [i64; 10] = [
    19_998,
    239_976,
    1_043_497,
    7_304_484,
    175_307_616,
    10_518_456_960,
    631_107_417_600,
    631_107_417_600_000,
    631_107_417_600_000_000,
    i64::MAX,
];
const TIME_NS: [i128; 10] = [0, 0, 0, 0, 3_600 * NS, 60 * NS, NS, 1_000_000, 1_000, 1];

/// "carry" values per unit: next-unit size, one civil day expressed in the
/// unit, calendar cycle lengths, and the thresholds of 64-bit nanosecond
/// paths (largest value whose nanosecond count still fits an i64).
fn carries(u: usize) -> &'static [i64] {
    match u {
        0 => &[4, 100, 400],
        1 => &[12, 48],
        2 => &[4, 5, 52, 53],
        3 => &[7, 28, 29, 30, 31, 365, 366, 146_097],
        4 => &[24, 2_562_047],
        5 => &[60, 1_440, 153_722_867],
        6 => &[60, 86_400, 9_223_372_036],
        7 => &[1_000, 86_400_000, 9_223_372_036_854],
        8 => &[1_000, 1_000_000, 86_400_000_000, 9_223_372_036_854_775],
        9 => &[1_000, 1_000_000_000, 86_400_000_000_000],
        _ => unreachable!(),
    }
}

/// Magnitudes around the *absolute* range of dates counted from the epoch
/// (-4,371,587 ..= 2,932,896 days), expressed in the unit: a difference may
/// legitimately exceed them (up to the unit's limit), so an implementation
/// that validates a delta against an absolute range fails exactly here.
/// (For nanoseconds the count does not fit an i64: no such span exists.)
fn around_epoch_range(u: usize) -> &'static [i64] {
    match u {
        0 => &[8_029, 8_030, 11_968, 11_969],
        1 => &[96_359, 96_360, 143_624, 143_625],
        2 => &[418_985, 418_986, 624_512, 624_513],
        3 => &[2_932_896, 2_932_897, 4_371_587, 4_371_588, 7_304_476],
        4 => &[70_389_504, 70_389_528, 104_918_088, 104_918_112],
        5 => &[4_223_370_240, 4_223_371_680, 6_295_085_280, 6_295_086_720],
        6 => &[253_402_214_400, 253_402_300_800, 377_705_116_800, 377_705_203_200],
        7 => &[253_402_214_400_000, 253_402_300_800_000, 377_705_116_800_000, 377_705_203_200_000],
        8 => &[253_402_214_400_000_000, 253_402_300_800_000_000, 377_705_116_800_000_000, 377_705_203_200_000_000],
        _ => &[],
    }
}

/// Widths of machine integers a unit count could be narrowed to on some path
/// (i32, u32, f64 mantissa), where they are legal values of the unit.
const WIDTHS: [i64; 5] = [i32::MAX as i64, 1 << 31, u32::MAX as i64, 1 << 32, 1 << 53];

/// A mid-range magnitude per unit (about 41,000 days for the time units; the
/// nanosecond value stays below i64::MAX): large enough to leave every
/// small-value fast path, small enough that the result is usually in range.
const MID: [i64; 10] = [
    1_000,
    1_001,
    5_003,
    40_003,
    1_000_003,
    60_000_007,
    3_600_000_011,
    3_600_000_000_013,
    3_600_000_000_000_017,
    3_600_000_000_000_000_019,
];

fn single_values(u: usize) -> Vec<i64> {
    let mut s = BTreeSet::new();
    for x in [1, 2, LIMITS[u] - 1, LIMITS[u], MID[u]] {
        s.insert(x);
    }
    for &c in carries(u) {
        for x in [c - 1, c, c + 1] {
            s.insert(x);
        }
    }
    for &x in around_epoch_range(u) {
        s.insert(x);
    }
    if u >= 5 {
        for x in WIDTHS {
            for y in [x - 1, x, x + 1] {
                s.insert(y);
            }
        }
    }
    s.into_iter().filter(|&x| x >= 1 && x <= LIMITS[u]).collect()
}

fn mix_values(u: usize, thorough: bool) -> Vec<i64> {
    let c = carries(u);
    let mut s = BTreeSet::new();
    for x in [1, c[0], c[0] + 1, *c.last().unwrap(), LIMITS[u], MID[u]] {
        s.insert(x);
    }
    if thorough {
        for x in [2, c[0] - 1, c[c.len() / 2], c[c.len() / 2] + 1, *c.last().unwrap() + 1, LIMITS[u] - 1] {
            s.insert(x);
        }
    }
    // magnitudes around the absolute epoch-day range (see around_epoch_range)
    for &x in around_epoch_range(u) {
        s.insert(x);
    }
    s.into_iter().filter(|&x| x >= 1 && x <= LIMITS[u]).collect()
}

fn span_pool(thorough: bool) -> Vec<Sp> {
    let mut seen = BTreeSet::new();
    let mut out: Vec<Sp> = vec![];
    let mut push = |sp: Sp| {
        if seen.insert(sp) {
            out.push(sp);
        }
        let mut n = sp;
        for x in n.iter_mut() {
            *x = -*x;
        }
        if seen.insert(n) {
            out.push(n);
        }
    };
    push([0; 10]);
    for u in 0..10 {
        for x in single_values(u) {
            let mut sp = [0; 10];
            sp[u] = x;
            push(sp);
        }
    }
    for u in 0..10 {
        for w in (u + 1)..10 {
            for a in mix_values(u, thorough) {
                for b in mix_values(w, thorough) {
                    let mut sp = [0; 10];
                    sp[u] = a;
                    sp[w] = b;
                    push(sp);
                }
            }
        }
    }
    // fixed mixes: y+mo+d, mo+d+h, d+h+ns, all ten units
    let mixes: [&[usize]; 4] = [&[0, 1, 3], &[1, 3, 4], &[3, 4, 9], &[0, 1, 2, 3, 4, 5, 6, 7, 8, 9]];
    for m in mixes {
        for kind in 0..5 {
            let mut sp = [0; 10];
            for &u in m {
                sp[u] = match kind {
                    0 => 1,
                    1 => carries(u)[0],
                    2 => carries(u)[0] + 1,
                    3 => LIMITS[u] - 1,
                    _ => LIMITS[u],
                };
            }
            push(sp);
        }
    }
    // every 3-unit mix over a small alphabet: just past the first carry and
    // the mid-range magnitude (thorough: also 1)
    let tri = |u: usize| -> Vec<i64> {
        let mut v = vec![carries(u)[0] + 1, MID[u]];
        if thorough {
            v.push(1);
        }
        v
    };
    for u in 0..10 {
        for w in (u + 1)..10 {
            for z in (w + 1)..10 {
                for &a in &tri(u) {
                    for &b in &tri(w) {
                        for &c in &tri(z) {
                            let mut sp = [0; 10];
                            sp[u] = a;
                            sp[w] = b;
                            sp[z] = c;
                            push(sp);
                        }
                    }
                }
            }
        }
    }
    // composite carries: time units that only *together* reach a whole number
    // of days (one nanosecond short of it, exactly it, one past it), alone and
    // on top of calendar units
    for days in [1i64, 2, 366] {
        for delta in [-1i64, 0, 1] {
            for cal in [[0i64; 4], [0, 0, 0, 1], [0, 1, 0, 0], [1, 0, 1, 0], [0, 11, 0, 27]] {
                let mut sp = [0i64; 10];
                sp[..4].copy_from_slice(&cal);
                sp[4] = days * 24 - 1;
                sp[5] = 59;
                sp[6] = 59;
                sp[7] = 999;
                sp[8] = 999;
                sp[9] = 1_000 + delta;
                push(sp);
                // the same total with every unit above its natural carry
                let mut sp2 = [0i64; 10];
                sp2[..4].copy_from_slice(&cal);
                sp2[4] = (days - 1) * 24;
                sp2[5] = 23 * 60;
                sp2[6] = 59 * 60;
                sp2[7] = 59_000;
                sp2[8] = 999_000;
                sp2[9] = 1_000_000 + delta;
                push(sp2);
            }
        }
    }
    out
}

fn to_span(sp: &Sp) -> Span {
    let neg = sp.iter().any(|&x| x < 0);
    assert!(!(neg && sp.iter().any(|&x| x > 0)), "pool spans are single-signed");
    let a: Vec<i64> = sp.iter().map(|x| x.abs()).collect();
    let s = Span::new()
        .try_years(a[0])
        .and_then(|s| s.try_months(a[1]))
        .and_then(|s| s.try_weeks(a[2]))
        .and_then(|s| s.try_days(a[3]))
        .and_then(|s| s.try_hours(a[4]))
        .and_then(|s| s.try_minutes(a[5]))
        .and_then(|s| s.try_seconds(a[6]))
        .and_then(|s| s.try_milliseconds(a[7]))
        .and_then(|s| s.try_microseconds(a[8]))
        .and_then(|s| s.try_nanoseconds(a[9]))
        .expect("pool span within documented limits");
    let s = if neg { s.negate() } else { s };
    let back: Sp = [
        s.get_years() as i64,
        s.get_months() as i64,
        s.get_weeks() as i64,
        s.get_days() as i64,
        s.get_hours() as i64,
        s.get_minutes(),
        s.get_seconds(),
        s.get_milliseconds(),
        s.get_microseconds(),
        s.get_nanoseconds(),
    ];
    assert_eq!(&back, sp, "span construction round trip");
    s
}

fn fmt_sp(sp: &Sp) -> String {
    let parts: Vec<String> =
        (0..10).filter(|&u| sp[u] != 0).map(|u| format!("{}={}", UNAME[u], sp[u])).collect();
    format!("span{{{}}}", parts.join(","))
}

#[derive(Clone, Copy)]
struct Parts {
    months: i64,
    days: i64,
    time_ns: i128,
    cal_nonzero: bool,
    /// -1, 0, +1
    sign: i8,
}

fn parts(sp: &Sp, dir: i64) -> Parts {
    let time_ns: i128 = (4..10).map(|u| sp[u] as i128 * TIME_NS[u]).sum();
    let sign = if sp.iter().any(|&x| x < 0) {
        -1
    } else if sp.iter().any(|&x| x > 0) {
        1
    } else {
        0
    };
    Parts {
        months: dir * (sp[0] * 12 + sp[1]),
        days: dir * (sp[2] * 7 + sp[3]),
        time_ns: dir as i128 * time_ns,
        cal_nonzero: sp[..4].iter().any(|&x| x != 0),
        sign: sign * dir as i8,
    }
}

fn day_in_range(e: i128) -> bool {
    e >= cal::min_day() as i128 && e <= cal::max_day() as i128
}

/// (y, m, d) + calendar part of the span -> epoch day (unbounded).
fn cal_add(ymd: (i64, i64, i64), p: &Parts) -> (i128, bool) {
    let (y, m, d) = ymd;
    let (y2, m2) = cal::add_months(y, m, p.months);
    let dim = cal::days_in_month(y2, m2);
    let d2 = d.min(dim);
    (cal::days_from_civil(y2, m2, d2) as i128 + p.days as i128, d2 != d)
}

fn model_date_add(ymd: (i64, i64, i64), p: &Parts) -> (Option<i64>, bool) {
    let (e, clamped) = cal_add(ymd, p);
    let e = e + p.time_ns / DAY_NS; // truncation toward zero
    (if day_in_range(e) { Some(e as i64) } else { None }, clamped)
}

fn model_dt_add(ymd: (i64, i64, i64), tod: i128, p: &Parts) -> (Option<i128>, bool, bool) {
    let (e, clamped) = cal_add(ymd, p);
    let total = tod + p.time_ns;
    let carry = total.div_euclid(DAY_NS);
    let e = e + carry;
    let r = if day_in_range(e) { Some(e * DAY_NS + total.rem_euclid(DAY_NS)) } else { None };
    (r, clamped, carry != 0)
}

// ---------------------------------------------------------------------------
// value pools
// ---------------------------------------------------------------------------

fn date_pool(thorough: bool) -> Vec<Date> {
    let mut v = vf::pools::dates();
    // every month end of two leap cycles (quick: of 2023 and 2024); thorough
    // adds the month ends of the first, last and the years around zero
    let years: Vec<i64> = if thorough {
        (2021..=2028).chain([-9999, -4, -1, 0, 1, 4, 9999]).collect()
    } else {
        vec![2023, 2024]
    };
    for y in years {
        for m in 1..=12i64 {
            let d = cal::days_in_month(y, m);
            v.push(Date::new(y as i16, m as i8, d as i8).unwrap());
        }
    }
    let mut seen = BTreeSet::new();
    v.retain(|d| seen.insert(conv::date_epoch_day(*d)));
    v
}

fn time_pool() -> Vec<Time> {
    let mut v = vf::pools::times();
    for (h, m, s, n) in [(23i8, 59i8, 59i8, 999_999_998i32), (6, 0, 0, 0), (18, 0, 0, 0), (0, 0, 59, 0)] {
        v.push(Time::new(h, m, s, n).unwrap());
    }
    v
}

fn fmt_ymd(ymd: (i64, i64, i64)) -> String {
    format!("{}-{:02}-{:02}", ymd.0, ymd.1, ymd.2)
}
fn fmt_tod(n: i128) -> String {
    let s = n / NS;
    format!("{:02}:{:02}:{:02}.{:09}", s / 3600, (s / 60) % 60, s % 60, n % NS)
}

/// (secs, nanos) with equal signs -> SignedDuration, checked against accessors
fn sdur(secs: i64, nanos: i32) -> SignedDuration {
    let d = SignedDuration::new(secs, nanos);
    assert!(d.as_secs() == secs && d.subsec_nanos() == nanos);
    d
}

fn sdur_pool(thorough: bool) -> Vec<(i64, i32)> {
    let mut secs: Vec<i64> = vec![0, 1, 59, 60, 3_599, 3_600, 86_399, 86_400, 86_401, 172_800];
    let days: &[i64] = if thorough {
        &[365, 366, 146_097, 2_932_896, 2_932_897, 4_371_587, 4_371_588, 7_304_483, 7_304_484, 7_304_485]
    } else {
        &[366, 2_932_896, 4_371_587, 7_304_483, 7_304_484]
    };
    for &n in days {
        secs.extend([n * 86_400 - 1, n * 86_400, n * 86_400 + 1]);
    }
    secs.extend([i64::MAX / 1_000_000_000, i64::MAX / 1_000_000_000 + 1, i64::MAX - 1, i64::MAX]);
    // widths a second count could be narrowed to, and the points where the
    // count multiplied by 1e3/1e6 (ms, us), 60, 3600 or 86400 leaves an i64
    for x in [i32::MAX as i64, 1 << 32, i64::MAX / 1_000, i64::MAX / 1_000_000, i64::MAX / 60, i64::MAX / 3_600, i64::MAX / 86_400] {
        secs.extend([x, x + 1]);
    }
    let nanos: &[i32] = &[0, 1, 500_000_000, 999_999_999];
    let mut out = vec![];
    let mut seen = BTreeSet::new();
    for &s in &secs {
        for &n in nanos {
            for sign in [1i64, -1] {
                let p = (sign * s, sign as i32 * n);
                if seen.insert(p) {
                    out.push(p);
                }
            }
        }
    }
    for &n in nanos {
        out.push((i64::MIN, -n));
    }
    out
}

fn udur_pool() -> Vec<(u64, u32)> {
    let mut secs: Vec<u64> = vec![0, 1, 86_399, 86_400, 86_401];
    for n in [366u64, 2_932_896, 4_371_587, 7_304_483, 7_304_484] {
        secs.extend([n * 86_400 - 1, n * 86_400, n * 86_400 + 1]);
    }
    secs.extend([i64::MAX as u64 - 1, i64::MAX as u64, 1u64 << 63, (1u64 << 63) + 1, u64::MAX]);
    let mut out = vec![];
    for s in secs {
        for n in [0u32, 1, 999_999_999] {
            out.push((s, n));
        }
    }
    out
}

// ---------------------------------------------------------------------------
// comparison helpers
// ---------------------------------------------------------------------------

struct Tally {
    ok: AtomicU64,
    err: AtomicU64,
    sat_min: AtomicU64,
    sat_max: AtomicU64,
    clamped: AtomicU64,
    carried: AtomicU64,
    wrapped: AtomicU64,
    op_panics: AtomicU64,
    f6_class: AtomicU64,
    n1_class: AtomicU64,
    /// results exactly at the type's minimum or maximum
    at_limit: AtomicU64,
}
impl Tally {
    fn new() -> Tally {
        Tally {
            ok: AtomicU64::new(0),
            err: AtomicU64::new(0),
            sat_min: AtomicU64::new(0),
            sat_max: AtomicU64::new(0),
            clamped: AtomicU64::new(0),
            carried: AtomicU64::new(0),
            wrapped: AtomicU64::new(0),
            op_panics: AtomicU64::new(0),
            f6_class: AtomicU64::new(0),
            n1_class: AtomicU64::new(0),
            at_limit: AtomicU64::new(0),
        }
    }
}

/// checked_* : Option<value>
fn ck_checked<V: PartialEq + core::fmt::Debug>(
    r: &Report,
    sec: &str,
    sig: &str,
    over: Option<&str>,
    case: &dyn Fn() -> String,
    got: Result<Option<V>, String>,
    want: &Option<V>,
) {
    match got {
        Err(p) => r.viol(sec, &format!("{}/{}", sig, panic_sig(&p)), case(), p),
        Ok(got) => {
            if got != *want {
                let cls = match (&got, want) {
                    (Some(_), Some(_)) => "value",
                    (None, Some(_)) => "err-but-result-in-range",
                    _ => "ok-but-result-out-of-range",
                };
                let full = format!("{}/{}", sig, cls);
                r.viol(sec, over.unwrap_or(&full), case(), format!("jiff {:?} model {:?}", got, want));
            }
        }
    }
}

/// saturating_* / wrapping_* : value
fn ck_total<V: PartialEq + core::fmt::Debug>(
    r: &Report,
    sec: &str,
    sig: &str,
    cls: &str,
    over: Option<&str>,
    case: &dyn Fn() -> String,
    got: Result<V, String>,
    want: &V,
) {
    match got {
        Err(p) => r.viol(sec, &format!("{}/{}", sig, panic_sig(&p)), case(), p),
        Ok(got) => {
            if got != *want {
                let full = format!("{}/{}", sig, cls);
                r.viol(sec, over.unwrap_or(&full), case(), format!("jiff {:?} model {:?}", got, want));
            }
        }
    }
}

/// `+` / `-` on Date and DateTime: documented to panic exactly on overflow.
fn ck_operator<V: PartialEq + core::fmt::Debug>(
    r: &Report,
    t: &Tally,
    sec: &str,
    sig: &str,
    over: Option<&str>,
    case: &dyn Fn() -> String,
    got: Result<V, String>,
    want: &Option<V>,
) {
    match (got, want) {
        (Err(_), None) => {
            t.op_panics.fetch_add(1, Relaxed);
        }
        (Err(p), Some(w)) => {
            let full = format!("{}/panic-but-result-in-range", sig);
            r.viol(sec, over.unwrap_or(&full), case(), format!("jiff panic {} model {:?}", p, w))
        }
        (Ok(g), None) => r.viol(sec, &format!("{}/no-panic-but-result-out-of-range", sig), case(), format!("jiff {:?} model overflow", g)),
        (Ok(g), Some(w)) => {
            if g != *w {
                r.viol(sec, &format!("{}/value", sig), case(), format!("jiff {:?} model {:?}", g, w));
            }
        }
    }
}

/// Run the six operations of `Date`/`DateTime` for one (value, operand) pair.
/// `add`/`sub`: model results; `neg`: operand is negative (for saturation).
macro_rules! six_ops {
    ($r:expr, $t:expr, $sec:expr, $ty:literal, $kind:literal, $v:expr, $x:expr, $conv:expr,
     $add:expr, $sub:expr, $sign:expr, $min:expr, $max:expr, $case:expr, $ops:expr, $oadd:expr, $osub:expr) => {{
        let (v, x) = ($v, $x);
        let add = $add;
        let sub = $sub;
        let sign: i8 = $sign;
        let oadd: Option<&str> = $oadd;
        let osub: Option<&str> = $osub;
        ck_checked($r, $sec, concat!($ty, "::checked_add(", $kind, ")"), oadd, &|| $case("checked_add"), guard(|| v.checked_add(x).ok().map($conv)), &add);
        ck_checked($r, $sec, concat!($ty, "::checked_sub(", $kind, ")"), osub, &|| $case("checked_sub"), guard(|| v.checked_sub(x).ok().map($conv)), &sub);
        let want_sa = add.unwrap_or(if sign < 0 { $min } else { $max });
        let want_ss = sub.unwrap_or(if sign < 0 { $max } else { $min });
        ck_total($r, $sec, concat!($ty, "::saturating_add(", $kind, ")"), "value", oadd, &|| $case("saturating_add"), guard(|| $conv(v.saturating_add(x))), &want_sa);
        ck_total($r, $sec, concat!($ty, "::saturating_sub(", $kind, ")"), "value", osub, &|| $case("saturating_sub"), guard(|| $conv(v.saturating_sub(x))), &want_ss);
        for w in [&add, &sub] {
            match w {
                Some(_) => $t.ok.fetch_add(1, Relaxed),
                None => $t.err.fetch_add(1, Relaxed),
            };
        }
        if add.is_none() {
            if sign < 0 { $t.sat_min.fetch_add(1, Relaxed) } else { $t.sat_max.fetch_add(1, Relaxed) };
        }
        if sub.is_none() {
            if sign < 0 { $t.sat_max.fetch_add(1, Relaxed) } else { $t.sat_min.fetch_add(1, Relaxed) };
        }
        if $ops {
            ck_operator($r, $t, $sec, concat!($ty, " + ", $kind), oadd, &|| $case("+"), guard(|| $conv(v + x)), &add);
            ck_operator($r, $t, $sec, concat!($ty, " - ", $kind), osub, &|| $case("-"), guard(|| $conv(v - x)), &sub);
            6u64
        } else {
            4u64
        }
    }};
}

// ---------------------------------------------------------------------------
// one (value, span) pair, all operations
// ---------------------------------------------------------------------------

/// `Date` x `Span`: checked/saturating add/sub (and `+`/`-` when `ops`).
/// Returns the number of operations evaluated.
fn date_span_case(r: &Report, t: &Tally, sec: &str, d: Date, ymd: (i64, i64, i64), sp: &Sp, span: Span, ops: bool) -> u64 {
    let (dmin, dmax) = (cal::min_day(), cal::max_day());
    let (add, c1) = model_date_add(ymd, &parts(sp, 1));
    let (sub, c2) = model_date_add(ymd, &parts(sp, -1));
    if c1 || c2 {
        t.clamped.fetch_add(1, Relaxed);
    }
    for w in [add, sub] {
        if w == Some(dmin) || w == Some(dmax) {
            t.at_limit.fetch_add(1, Relaxed);
        }
    }
    let sign = parts(sp, 1).sign;
    let case = |op: &str| format!("Date {} {} {}", fmt_ymd(ymd), op, fmt_sp(sp));
    six_ops!(r, t, sec, "Date", "span", d, span, conv::date_epoch_day, add, sub, sign, dmin, dmax, case, ops, None, None)
}

/// `DateTime` x `Span`.
fn dt_span_case(r: &Report, t: &Tally, sec: &str, dt: DateTime, ymd: (i64, i64, i64), tod: i128, sp: &Sp, span: Span, ops: bool) -> u64 {
    let (dtmin, dtmax) = (conv::dt_min_ns(), conv::dt_max_ns());
    let (add, c1, y1) = model_dt_add(ymd, tod, &parts(sp, 1));
    let (sub, c2, y2) = model_dt_add(ymd, tod, &parts(sp, -1));
    if c1 || c2 {
        t.clamped.fetch_add(1, Relaxed);
    }
    if y1 || y2 {
        t.carried.fetch_add(1, Relaxed);
    }
    for w in [add, sub] {
        if w == Some(dtmin) || w == Some(dtmax) {
            t.at_limit.fetch_add(1, Relaxed);
        }
    }
    let sign = parts(sp, 1).sign;
    let case = |op: &str| format!("DateTime {}T{} {} {}", fmt_ymd(ymd), fmt_tod(tod), op, fmt_sp(sp));
    six_ops!(r, t, sec, "DateTime", "span", dt, span, dt_ns, add, sub, sign, dtmin, dtmax, case, ops, None, None)
}

/// `Time` x `Span`: checked/saturating/wrapping add and sub and the operators
/// (8 operations).
fn time_span_case(r: &Report, t: &Tally, sec: &str, tm: Time, tod: i128, sp: &Sp, span: Span) {
    let pa = parts(sp, 1);
    let ps = parts(sp, -1);
    for (dir, p) in [(1, &pa), (-1, &ps)] {
        let total = tod + p.time_ns;
        let in_day = (0..DAY_NS).contains(&total) && !p.cal_nonzero;
        let checked = if in_day { Some(total) } else { None };
        let sat = checked.unwrap_or(if p.sign < 0 { 0 } else { DAY_NS - 1 });
        let wrap = total.rem_euclid(DAY_NS);
        // F6: the 64-bit wrapping sum equals the exact sum iff the exact sum fits an i64
        let f6 = total > i64::MAX as i128 || total < i64::MIN as i128;
        if f6 {
            t.f6_class.fetch_add(1, Relaxed);
        }
        if !in_day {
            t.wrapped.fetch_add(1, Relaxed);
            t.err.fetch_add(1, Relaxed);
            if p.sign < 0 { t.sat_min.fetch_add(1, Relaxed) } else { t.sat_max.fetch_add(1, Relaxed) };
        } else {
            t.ok.fetch_add(1, Relaxed);
            if total == 0 || total == DAY_NS - 1 {
                t.at_limit.fetch_add(1, Relaxed);
            }
        }
        let case = |op: &str| format!("Time {} {} {}", fmt_tod(tod), op, fmt_sp(sp));
        let wsig = if f6 { "Time::wrapping_{add,sub}(span)" } else if dir > 0 { "Time::wrapping_add(span)" } else { "Time::wrapping_sub(span)" };
        let osig = if f6 { "Time::wrapping_{add,sub}(span)" } else if dir > 0 { "Time + span" } else { "Time - span" };
        let wcls = if f6 { "mod24h:|total_ns|>i64::MAX" } else { "value" };
        if dir > 0 {
            ck_checked(r, sec, "Time::checked_add(span)", None, &|| case("checked_add"), guard(|| tm.checked_add(span).ok().map(time_ns)), &checked);
            ck_total(r, sec, "Time::saturating_add(span)", "value", None, &|| case("saturating_add"), guard(|| time_ns(tm.saturating_add(span))), &sat);
            f6_aware(r, sec, wsig, wcls, f6, &|| case("wrapping_add"), guard(|| time_ns(tm.wrapping_add(span))), wrap);
            f6_aware(r, sec, osig, wcls, f6, &|| case("+"), guard(|| time_ns(tm + span)), wrap);
        } else {
            ck_checked(r, sec, "Time::checked_sub(span)", None, &|| case("checked_sub"), guard(|| tm.checked_sub(span).ok().map(time_ns)), &checked);
            ck_total(r, sec, "Time::saturating_sub(span)", "value", None, &|| case("saturating_sub"), guard(|| time_ns(tm.saturating_sub(span))), &sat);
            f6_aware(r, sec, wsig, wcls, f6, &|| case("wrapping_sub"), guard(|| time_ns(tm.wrapping_sub(span))), wrap);
            f6_aware(r, sec, osig, wcls, f6, &|| case("-"), guard(|| time_ns(tm - span)), wrap);
        }
    }
}

#[path = "c08/ext.rs"]
mod ext;

fn main() {
    let r = Report::from_args("C08");
    let thorough = r.thorough();
    let sps = span_pool(thorough);
    let spans: Vec<(Sp, Span)> = sps.iter().map(|sp| (*sp, to_span(sp))).collect();
    let dates = date_pool(thorough);
    let times = time_pool();
    let sdurs = sdur_pool(thorough);
    let udurs = udur_pool();
    let t = Tally::new();
    r.count("span_pool", spans.len() as u64);
    r.count("date_pool", dates.len() as u64);
    r.count("time_pool", times.len() as u64);
    r.count("sdur_pool", sdurs.len() as u64);
    r.count("udur_pool", udurs.len() as u64);
    r.note(format!(
        "alphabets: {} spans (single units at 0,1,2,carry-1..carry+1,mid,epoch-day-range+-,2^31/2^32/2^53,limit-1,limit; all 2-unit mixes; all 3-unit mixes over a small alphabet; fixed mixes; composite carries; both signs), {} dates, {} times, {} signed durations, {} unsigned durations",
        spans.len(), dates.len(), times.len(), sdurs.len(), udurs.len()
    ));

    let dmin = cal::min_day();
    let dmax = cal::max_day();
    let dtmin = conv::dt_min_ns();
    let dtmax = conv::dt_max_ns();

    // ---------------- Date x Span ----------------
    r.section("date_span", || {
        dates.par_iter().for_each(|&d| {
            let ymd = conv::date_ymd(d);
            let mut n = 0u64;
            let mut k = 0u64;
            for (sp, span) in &spans {
                k += date_span_case(&r, &t, "date_span", d, ymd, sp, *span, true);
                n += 1;
            }
            r.add_states(n);
            r.add_transitions(k);
            r.add_validated(k);
        });
        r.sample(json!({"op": "Date 2024-01-31 + span{mo=1}", "model_epoch_day": model_date_add((2024, 1, 31), &parts(&[0, 1, 0, 0, 0, 0, 0, 0, 0, 0], 1)).0}));
    });

    // ---------------- DateTime x Span ----------------
    r.section("datetime_span", || {
        let dts: Vec<(Date, Time)> = dates.iter().flat_map(|&d| times.iter().map(move |&tm| (d, tm))).collect();
        dts.par_iter().enumerate().for_each(|(idx, &(d, tm))| {
            let ymd = conv::date_ymd(d);
            let tod = time_ns(tm);
            let dt = DateTime::from_parts(d, tm);
            // quick: operators (which panic on overflow) on every third datetime only
            let ops = thorough || idx % 3 == 0;
            let mut n = 0u64;
            let mut k = 0u64;
            for (sp, span) in &spans {
                k += dt_span_case(&r, &t, "datetime_span", dt, ymd, tod, sp, *span, ops);
                n += 1;
            }
            r.add_states(n);
            r.add_transitions(k);
            r.add_validated(k);
        });
    });

    // ---------------- Time x Span ----------------
    r.section("time_span", || {
        times.par_iter().for_each(|&tm| {
            let tod = time_ns(tm);
            let mut n = 0u64;
            for (sp, span) in &spans {
                time_span_case(&r, &t, "time_span", tm, tod, sp, *span);
                n += 1;
            }
            r.add_states(n);
            r.add_transitions(n * 8);
            r.add_validated(n * 8);
        });
        r.sample(json!({"op": "Time 01:00 wrapping_add span{h=2562047}", "model_ns": (3_600 * NS + 2_562_047i128 * 3_600 * NS).rem_euclid(DAY_NS)}));
    });

    // ---------------- absolute durations ----------------
    r.section("date_dur", || {
        dates.par_iter().for_each(|&d| {
            let e = conv::date_epoch_day(d) as i128;
            let ymd = conv::date_ymd(d);
            let mut k = 0u64;
            let mut n = 0u64;
            let model = |ns: i128| -> Option<i64> {
                let x = e + ns / DAY_NS;
                if day_in_range(x) { Some(x as i64) } else { None }
            };
            // input class N1: the whole-day count of the duration is itself
            // outside the range of epoch days although the sum is in range
            let n1 = |ns: i128| -> Option<&'static str> {
                if day_delta_class(ns / DAY_NS) { t.n1_class.fetch_add(1, Relaxed); Some(N1_DATE) } else { None }
            };
            for &(s, nn) in &sdurs {
                let dur = sdur(s, nn);
                let ns = s as i128 * NS + nn as i128;
                let sign = ns.signum() as i8;
                let case = |op: &str| format!("Date {} {} sdur({}s,{}ns)", fmt_ymd(ymd), op, s, nn);
                k += six_ops!(&r, &t, "date_dur", "Date", "sdur", d, dur, conv::date_epoch_day, model(ns), model(-ns), sign, dmin, dmax, case, true, n1(ns), n1(-ns));
                n += 1;
            }
            for &(s, nn) in &udurs {
                let dur = UDur::new(s, nn);
                let ns = s as i128 * NS + nn as i128;
                let sign = ns.signum() as i8;
                let case = |op: &str| format!("Date {} {} udur({}s,{}ns)", fmt_ymd(ymd), op, s, nn);
                k += six_ops!(&r, &t, "date_dur", "Date", "udur", d, dur, conv::date_epoch_day, model(ns), model(-ns), sign, dmin, dmax, case, true, n1(ns), n1(-ns));
                n += 1;
            }
            r.add_states(n);
            r.add_transitions(k);
            r.add_validated(k);
        });
    });

    r.section("datetime_dur", || {
        let dts: Vec<(Date, Time)> = dates.iter().flat_map(|&d| times.iter().map(move |&tm| (d, tm))).collect();
        dts.par_iter().for_each(|&(d, tm)| {
            let dt = DateTime::from_parts(d, tm);
            let c = dt_ns(dt);
            let ymd = conv::date_ymd(d);
            let tod = time_ns(tm);
            let mut k = 0u64;
            let mut n = 0u64;
            let model = |ns: i128| -> Option<i128> {
                let x = c + ns;
                if x >= dtmin && x <= dtmax { Some(x) } else { None }
            };
            let n1 = |ns: i128| -> Option<&'static str> {
                if day_delta_class((tod + ns).div_euclid(DAY_NS)) { t.n1_class.fetch_add(1, Relaxed); Some(N1_DATETIME) } else { None }
            };
            for &(s, nn) in &sdurs {
                let dur = sdur(s, nn);
                let ns = s as i128 * NS + nn as i128;
                if (tod + ns).div_euclid(DAY_NS) != 0 {
                    t.carried.fetch_add(1, Relaxed);
                }
                let sign = ns.signum() as i8;
                let case = |op: &str| format!("DateTime {}T{} {} sdur({}s,{}ns)", fmt_ymd(ymd), fmt_tod(tod), op, s, nn);
                k += six_ops!(&r, &t, "datetime_dur", "DateTime", "sdur", dt, dur, dt_ns, model(ns), model(-ns), sign, dtmin, dtmax, case, true, n1(ns), n1(-ns));
                n += 1;
            }
            for &(s, nn) in &udurs {
                let dur = UDur::new(s, nn);
                let ns = s as i128 * NS + nn as i128;
                let sign = ns.signum() as i8;
                let case = |op: &str| format!("DateTime {}T{} {} udur({}s,{}ns)", fmt_ymd(ymd), fmt_tod(tod), op, s, nn);
                k += six_ops!(&r, &t, "datetime_dur", "DateTime", "udur", dt, dur, dt_ns, model(ns), model(-ns), sign, dtmin, dtmax, case, true, n1(ns), n1(-ns));
                n += 1;
            }
            r.add_states(n);
            r.add_transitions(k);
            r.add_validated(k);
        });
    });

    r.section("time_dur", || {
        times.par_iter().for_each(|&tm| {
            let tod = time_ns(tm);
            let mut n = 0u64;
            macro_rules! time_dur {
                ($kind:literal, $dur:expr, $ns:expr, $case:expr) => {{
                    let dur = $dur;
                    let ns: i128 = $ns;
                    for dir in [1i128, -1] {
                        let total = tod + dir * ns;
                        let in_day = (0..DAY_NS).contains(&total);
                        let checked = if in_day { Some(total) } else { None };
                        let neg = dir * ns < 0;
                        let sat = checked.unwrap_or(if neg { 0 } else { DAY_NS - 1 });
                        let wrap = total.rem_euclid(DAY_NS);
                        if in_day {
                            t.ok.fetch_add(1, Relaxed);
                        } else {
                            t.err.fetch_add(1, Relaxed);
                            t.wrapped.fetch_add(1, Relaxed);
                            if neg { t.sat_min.fetch_add(1, Relaxed) } else { t.sat_max.fetch_add(1, Relaxed) };
                        }
                        if dir > 0 {
                            ck_checked(&r, "time_dur", concat!("Time::checked_add(", $kind, ")"), None, &|| $case("checked_add"), guard(|| tm.checked_add(dur).ok().map(time_ns)), &checked);
                            ck_total(&r, "time_dur", concat!("Time::saturating_add(", $kind, ")"), "value", None, &|| $case("saturating_add"), guard(|| time_ns(tm.saturating_add(dur))), &sat);
                            ck_total(&r, "time_dur", concat!("Time::wrapping_add(", $kind, ")"), "value", None, &|| $case("wrapping_add"), guard(|| time_ns(tm.wrapping_add(dur))), &wrap);
                            ck_total(&r, "time_dur", concat!("Time + ", $kind), "value", None, &|| $case("+"), guard(|| time_ns(tm + dur)), &wrap);
                        } else {
                            ck_checked(&r, "time_dur", concat!("Time::checked_sub(", $kind, ")"), None, &|| $case("checked_sub"), guard(|| tm.checked_sub(dur).ok().map(time_ns)), &checked);
                            ck_total(&r, "time_dur", concat!("Time::saturating_sub(", $kind, ")"), "value", None, &|| $case("saturating_sub"), guard(|| time_ns(tm.saturating_sub(dur))), &sat);
                            ck_total(&r, "time_dur", concat!("Time::wrapping_sub(", $kind, ")"), "value", None, &|| $case("wrapping_sub"), guard(|| time_ns(tm.wrapping_sub(dur))), &wrap);
                            ck_total(&r, "time_dur", concat!("Time - ", $kind), "value", None, &|| $case("-"), guard(|| time_ns(tm - dur)), &wrap);
                        }
                    }
                    n += 1;
                }};
            }
            for &(s, nn) in &sdurs {
                let case = |op: &str| format!("Time {} {} sdur({}s,{}ns)", fmt_tod(tod), op, s, nn);
                time_dur!("sdur", sdur(s, nn), s as i128 * NS + nn as i128, case);
            }
            for &(s, nn) in &udurs {
                let case = |op: &str| format!("Time {} {} udur({}s,{}ns)", fmt_tod(tod), op, s, nn);
                time_dur!("udur", UDur::new(s, nn), s as i128 * NS + nn as i128, case);
            }
            r.add_states(n);
            r.add_transitions(n * 8);
            r.add_validated(n * 8);
        });
    });

    // ---------------- extensions (c08/ext.rs) ----------------
    r.section("boundary_steps", || ext::boundary_steps(&r, &t, &dates, &times));
    r.section("operand_forms", || ext::operand_forms(&r, &t, &dates, &times, &spans, &sdurs, &udurs));
    r.section("datetime_helpers", || ext::datetime_helpers(&r, &dates, &times, thorough));
    r.section("calendar_grid", || ext::calendar_grid(&r, &t, thorough));

    // ---------------- series ----------------
    r.section("series", || {
        let n_items: usize = if thorough { 400 } else { 120 };
        let periods: Vec<Sp> = series_periods();
        let pspans: Vec<(Sp, Span)> = periods.iter().map(|sp| (*sp, to_span(sp))).collect();
        r.count("series_periods", pspans.len() as u64);
        let ended = AtomicU64::new(0);
        let ended_span = AtomicU64::new(0);
        let full = AtomicU64::new(0);
        // span k*period valid?
        let mul = |sp: &Sp, k: i64| -> Option<Sp> {
            let mut o = [0i64; 10];
            for u in 0..10 {
                let x = sp[u] as i128 * k as i128;
                if x.abs() > LIMITS[u] as i128 {
                    return None;
                }
                o[u] = x as i64;
            }
            Some(o)
        };
        let compare = |what: &str, case: &dyn Fn() -> String, got: Result<Vec<Option<i128>>, String>, want: &Vec<Option<i128>>| {
            match got {
                Err(p) => r.viol("series", &format!("{}::series/{}", what, panic_sig(&p)), case(), p),
                Ok(g) => {
                    if g != *want {
                        let k = (0..g.len().max(want.len())).find(|&i| g.get(i) != want.get(i)).unwrap();
                        let cls = match (g.get(k).copied().flatten(), want.get(k).copied().flatten()) {
                            (Some(_), Some(_)) => "item-value",
                            (None, Some(_)) => "ends-early",
                            _ => "ends-late",
                        };
                        r.viol("series", &format!("{}::series/{}", what, cls), case(), format!("first difference at item {}: jiff {:?} model {:?}", k, g.get(k), want.get(k)));
                    }
                }
            }
        };
        // model: items until the first None (inclusive), at most n_items
        let model_seq = |f: &dyn Fn(&Sp) -> Option<i128>, sp: &Sp| -> Vec<Option<i128>> {
            let mut v = vec![];
            for k in 0..n_items as i64 {
                let item = mul(sp, k).and_then(|m| f(&m));
                if item.is_none() && mul(sp, k).is_none() {
                    ended_span.fetch_add(1, Relaxed);
                }
                v.push(item);
                if item.is_none() {
                    ended.fetch_add(1, Relaxed);
                    return v;
                }
            }
            full.fetch_add(1, Relaxed);
            v
        };
        fn collect<I: Iterator>(it: I, n: usize, conv: impl Fn(I::Item) -> i128) -> Vec<Option<i128>> {
            let mut it = it;
            let mut v = vec![];
            for _ in 0..n {
                let x = it.next().map(&conv);
                v.push(x);
                if x.is_none() {
                    break;
                }
            }
            v
        }
        let sdates = vf::pools::dates();
        sdates.par_iter().for_each(|&d| {
            let ymd = conv::date_ymd(d);
            let mut items = 0u64;
            for (sp, span) in &pspans {
                let want = model_seq(&|m| model_date_add(ymd, &parts(m, 1)).0.map(|e| e as i128), sp);
                items += want.len() as u64;
                compare("Date", &|| format!("Date {} series {}", fmt_ymd(ymd), fmt_sp(sp)), guard(|| collect(d.series(*span), n_items, |x| conv::date_epoch_day(x) as i128)), &want);
                for &tm in &[Time::midnight(), Time::new(23, 59, 59, 999_999_999).unwrap(), Time::new(12, 0, 0, 500_000_000).unwrap()] {
                    let tod = time_ns(tm);
                    let want = model_seq(&|m| model_dt_add(ymd, tod, &parts(m, 1)).0, sp);
                    items += want.len() as u64;
                    let dt = DateTime::from_parts(d, tm);
                    compare("DateTime", &|| format!("DateTime {}T{} series {}", fmt_ymd(ymd), fmt_tod(tod), fmt_sp(sp)), guard(|| collect(dt.series(*span), n_items, dt_ns)), &want);
                }
            }
            r.add_states(pspans.len() as u64 * 4);
            r.add_transitions(items);
            r.add_validated(items);
        });
        times.par_iter().for_each(|&tm| {
            let tod = time_ns(tm);
            let mut items = 0u64;
            for (sp, span) in &pspans {
                let want = model_seq(
                    &|m| {
                        let p = parts(m, 1);
                        let total = tod + p.time_ns;
                        if (0..DAY_NS).contains(&total) && !p.cal_nonzero { Some(total) } else { None }
                    },
                    sp,
                );
                items += want.len() as u64;
                compare("Time", &|| format!("Time {} series {}", fmt_tod(tod), fmt_sp(sp)), guard(|| collect(tm.series(*span), n_items, time_ns)), &want);
            }
            r.add_states(pspans.len() as u64);
            r.add_transitions(items);
            r.add_validated(items);
        });
        r.outcome("series_exhausted", ended.load(Relaxed));
        r.outcome("series_exhausted_by_span_limit", ended_span.load(Relaxed));
        r.outcome("series_ran_to_item_bound", full.load(Relaxed));
        r.require(ended.load(Relaxed) > 0 && ended_span.load(Relaxed) > 0 && full.load(Relaxed) > 0, "series: exhausted by overflow, by span limit, and running to the item bound all observed");
        r.note(format!("series: first {} items of every (start, period); exhaustion compared wherever it happens within that bound", n_items));
    });

    for (name, c) in [
        ("results_in_range", &t.ok),
        ("results_overflow", &t.err),
        ("saturated_to_min", &t.sat_min),
        ("saturated_to_max", &t.sat_max),
        ("day_clamped_to_month_length", &t.clamped),
        ("time_carried_into_date", &t.carried),
        ("time_left_the_day", &t.wrapped),
        ("operator_panics_expected_and_seen", &t.op_panics),
        ("time_span_total_exceeds_i64", &t.f6_class),
        ("duration_day_count_outside_epoch_day_range", &t.n1_class),
        ("results_exactly_at_min_or_max", &t.at_limit),
    ] {
        r.outcome(name, c.load(Relaxed));
    }
    if r.only_section.is_none() {
        r.require(t.ok.load(Relaxed) > 0 && t.err.load(Relaxed) > 0, "both in-range and overflowing results");
        r.require(t.sat_min.load(Relaxed) > 0 && t.sat_max.load(Relaxed) > 0, "saturation in both directions");
        r.require(t.clamped.load(Relaxed) > 0, "some month additions clamp the day");
        r.require(t.carried.load(Relaxed) > 0, "some time additions carry into the date");
        r.require(t.wrapped.load(Relaxed) > 0, "some time additions leave the day");
        r.require(t.op_panics.load(Relaxed) > 0, "operators panic on overflow somewhere");
        r.require(t.f6_class.load(Relaxed) > 0, "span totals beyond 64 bits are in the pool");
        r.require(t.at_limit.load(Relaxed) > 0, "results exactly at the minimum / maximum of the type");
    }
    r.finish();
}

/// Input class of the "day delta validated as an epoch day" defect: adding an
/// absolute duration whose whole-day count lies outside the range of *epoch
/// days* (-4371587..=2932896), which is narrower on the positive side than the
/// distance between two dates (up to 7304483 days).
const N1_DATE: &str = "Date+-duration/err-but-result-in-range:whole-days-outside[-4371587,2932896]";
const N1_DATETIME: &str = "DateTime+-duration/err-but-result-in-range:day-carry-outside[-4371587,2932896]";
fn day_delta_class(days: i128) -> bool {
    days < cal::min_day() as i128 || days > cal::max_day() as i128
}

/// Time wrapping arithmetic with a span. In the F6 input class (exact total
/// outside i64) any failure - wrong value or panic - carries the F6 signature.
fn f6_aware(r: &Report, sec: &str, sig: &str, cls: &str, f6: bool, case: &dyn Fn() -> String, got: Result<i128, String>, want: i128) {
    match got {
        Err(p) => {
            if f6 {
                r.viol(sec, &format!("{}/{}", sig, cls), case(), format!("jiff panic {} model {}", p, want));
            } else {
                r.viol(sec, &format!("{}/{}", sig, panic_sig(&p)), case(), p);
            }
        }
        Ok(g) => {
            if g != want {
                r.viol(sec, &format!("{}/{}", sig, cls), case(), format!("jiff {} model {}", fmt_tod(g), fmt_tod(want)));
            }
        }
    }
}

fn series_periods() -> Vec<Sp> {
    let mut v: Vec<Sp> = vec![];
    let mut one = |f: &[(usize, i64)]| {
        let mut sp = [0i64; 10];
        for &(u, x) in f {
            sp[u] = x;
        }
        v.push(sp);
        let mut n = sp;
        for x in n.iter_mut() {
            *x = -*x;
        }
        v.push(n);
    };
    // zero period: documented to stop only on overflow, so it repeats the start
    one(&[]);
    one(&[(3, 1)]);
    one(&[(2, 1)]);
    one(&[(1, 1)]);
    one(&[(0, 1)]);
    one(&[(0, 1), (1, 1)]);
    one(&[(1, 1), (3, 1)]);
    one(&[(4, 15)]);
    one(&[(4, 36)]);
    one(&[(2, 1), (3, 3), (4, 12)]);
    one(&[(5, 90)]);
    one(&[(6, 86_399)]);
    one(&[(9, 1)]);
    one(&[(9, 86_400_000_000_001)]);
    one(&[(4, 6), (5, 30)]);
    one(&[(4, 1)]);
    one(&[(5, 7)]);
    one(&[(0, 100)]);
    one(&[(0, 1_000)]);
    one(&[(1, 1_001)]);
    one(&[(3, 30_000)]);
    one(&[(3, 7_304_484)]);
    one(&[(0, 19_998)]);
    one(&[(0, 9_999)]);
    one(&[(0, 5_000), (9, 1)]);
    one(&[(4, 175_307_616)]);
    one(&[(4, 1_000_000)]);
    one(&[(9, i64::MAX)]);
    one(&[(9, i64::MAX / 200)]);
    one(&[(8, 631_107_417_600_000_000 / 300)]);
    one(&[(1, 239_976)]);
    one(&[(2, 10_000), (6, 1)]);
    // month-end starts: each item is start + k months (clamped from the start's day, not cumulatively)
    one(&[(1, 1), (9, 1)]);
    one(&[(1, 13)]);
    one(&[(0, 4)]);
    one(&[(4, 23), (5, 59), (6, 59), (7, 999), (8, 999), (9, 1_000)]);
    v
}
