//! Sections beside the program enumeration: the unnamed system zone, the
//! equality matrix, every constructor path, unwinding, all fixed offsets.

use super::*;
use jiff::fmt::temporal::{DateTimeParser, Pieces, TimeZoneAnnotation};
use jiff::tz::Dst;
use kinds::{bundled_db_pregrown, check_handle, fixed_abbr, fixed_debug, make, posix_str, probe, tagged, tiny_tzif, want_owned, wrap, Desc, Want, DB_NAMES, LOCAL_WANT, STATIC_NAME, STATIC_TZ};

// ---------------------------------------------------------------------------
// system-local
// ---------------------------------------------------------------------------

/// `TimeZone::try_system()` with `TZ=<path of a TZif file outside any zoneinfo
/// directory>` is the only public way to an *unnamed* Arc-TZif handle. The
/// system-zone cache keeps one handle for the rest of the process.
pub fn system_local(r: &Report) {
    let sec = "system-local";
    let path = std::env::temp_dir().join(format!("c20-local-{}.tzif", std::process::id()));
    if std::fs::write(&path, tiny_tzif(0)).is_err() {
        r.require(false, "temporary TZif file for the system zone could be written");
        return;
    }
    let old = std::env::var_os("TZ");
    std::env::set_var("TZ", &path);
    let g = my_slot() * NG + 30;
    reset_group(g);
    // the global database is created on first use; not part of the zone
    let _ = jiff::tz::db();
    let first = guard(|| tagged(g, TimeZone::try_system));
    // From here on the system-zone cache holds the zone: as long as it does,
    // not a single block of the group may go away.
    let l0 = live(g);
    match old {
        Some(v) => std::env::set_var("TZ", v),
        None => std::env::remove_var("TZ"),
    }
    let _ = std::fs::remove_file(&path);
    let case = "TZ=<tiny TZif file> TimeZone::try_system()".to_string();
    let first = match first {
        Err(p) => return r.viol(sec, &format!("TimeZone::try_system/{}", panic_sig(&p)), case, p),
        Ok(Err(e)) => {
            r.note(format!("system zone from TZ=<file> unavailable: {}", e));
            r.require(false, "TimeZone::try_system() reads TZ=<file>");
            return;
        }
        Ok(Ok(tz)) => tz,
    };
    if first.iana_name().is_some() {
        r.note(format!("system zone has a name ({:?}); the unnamed kind is not reachable here", first.iana_name()));
        r.require(false, "TZ=<file> yields an unnamed zone");
        return;
    }
    let mut w = kinds::tiny_want(0, None);
    w.fp = kinds::fingerprint(&first);
    let mut broken = false;
    let res = guard(|| -> Result<(), (String, String)> {
        let bad = |c: &str, d: String| Err((format!("TimeZone::try_system/{}:Local", c), d));
        // the allocator's view is consulted before anything is read through a
        // handle that a wrong count could have left dangling
        let gone = || COUNTING && live(g) < l0;
        let freed = |hs: Vec<TimeZone>, at: &str| {
            std::mem::forget(hs);
            bad("freed-while-handles-live", format!("{}: the system-zone cache (and maybe a handle) still holds the zone but its blocks are gone", at))
        };
        if let Err(e) = check_handle(&first, &w) {
            return bad("query-answer", e);
        }
        let second = TimeZone::try_system().map_err(|e| ("TimeZone::try_system/error-on-cached-call:Local".to_string(), e.to_string()))?;
        if !(first == second && second == first) {
            return bad("eq-value", "two handles of the cached system zone compare unequal".into());
        }
        let named = make(&Desc::Tzif(0), 0, None);
        if named == first || first == named {
            return bad("eq-value", "unnamed zone equals the named zone with the same data (identifiers differ)".into());
        }
        drop(named);
        let c = first.clone();
        drop(first);
        if gone() {
            return freed(vec![c, second], "after the first handle was dropped");
        }
        if let Err(e) = check_handle(&c, &w).and(check_handle(&second, &w)) {
            return bad("query-answer", format!("after the first handle was dropped: {}", e));
        }
        if let Err((class, at)) = wrap(&c, Some(&second), &w, &|| !gone()) {
            if class == "freed-while-handles-live" {
                return freed(vec![c, second], at);
            }
            return bad(class, at.to_string());
        }
        drop(c);
        if gone() {
            return freed(vec![second], "after two of three handles were dropped");
        }
        drop(second);
        if gone() {
            return freed(vec![], "after every user handle was dropped");
        }
        let third = TimeZone::try_system().map_err(|e| ("TimeZone::try_system/error-on-cached-call:Local".to_string(), e.to_string()))?;
        if let Err(e) = check_handle(&third, &w) {
            return bad("query-answer", format!("handle cloned from the cache after all others were dropped: {}", e));
        }
        Ok(())
    });
    broken |= !matches!(res, Ok(Ok(())));
    match res {
        Err(p) => r.viol(sec, &format!("TimeZone::try_system/{}", panic_sig(&p)), case, p),
        Ok(Err((sig, d))) => r.viol(sec, &sig, case, d),
        Ok(Ok(())) => {}
    }
    if let Some((s, d)) = alloc_complaint(g) {
        r.viol(sec, &format!("TimeZone::try_system/{}:Local", s), "TZ=<tiny TZif file>", d);
    }
    if !broken {
        // later sections use the system zone only if it is sound here; they
        // clone from a handle kept for the rest of the run (the cache itself
        // re-reads the environment after five minutes)
        if let Ok(tz) = TimeZone::try_system() {
            if tz.iana_name().is_none() && check_handle(&tz, &w).is_ok() {
                let _ = kinds::LOCAL_HANDLE.set(tz);
                let _ = LOCAL_WANT.set(w);
            }
        }
    }
    r.add_states(1);
    r.add_validated(6);
    r.outcome("kind:unnamed-arc-tzif(system)", 1);
}

// ---------------------------------------------------------------------------
// eq-matrix
// ---------------------------------------------------------------------------

struct Entry {
    label: String,
    kind: &'static str, // representation kind
    class: u32,         // handles of one class are equal, of different classes unequal
    tz: TimeZone,
}

/// Every pair and triple of a pool holding every representation kind, equal
/// data in different allocations, and different data under equal names. The
/// expected relation is the documented one ("Time zone equality"): fixed
/// offsets by offset, POSIX by string, TZif by identifier and checksum, all
/// other combinations unequal.
pub fn eq_matrix(r: &Report) {
    let sec = "eq-matrix";
    let db = bundled_db_pregrown();
    let ny = jiff_tzdb::get(STATIC_NAME).expect("bundled").1;
    let mut pool: Vec<Entry> = vec![];
    let mut add = |label: &str, kind: &'static str, class: u32, tz: TimeZone| pool.push(Entry { label: label.to_string(), kind, class, tz });
    let fx = |s: i32| TimeZone::fixed(Offset::from_seconds(s).unwrap());
    add("TimeZone::UTC", "Utc", 1, TimeZone::UTC);
    add("fixed(0)", "Utc", 1, fx(0));
    add("Offset::UTC.to_time_zone()", "Utc", 1, Offset::UTC.to_time_zone());
    add("unknown()", "Unknown", 2, TimeZone::unknown());
    add("db.get(Etc/Unknown)", "Unknown", 2, db.get("Etc/Unknown").expect("Etc/Unknown"));
    for (k, s) in [1, -1, 16, -16, 3600, -3600, 65536, -65536, 93599, -93599].into_iter().enumerate() {
        add(&format!("fixed({})", s), "Fixed", 100 + k as u32, fx(s));
    }
    add("fixed(1) again", "Fixed", 100, fx(1));
    add("Offset(-93599).to_time_zone()", "Fixed", 109, Offset::from_seconds(-93599).unwrap().to_time_zone());
    add("static item NY", "Static", 10, STATIC_TZ.clone());
    add("get! by value NY (another static, same data)", "Static", 10, kinds::static_by_value());
    add("get! by value Tokyo", "Static", 11, kinds::static_tokyo());
    let a = db.get(STATIC_NAME).expect("bundled");
    let b = db.get(STATIC_NAME).expect("bundled");
    db.reset();
    let c = db.get(STATIC_NAME).expect("bundled");
    add("db NY", "ArcTzif", 20, a);
    add("db NY (same Arc, via cache)", "ArcTzif", 20, b);
    add("db NY (new allocation after reset)", "ArcTzif", 20, c);
    add("tzif(NY name, NY data)", "ArcTzif", 20, TimeZone::tzif(STATIC_NAME, ny).expect("tzif"));
    add("tzif(other name, NY data)", "ArcTzif", 21, TimeZone::tzif("Other/Name", ny).expect("tzif"));
    add("db Tokyo", "ArcTzif", 22, db.get(DB_NAMES[0]).expect("bundled"));
    add("db UTC (a TZif zone named UTC)", "ArcTzif", 23, db.get("UTC").expect("bundled"));
    add("Tiny/0", "ArcTzif", 30, make(&Desc::Tzif(0), 0, None));
    add("Tiny/0 (second allocation)", "ArcTzif", 30, make(&Desc::Tzif(0), 0, None));
    add("Tiny/1", "ArcTzif", 31, make(&Desc::Tzif(1), 0, None));
    add("tzif(Tiny/0 name, Tiny/1 data)", "ArcTzif", 32, TimeZone::tzif("Tiny/0", tiny_tzif(1)).expect("tzif"));
    add("posix 0", "ArcPosix", 40, make(&Desc::Posix(0), 0, None));
    add("posix 0 (second allocation)", "ArcPosix", 40, make(&Desc::Posix(0), 0, None));
    add("posix 1", "ArcPosix", 41, make(&Desc::Posix(1), 0, None));
    if let Some(tz) = kinds::LOCAL_HANDLE.get() {
        add("system zone (unnamed, Tiny/0 data)", "ArcTzif", 50, tz.clone());
        add("system zone (second handle)", "ArcTzif", 50, tz.clone());
    }
    let n = pool.len();
    let (mut pairs, mut trues, mut triples) = (0u64, 0u64, 0u64);
    let mut rel = vec![vec![false; n]; n];
    let res = guard(|| {
        for i in 0..n {
            for j in 0..n {
                let (x, y) = (&pool[i], &pool[j]);
                let case = format!("{} == {}", x.label, y.label);
                let kk = format!("{}x{}", x.kind, y.kind);
                let e = x.tz == y.tz;
                rel[i][j] = e;
                pairs += 1;
                trues += e as u64;
                #[allow(clippy::nonminimal_bool)]
                if e == (x.tz != y.tz) {
                    r.viol(sec, &format!("TimeZone::ne/disagrees-with-eq:{}", kk), case.clone(), format!("== {} and != {}", e, x.tz != y.tz));
                }
                if i == j && !e {
                    r.viol(sec, &format!("TimeZone::eq/not-reflexive:{}", x.kind), case.clone(), "a handle is not equal to itself");
                }
                if e != (y.tz == x.tz) {
                    r.viol(sec, &format!("TimeZone::eq/not-symmetric:{}", kk), case.clone(), format!("{} one way, {} the other", e, !e));
                }
                if e != (x.class == y.class) {
                    r.viol(sec, &format!("TimeZone::eq/value:{}", kk), case.clone(), format!("jiff {} documented semantics {}", e, x.class == y.class));
                }
                let (xc, yc) = (x.tz.clone(), y.tz.clone());
                if (xc == yc) != e || (x.tz == yc) != e || (xc == y.tz) != e {
                    r.viol(sec, &format!("TimeZone::eq/unstable-under-clone:{}", kk), case.clone(), format!("originals {} clones {}", e, xc == yc));
                }
                // a Zoned compares its zone the same way
                let (zx, zy) = (Zoned::new(probe(2), xc), Zoned::new(probe(2), yc));
                if (zx.time_zone() == zy.time_zone()) != e {
                    r.viol(sec, &format!("TimeZone::eq/unstable-under-clone:{}", kk), case, "compared through Zoned::time_zone()".to_string());
                }
            }
        }
        for i in 0..n {
            for j in 0..n {
                for k in 0..n {
                    triples += 1;
                    if rel[i][j] && rel[j][k] && !rel[i][k] {
                        r.viol(sec, "TimeZone::eq/not-transitive", format!("{} == {} == {}", pool[i].label, pool[j].label, pool[k].label), "a == b and b == c but a != c");
                    }
                }
            }
        }
    });
    if let Err(p) = res {
        r.viol(sec, &format!("TimeZone::eq/{}", panic_sig(&p)), "eq-matrix", p);
    }
    // informational: the documentation says two IANA zones with equal
    // identifiers and checksums are equal; a static and an Arc handle of the
    // same zone are not (different tags). Not part of C20's statement.
    let si = pool.iter().position(|e| e.label == "static item NY").unwrap();
    let di = pool.iter().position(|e| e.label == "db NY").unwrap();
    r.outcome(&format!("eq:static-NY==arc-NY(same id, same checksum)={}", rel[si][di]), 1);
    r.outcome("eq:pairs-true", trues);
    r.outcome("eq:pairs-false", pairs - trues);
    r.add_states(pairs);
    r.add_validated(pairs * 6 + triples);
    r.count("eq_matrix_pool", n as u64);
    r.count("eq_matrix_pairs", pairs);
    r.require(trues > n as u64 && trues < pairs / 2, "the equality matrix has equal pairs beyond the diagonal and mostly unequal ones");
    drop(pool);
    db.reset();
}

// ---------------------------------------------------------------------------
// constructors
// ---------------------------------------------------------------------------

type Maker = Box<dyn Fn(&TimeZoneDatabase) -> Result<TimeZone, String>>;

/// clone / compare / drop the original / query the clone / move it around /
/// wrap it / drop everything, with the allocator's view checked at the end.
fn drill(tz: TimeZone, w: &Want, g: usize, counted: bool) -> Result<(), (&'static str, String)> {
    // the allocator's view first: never read through a handle whose zone is
    // gone. While anybody holds the zone, not one of its blocks may go away.
    let l0 = live(g);
    let gone = |hs: Vec<TimeZone>, at: &str| -> Result<(), (&'static str, String)> {
        if counted && live(g) < l0 {
            let n = hs.len();
            std::mem::forget(hs);
            return Err(("freed-while-handles-live", format!("{}: {} handle(s) held but no live blocks", at, n)));
        }
        drop(hs);
        Ok(())
    };
    drop(tz.clone());
    gone(vec![], "a clone of the fresh handle was dropped")?;
    check_handle(&tz, w).map_err(|e| ("query-answer", e))?;
    let c = tz.clone();
    if !(c == tz && tz == c) {
        return Err(("eq-value", "clone differs from its original".into()));
    }
    drop(tz);
    if counted && live(g) < l0 {
        std::mem::forget(c);
        return Err(("freed-while-handles-live", "the clone is held, the original was dropped, no live blocks".into()));
    }
    check_handle(&c, w).map_err(|e| ("query-answer", format!("clone, after the original was dropped: {}", e)))?;
    if let Err((class, at)) = wrap(&c, None, w, &|| !counted || live(g) >= l0) {
        if class == "freed-while-handles-live" {
            std::mem::forget(c);
        }
        return Err((class, at.to_string()));
    }
    // move out of an Option, mem::replace, mem::swap, clone_from
    let mut slot = Some(c);
    let moved = slot.take().unwrap();
    let mut other = TimeZone::UTC;
    let was = std::mem::replace(&mut other, moved);
    if was != TimeZone::UTC {
        return Err(("eq-value", "mem::replace returned something else than the UTC handle put there".into()));
    }
    let mut third = TimeZone::unknown();
    std::mem::swap(&mut other, &mut third);
    if !other.is_unknown() {
        return Err(("query-answer", "mem::swap did not exchange the handles".into()));
    }
    other.clone_from(&third);
    if other != third {
        return Err(("eq-value", "clone_from target differs from its source".into()));
    }
    drop(third);
    if counted && live(g) < l0 {
        std::mem::forget(other);
        return Err(("freed-while-handles-live", "clone_from target held, its source dropped, no live blocks".into()));
    }
    check_handle(&other, w).map_err(|e| ("query-answer", format!("clone_from target, source dropped: {}", e)))?;
    Ok(())
}

pub fn constructors(r: &Report) {
    let sec = "constructors";
    let db = bundled_db_pregrown();
    let fx = |s: i32| Offset::from_seconds(s).unwrap();
    let e2s = |e: jiff::Error| e.to_string();
    let mut list: Vec<(String, Desc, Maker)> = vec![];
    let mut add = |api: &str, d: Desc, f: Maker| list.push((api.to_string(), d, f));
    add("TimeZone::UTC", Desc::Utc, Box::new(|_| Ok(TimeZone::UTC)));
    add("TimeZone::fixed(0)", Desc::Utc, Box::new(move |_| Ok(TimeZone::fixed(fx(0)))));
    add("Offset::to_time_zone(0)", Desc::Utc, Box::new(move |_| Ok(fx(0).to_time_zone())));
    add("TimeZone::unknown", Desc::Unknown, Box::new(|_| Ok(TimeZone::unknown())));
    add("TimeZoneDatabase::get(Etc/Unknown)", Desc::Unknown, Box::new(move |db| db.get("Etc/Unknown").map_err(e2s)));
    for s in [1, -1, 3600, -3600, 93599, -93599] {
        add("TimeZone::fixed", Desc::Fixed(s), Box::new(move |_| Ok(TimeZone::fixed(fx(s)))));
        add("Offset::to_time_zone", Desc::Fixed(s), Box::new(move |_| Ok(fx(s).to_time_zone())));
    }
    for c in [0u8, 1] {
        add("TimeZone::posix", Desc::Posix(c), Box::new(move |_| TimeZone::posix(posix_str(c)).map_err(e2s)));
        add("TimeZone::tzif", Desc::Tzif(c), Box::new(move |_| TimeZone::tzif(kinds::TINY_NAMES[c as usize], tiny_tzif(c)).map_err(e2s)));
        add("TimeZoneDatabase::get", Desc::Db(c), Box::new(move |db| db.get(DB_NAMES[c as usize]).map_err(e2s)));
        add("TimeZoneDatabase::get(case-insensitive, twice)", Desc::Db(c), Box::new(move |db| {
            let first = db.get(DB_NAMES[c as usize]).map_err(e2s)?;
            let again = db.get(&DB_NAMES[c as usize].to_ascii_uppercase()).map_err(e2s)?;
            drop(first);
            Ok(again)
        }));
    }
    add("tz::get!(static item).clone()", Desc::Static, Box::new(|_| Ok(STATIC_TZ.clone())));
    add("tz::get!(by value)", Desc::Static, Box::new(|_| Ok(kinds::static_by_value())));
    add("Pieces::to_time_zone_with[named]", Desc::Db(0), Box::new(move |db| {
        Pieces::parse("2024-07-03T00:00:00[Asia/Tokyo]").map_err(e2s)?.to_time_zone_with(db).map_err(e2s)?.ok_or_else(|| "no annotation".to_string())
    }));
    for (txt, s) in [("2024-07-03T00:00:00+01:00[+01:00]", 3600), ("2024-07-03T00:00:00-01:00[-01:00]", -3600)] {
        add("Pieces::to_time_zone_with[offset]", Desc::Fixed(s), Box::new(move |db| {
            Pieces::parse(txt).map_err(e2s)?.to_time_zone_with(db).map_err(e2s)?.ok_or_else(|| "no annotation".to_string())
        }));
        add("Zoned::from_str[offset annotation]", Desc::Fixed(s), Box::new(move |_| {
            let z: Zoned = txt.parse().map_err(e2s)?;
            let tz = z.time_zone().clone();
            drop(z);
            Ok(tz)
        }));
    }
    add("TimeZoneAnnotation::to_time_zone_with[named]", Desc::Db(1), Box::new(move |db| TimeZoneAnnotation::from(DB_NAMES[1]).to_time_zone_with(db).map_err(e2s)));
    add("DateTimeParser::parse_time_zone_with[named]", Desc::Db(0), Box::new(move |db| DateTimeParser::new().parse_time_zone_with(db, DB_NAMES[0]).map_err(e2s)));
    add("DateTimeParser::parse_time_zone_with[offset]", Desc::Fixed(3600), Box::new(move |db| DateTimeParser::new().parse_time_zone_with(db, "+01:00").map_err(e2s)));
    add("DateTimeParser::parse_time_zone_with[offset]", Desc::Fixed(-3600), Box::new(move |db| DateTimeParser::new().parse_time_zone_with(db, "-01:00").map_err(e2s)));
    add("DateTimeParser::parse_time_zone_with[posix]", Desc::Posix(0), Box::new(move |db| DateTimeParser::new().parse_time_zone_with(db, posix_str(0)).map_err(e2s)));
    // handles that travelled through the by-value APIs
    add("Timestamp::to_zoned -> time_zone().clone()", Desc::Tzif(0), Box::new(|_| {
        let z = probe(2).to_zoned(make(&Desc::Tzif(0), TAG.with(|t| t.get()), None));
        let tz = z.time_zone().clone();
        drop(z);
        Ok(tz)
    }));
    add("DateTime::to_zoned -> time_zone().clone()", Desc::Posix(0), Box::new(move |_| {
        let z = kinds::dt_fold().to_zoned(make(&Desc::Posix(0), TAG.with(|t| t.get()), None)).map_err(e2s)?;
        let tz = z.time_zone().clone();
        drop(z);
        Ok(tz)
    }));
    add("TimeZone::to_zoned -> time_zone().clone()", Desc::Tzif(1), Box::new(move |_| {
        let orig = make(&Desc::Tzif(1), TAG.with(|t| t.get()), None);
        let z = orig.to_zoned(kinds::dt_fold()).map_err(e2s)?;
        drop(orig);
        let tz = z.time_zone().clone();
        drop(z);
        Ok(tz)
    }));
    add("AmbiguousZoned::into_time_zone", Desc::Posix(1), Box::new(|_| Ok(make(&Desc::Posix(1), TAG.with(|t| t.get()), None).into_ambiguous_zoned(kinds::dt_gap()).into_time_zone())));
    add("Zoned::with_time_zone -> time_zone().clone()", Desc::Tzif(0), Box::new(|_| {
        let z = Zoned::new(probe(0), TimeZone::UTC).with_time_zone(make(&Desc::Tzif(0), TAG.with(|t| t.get()), None));
        let z2 = z.clone();
        drop(z);
        Ok(z2.time_zone().clone())
    }));
    if let Some(tz) = kinds::LOCAL_HANDLE.get() {
        add("TimeZone::try_system (handle kept since the system-local section).clone()", Desc::Local, Box::new(move |_| Ok(tz.clone())));
    }
    let mut n = 0u64;
    let mut unsupported = 0u64;
    for (k, (api, d, f)) in list.iter().enumerate() {
        let g = my_slot() * NG + 1 + (k % (NG - 2));
        reset_group(g);
        db.reset();
        let case = format!("{} -> {:?}", api, d);
        let w = want_owned(d);
        let res = guard(|| -> Result<(), (&'static str, String)> {
            let tz = match tagged(g, || f(db)) {
                Ok(tz) => tz,
                Err(e) => return Err(("constructor-error", e)),
            };
            drill(tz, &w, g, COUNTING && d.heap() && *d != Desc::Local)?;
            if COUNTING && d.heap() && *d != Desc::Local {
                let cached = matches!(d, Desc::Db(_));
                if cached && live(g) <= 0 {
                    return Err(("freed-while-handles-live", "every user handle dropped, the cache still holds the zone, but its blocks are gone".into()));
                }
                db.reset();
                if live(g) != 0 {
                    return Err(("leak-after-last-handle-dropped", format!("{} live blocks", live(g))));
                }
            }
            Ok(())
        });
        n += 1;
        match res {
            Err(p) => r.viol(sec, &format!("{}/{}", api, panic_sig(&p)), case, p),
            Ok(Err(("constructor-error", e))) if api.ends_with("[posix]") => {
                // parsing a POSIX string there is optional behaviour, not C20's business
                unsupported += 1;
                r.note(format!("{}: {}", case, e));
            }
            Ok(Err((class, e))) => r.viol(sec, &format!("{}/{}:{}", api, class, d.heap_label()), case, e),
            Ok(Ok(())) => {}
        }
        if let Some((s, e)) = alloc_complaint(g) {
            r.viol(sec, &format!("{}/{}:{}", api, s, d.heap_label()), format!("{} -> {:?}", api, d), e);
        }
        reset_group(g);
    }
    db.reset();
    r.add_states(n);
    r.add_validated(n * 12);
    r.count("constructor_paths", n);
    r.outcome("constructors:unsupported-input-skipped", unsupported);
    r.require(n >= 40, "at least 40 constructor paths drilled");
}

// ---------------------------------------------------------------------------
// unwind
// ---------------------------------------------------------------------------

/// A panic while handles are live: the handles a frame owns are dropped by
/// the unwinder, exactly once; borrowed ones stay usable.
pub fn unwind(r: &Report) {
    let sec = "unwind";
    let db = bundled_db_pregrown();
    let modes = ["clone-moved-into-panicking-closure", "borrowed-by-panicking-closure", "last-handle-moved-into-panicking-closure", "zoned-and-vec-moved-into-panicking-closure", "clone-moved-into-panicking-thread"];
    let mut n = 0u64;
    for (k, d) in [Desc::Tzif(0), Desc::Posix(0), Desc::Db(1), Desc::Static, Desc::Fixed(-1), Desc::Utc, Desc::Unknown].into_iter().enumerate() {
        let w = want_owned(&d);
        for (mi, mode) in modes.iter().enumerate() {
            let g = my_slot() * NG + 1 + ((k * modes.len() + mi) % (NG - 2));
            reset_group(g);
            db.reset();
            let case = format!("{:?} {}", d, mode);
            n += 1;
            let tz = make(&d, g, Some(db));
            let mut keep: Option<TimeZone> = None;
            let w2 = w.clone();
            let caught: Result<(), String> = match mi {
                0 => {
                    let c = tz.clone();
                    keep = Some(tz);
                    guard(move || {
                        let inner = c;
                        check_handle(&inner, &w2).expect("answers before the panic");
                        panic!("c20 deliberate panic");
                    })
                }
                1 => {
                    let res = guard(|| {
                        let c = tz.clone();
                        check_handle(&c, &w2).expect("answers before the panic");
                        let _z = Zoned::new(probe(1), c);
                        let _b = &tz;
                        panic!("c20 deliberate panic");
                    });
                    keep = Some(tz);
                    res
                }
                2 => guard(move || {
                    let inner = tz;
                    check_handle(&inner, &w2).expect("answers before the panic");
                    panic!("c20 deliberate panic");
                }),
                3 => {
                    let v = vec![tz.clone(), tz.clone(), tz.clone()];
                    let z = Zoned::new(probe(2), tz.clone());
                    keep = Some(tz);
                    guard(move || {
                        let (v, z) = (v, z);
                        check_handle(&v[1], &w2).expect("answers before the panic");
                        check_handle(z.time_zone(), &w2).expect("answers before the panic");
                        panic!("c20 deliberate panic");
                    })
                }
                _ => {
                    let c = tz.clone();
                    keep = Some(tz);
                    let j = std::thread::spawn(move || {
                        let inner = c;
                        check_handle(&inner, &w2).expect("answers before the panic");
                        panic!("c20 deliberate panic");
                    });
                    match j.join() {
                        Ok(()) => Ok(()),
                        Err(_) => Err("c20 deliberate panic".into()),
                    }
                }
            };
            let kl = d.heap_label();
            match &caught {
                Ok(()) => {
                    r.require(false, "the deliberate panic unwinds");
                    continue;
                }
                Err(p) if !p.contains("c20 deliberate panic") => {
                    r.viol(sec, &format!("unwind/{}", panic_sig(p)), case.clone(), p.clone());
                    continue;
                }
                Err(_) => {}
            }
            let cache_holds = matches!(d, Desc::Db(_));
            let holders = keep.iter().count() + cache_holds as usize;
            if COUNTING && d.heap() {
                if holders > 0 && live(g) <= 0 {
                    r.viol(sec, &format!("unwind/freed-while-handles-live:{}", kl), case.clone(), format!("{} holder(s) after unwinding but no live blocks", holders));
                    std::mem::forget(keep);
                    db.reset();
                    reset_group(g);
                    continue;
                }
                if holders == 0 && live(g) != 0 {
                    r.viol(sec, &format!("unwind/leak-after-last-handle-dropped:{}", kl), case.clone(), format!("the unwinder dropped the last handle, {} live blocks remain", live(g)));
                }
            }
            if let Some(t) = &keep {
                if let Err(e) = guard(|| check_handle(t, &w)).unwrap_or_else(Err) {
                    r.viol(sec, &format!("unwind/query-answer:{}", kl), case.clone(), format!("surviving handle after unwinding: {}", e));
                }
            }
            drop(keep);
            db.reset();
            if COUNTING && d.heap() && live(g) != 0 {
                r.viol(sec, &format!("unwind/leak-after-last-handle-dropped:{}", kl), case.clone(), format!("{} live blocks after everything was dropped", live(g)));
            }
            if let Some((s, e)) = alloc_complaint(g) {
                r.viol(sec, &format!("unwind/{}:{}", s, kl), case.clone(), e);
            }
            reset_group(g);
        }
    }
    r.add_states(n);
    r.add_validated(n * 3);
    r.count("unwind_cases", n);
    r.require(n == 35, "7 kinds x 5 unwinding modes");
}

// ---------------------------------------------------------------------------
// fixed offsets
// ---------------------------------------------------------------------------

const FMIN: i32 = -93599;
const FMAX: i32 = 93599;

fn sign_class(s: i32) -> &'static str {
    match s.signum() {
        -1 => "negative",
        0 => "zero",
        _ => "positive",
    }
}

/// Every read path of one fixed-offset handle; returns (failure class, detail).
fn fixed_one(s: i32, all: &[TimeZone]) -> Result<(), (&'static str, String)> {
    let o = Offset::from_seconds(s).unwrap();
    let tz = TimeZone::fixed(o);
    let c = tz.clone();
    let base = tz.to_fixed_offset().ok() == Some(o)
        && tz.to_offset(Timestamp::UNIX_EPOCH) == o
        && tz.to_offset(Timestamp::MIN) == o
        && c == tz
        && c.to_fixed_offset().ok() == Some(o)
        && (s == 0 || TimeZone::fixed(Offset::from_seconds(-s).unwrap()) != tz);
    if !base {
        return Err(("offset-not-reproduced", "fixed(o) does not reproduce o".into()));
    }
    let inf = tz.to_offset_info(Timestamp::UNIX_EPOCH);
    if inf.offset() != o || inf.dst() != Dst::No {
        return Err(("offset-not-reproduced", format!("to_offset_info: {:?} {:?}", inf.offset(), inf.dst())));
    }
    let abbr = if s == 0 { "UTC".to_string() } else { fixed_abbr(s) };
    if inf.abbreviation() != abbr {
        return Err(("abbreviation", format!("jiff {:?} model {:?}", inf.abbreviation(), abbr)));
    }
    drop(inf);
    let dbg = format!("{:?}", tz);
    if dbg != fixed_debug(s) {
        return Err(("debug", format!("jiff {:?} model {:?}", dbg, fixed_debug(s))));
    }
    if tz.is_unknown() || tz.iana_name() != if s == 0 { Some("UTC") } else { None } {
        return Err(("name-or-unknown", format!("is_unknown {} iana_name {:?}", tz.is_unknown(), tz.iana_name())));
    }
    // 1970-01-01T00:00:00Z read on the fixed zone's clock, by plain arithmetic
    let (day, sod) = (s.div_euclid(86400), s.rem_euclid(86400));
    let (y, m, d) = [(1969, 12, 30), (1969, 12, 31), (1970, 1, 1), (1970, 1, 2)][(day + 2) as usize];
    let dt = tz.to_datetime(Timestamp::UNIX_EPOCH);
    let got = (dt.year() as i32, dt.month() as i32, dt.day() as i32, dt.hour() as i32, dt.minute() as i32, dt.second() as i32, dt.subsec_nanosecond());
    if got != (y, m, d, sod / 3600, sod / 60 % 60, sod % 60, 0) {
        return Err(("to_datetime", format!("jiff {:?} model {:?}", got, (y, m, d, sod / 3600, sod / 60 % 60, sod % 60))));
    }
    let z = Zoned::new(Timestamp::UNIX_EPOCH, tz.clone());
    if z.offset() != o || z.time_zone() != &tz {
        return Err(("offset-not-reproduced", "through Zoned::new".into()));
    }
    drop(z);
    // equality against every offset that differs in one bit of the packed
    // representation, the neighbours, the mirror image and the extremes
    let mut others = vec![s - 1, s + 1, -s, FMIN, FMAX, 0];
    for k in 0..18 {
        others.push(s ^ (1 << k));
    }
    for s2 in others {
        if !(FMIN..=FMAX).contains(&s2) {
            continue;
        }
        let t2 = &all[(s2 - FMIN) as usize];
        let (a, b) = (tz == *t2, *t2 == tz);
        if a != (s == s2) || b != a {
            return Err(("eq-value", format!("fixed({}) == fixed({}) -> {} / {}", s, s2, a, b)));
        }
    }
    if tz == TimeZone::unknown() || (s != 0 && tz == TimeZone::UTC) || (s == 0 && tz != TimeZone::UTC) {
        return Err(("eq-value", "against UTC / unknown".into()));
    }
    drop(tz);
    if c.to_offset(Timestamp::MAX) != o {
        return Err(("offset-not-reproduced", "clone after the original was dropped".into()));
    }
    Ok(())
}

pub fn fixed_offsets(r: &Report) {
    let sec = "fixed-offsets";
    let all: Vec<TimeZone> = (FMIN..=FMAX).map(|s| TimeZone::fixed(Offset::from_seconds(s).unwrap())).collect();
    let n: u64 = (FMIN..=FMAX)
        .into_par_iter()
        .map(|s| {
            match guard(|| fixed_one(s, &all)) {
                Ok(Ok(())) => {}
                // the historical signature keeps its exact name
                Ok(Err(("offset-not-reproduced", d))) => r.viol(sec, "fixed/offset-not-reproduced", format!("offset {}s", s), d),
                Ok(Err((class, d))) => r.viol(sec, &format!("fixed/{}:{}", class, sign_class(s)), format!("offset {}s", s), d),
                Err(p) => r.viol(sec, &format!("fixed/{}", panic_sig(&p)), format!("offset {}s", s), p),
            }
            1
        })
        .sum();
    r.add_states(n);
    r.add_validated(n * 30);
    r.count("fixed_offsets", n);
    r.require(n == 187_199, "all 187 199 offsets enumerated");
    if r.thorough() && COUNTING {
        // every pair of offsets: exactly the diagonal compares equal (a value
        // check: nothing for a sanitizer to see, left out of those builds)
        let pairs: u64 = all
            .par_iter()
            .enumerate()
            .map(|(i, a)| {
                let mut eq_at: Option<usize> = None;
                let mut cnt = 0u32;
                for (j, b) in all.iter().enumerate() {
                    if a == b {
                        cnt += 1;
                        if j != i {
                            eq_at = Some(j);
                        }
                    }
                }
                if cnt != 1 || eq_at.is_some() {
                    let s = i as i32 + FMIN;
                    r.viol(sec, &format!("fixed/eq-value:all-pairs:{}", sign_class(s)), format!("offset {}s", s), format!("equal to {} handles of the 187199 (other: {:?})", cnt, eq_at.map(|j| j as i32 + FMIN)));
                }
                all.len() as u64
            })
            .sum();
        r.add_validated(pairs);
        r.count("fixed_offset_pairs", pairs);
    }
}
