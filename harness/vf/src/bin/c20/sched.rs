//! E3: schedules at handle-operation granularity (baton), plus the
//! free-running pass.

use super::*;
use kinds::{bundled_db_pregrown, check_handle, make, want, Desc, DB_NAMES};
use std::sync::{mpsc, Arc as StdArc, Mutex};
use std::thread::Thread;

#[derive(Clone, Copy, Debug, PartialEq, Eq)]
pub enum TOp {
    Clone,
    Drop,
    Query,
    SendBack, // hand one of my handles to the main thread (which outlives me)
    SendPeer, // hand one of my handles to the next thread (which may outlive me)
    Exit,     // the thread ends: everything it still holds is dropped
}

/// All interleavings of per-thread op sequences, as a sequence of thread ids.
pub fn interleavings(lens: &[usize]) -> Vec<Vec<usize>> {
    fn rec(rem: &mut Vec<usize>, cur: &mut Vec<usize>, out: &mut Vec<Vec<usize>>) {
        if rem.iter().all(|&x| x == 0) {
            out.push(cur.clone());
            return;
        }
        for t in 0..rem.len() {
            if rem[t] > 0 {
                rem[t] -= 1;
                cur.push(t);
                rec(rem, cur, out);
                cur.pop();
                rem[t] += 1;
            }
        }
    }
    let mut out = vec![];
    rec(&mut lens.to_vec(), &mut vec![], &mut out);
    out
}

struct Shared {
    order: Vec<usize>,
    pos: AtomicUsize,
    aborted: std::sync::atomic::AtomicBool,
    threads: Vec<Thread>,
    fail: Mutex<Option<(String, String)>>,
    returned: Mutex<Vec<TimeZone>>,
    mailbox: Vec<Mutex<Vec<TimeZone>>>,
    handles_in_model: AtomicI64,
}

/// operations that really acted on a handle, by kind (clone, drop, query, send-back, send-peer, exit)
pub static OPS_DONE: [AtomicU64; 6] = [const { AtomicU64::new(0) }; 6];

type Job = Box<dyn FnOnce() + Send>;
struct Actor {
    tx: mpsc::Sender<Job>,
    thread: Thread,
}
thread_local! {
    /// Real OS threads that execute the scripts. They are kept between
    /// schedules (spawning three threads per schedule costs more than the
    /// schedule); the end of a script's thread is the scheduled `Exit` step.
    static ACTORS: std::cell::RefCell<Vec<Actor>> = const { std::cell::RefCell::new(vec![]) };
}

fn actors(n: usize) -> Vec<(mpsc::Sender<Job>, Thread)> {
    ACTORS.with(|a| {
        let mut a = a.borrow_mut();
        while a.len() < n {
            let (tx, rx) = mpsc::channel::<Job>();
            let j = std::thread::Builder::new().name("c20-actor".into()).stack_size(256 * 1024).spawn(move || {
                for job in rx {
                    job();
                }
            });
            let j = j.expect("spawn actor thread");
            a.push(Actor { tx, thread: j.thread().clone() });
        }
        a[..n].iter().map(|x| (x.tx.clone(), x.thread.clone())).collect()
    })
}

/// The body of one script, run by one actor thread.
fn run_script(sh: &Shared, t: usize, script: &[TOp], mine: TimeZone, w: &'static kinds::Want, group: usize) {
    let nt = sh.threads.len();
    let mut hs: Vec<TimeZone> = vec![mine];
    for op in script {
        // wait for my turn
        loop {
            if sh.aborted.load(Ordering::SeqCst) {
                // a violation was recorded: nothing is read (or dropped) through
                // handles that may dangle
                std::mem::forget(hs);
                return;
            }
            let p = sh.pos.load(Ordering::SeqCst);
            if sh.order[p] == t {
                break;
            }
            std::thread::park();
        }
        // handles a peer sent me arrive before my operation
        hs.extend(sh.mailbox[t].lock().unwrap().drain(..));
        let him = &sh.handles_in_model;
        if COUNTING && him.load(Ordering::SeqCst) > 0 && live(group) <= 0 {
            *sh.fail.lock().unwrap() = Some(("schedule/freed-while-handles-live".into(), format!("{} handles, no live blocks (before an operation of thread {})", him.load(Ordering::SeqCst), t)));
            sh.aborted.store(true, Ordering::SeqCst);
            for th in &sh.threads {
                th.unpark();
            }
            std::mem::forget(hs);
            return;
        }
        if !hs.is_empty() {
            OPS_DONE[*op as usize].fetch_add(1, Ordering::Relaxed);
        }
        match op {
            TOp::Clone => {
                if let Some(h) = hs.last() {
                    let c = h.clone();
                    hs.push(c);
                    him.fetch_add(1, Ordering::SeqCst);
                }
            }
            TOp::Drop => {
                if hs.pop().is_some() {
                    him.fetch_sub(1, Ordering::SeqCst);
                }
            }
            TOp::Query => {
                if let Some(h) = hs.last() {
                    if let Err(e) = check_handle(h, w) {
                        *sh.fail.lock().unwrap() = Some(("schedule/query-answer".into(), format!("thread {}: {}", t, e)));
                    }
                    if hs.len() >= 2 && hs[0] != hs[hs.len() - 1] {
                        *sh.fail.lock().unwrap() = Some(("schedule/eq-value".into(), format!("thread {}: two handles of one zone compare unequal", t)));
                    }
                }
            }
            TOp::SendBack => {
                if let Some(h) = hs.pop() {
                    sh.returned.lock().unwrap().push(h);
                }
            }
            TOp::SendPeer => {
                if let Some(h) = hs.pop() {
                    sh.mailbox[(t + 1) % nt].lock().unwrap().push(h);
                }
            }
            TOp::Exit => {
                him.fetch_sub(hs.len() as i64, Ordering::SeqCst);
                hs.clear();
            }
        }
        // accounting after every operation, under the baton
        let handles = him.load(Ordering::SeqCst);
        let l = live(group);
        if COUNTING && handles > 0 && l <= 0 {
            *sh.fail.lock().unwrap() = Some(("schedule/freed-while-handles-live".into(), format!("{} handles, {} live blocks", handles, l)));
        }
        if COUNTING && handles == 0 && l != 0 {
            *sh.fail.lock().unwrap() = Some(("schedule/leak-after-last-handle-dropped".into(), format!("no handles, {} live blocks (checked on thread {})", l, t)));
        }
        if sh.fail.lock().unwrap().is_some() {
            sh.aborted.store(true, Ordering::SeqCst);
            for th in &sh.threads {
                th.unpark();
            }
            std::mem::forget(hs);
            return;
        }
        let p = sh.pos.fetch_add(1, Ordering::SeqCst) + 1;
        if p < sh.order.len() {
            sh.threads[sh.order[p]].unpark();
        }
    }
    // every script ends with Exit, so nothing is left here; handles a peer
    // sent after my Exit stay in the mailbox and are dropped by the creator
    drop(hs);
}

/// One schedule: `scripts[t]` is executed by thread t, operations are
/// serialised in `order`. With `root_kept` the creating thread keeps the
/// original handle until every thread has ended; otherwise the original is
/// *moved* to thread 0 and the creating thread holds nothing (the zone dies on
/// whichever thread drops the last handle).
pub fn run_schedule(desc: Desc, scripts: &[Vec<TOp>], order: &[usize], group: usize, root_kept: bool) -> Option<(String, String)> {
    let root = make(&desc, group, None);
    let w = want(&desc);
    let nt = scripts.len();
    let acts = actors(nt);
    let sh = StdArc::new(Shared {
        order: order.to_vec(),
        pos: AtomicUsize::new(0),
        aborted: std::sync::atomic::AtomicBool::new(false),
        threads: acts.iter().map(|a| a.1.clone()).collect(),
        fail: Mutex::new(None),
        returned: Mutex::new(vec![]),
        mailbox: (0..nt).map(|_| Mutex::new(vec![])).collect(),
        handles_in_model: AtomicI64::new(1),
    });
    let mut firsts: Vec<TimeZone> = vec![];
    for _ in 1..nt {
        firsts.push(root.clone());
        sh.handles_in_model.fetch_add(1, Ordering::SeqCst);
    }
    let mut root = Some(root);
    if root_kept {
        firsts.insert(0, root.as_ref().unwrap().clone());
        sh.handles_in_model.fetch_add(1, Ordering::SeqCst);
    } else {
        firsts.insert(0, root.take().unwrap());
    }
    let (done_tx, done_rx) = mpsc::channel::<Result<(), String>>();
    for (t, mine) in firsts.into_iter().enumerate() {
        let sh = sh.clone();
        let script = scripts[t].clone();
        let done_tx = done_tx.clone();
        let job: Job = Box::new(move || {
            let res = guard(|| run_script(&sh, t, &script, mine, w, group));
            if res.is_err() {
                sh.aborted.store(true, Ordering::SeqCst);
                for th in &sh.threads {
                    th.unpark();
                }
            }
            drop(sh);
            let _ = done_tx.send(res);
        });
        acts[t].0.send(job).expect("actor thread alive");
    }
    drop(done_tx);
    let mut panicked = None;
    for _ in 0..nt {
        match done_rx.recv() {
            Ok(Ok(())) => {}
            Ok(Err(p)) => panicked = Some(p),
            Err(_) => return Some(("schedule/engine-actor-lost".into(), String::new())),
        }
    }
    if let Some(p) = panicked {
        std::mem::forget((root, sh));
        return Some((format!("schedule/{}", panic_sig(&p)), p));
    }
    let f = sh.fail.lock().unwrap().take();
    if let Some(f) = f {
        // the handles still around may dangle: leak them rather than touch them
        std::mem::forget((root, sh));
        return Some(f);
    }
    if sh.pos.load(Ordering::SeqCst) != sh.order.len() {
        return Some(("schedule/engine-incomplete".into(), format!("{} of {} operations ran", sh.pos.load(Ordering::SeqCst), sh.order.len())));
    }
    // the root and everything sent back (or never collected) still answer correctly
    let mut back = std::mem::take(&mut *sh.returned.lock().unwrap());
    for mb in &sh.mailbox {
        back.extend(mb.lock().unwrap().drain(..));
    }
    let held = back.len() + root.iter().count();
    if COUNTING && held > 0 && live(group) <= 0 {
        std::mem::forget((back, root, sh));
        return Some(("schedule/freed-while-handles-live".into(), "handles still held after join".into()));
    }
    for h in back.iter().chain(root.iter()) {
        if let Err(e) = check_handle(h, w) {
            return Some(("schedule/query-answer-after-join".into(), e));
        }
    }
    if held as i64 != sh.handles_in_model.load(Ordering::SeqCst) {
        return Some(("schedule/engine-handle-count".into(), format!("{} held, model {}", held, sh.handles_in_model.load(Ordering::SeqCst))));
    }
    drop(back);
    drop(root);
    if COUNTING && live(group) != 0 {
        let l = live(group);
        return Some(("schedule/leak-after-last-handle-dropped".into(), format!("{} live blocks", l)));
    }
    if let Some((s, d)) = alloc_complaint(group) {
        return Some((format!("schedule/{}", s), d));
    }
    None
}

pub fn schedules(r: &Report) {
    let ops4 = [TOp::Clone, TOp::Drop, TOp::Query, TOp::SendPeer];
    let ops5 = [TOp::Clone, TOp::Drop, TOp::Query, TOp::SendBack, TOp::SendPeer];
    let seqs = |ops: &[TOp], n: usize| -> Vec<Vec<TOp>> {
        let mut out: Vec<Vec<TOp>> = vec![vec![]];
        for _ in 0..n {
            out = out.iter().flat_map(|s| ops.iter().map(move |o| s.iter().copied().chain([*o]).collect())).collect();
        }
        // the end of the thread is a scheduled operation of its own
        out.into_iter().map(|mut s: Vec<TOp>| { s.push(TOp::Exit); s }).collect()
    };
    // program shapes
    let mut shapes: Vec<Vec<Vec<TOp>>> = vec![];
    let (s1, s2) = (seqs(&ops5, 1), seqs(&ops5, 2));
    for a in &s2 {
        for b in &s2 {
            shapes.push(vec![a.clone(), b.clone()]); // 2 threads x (2 ops + exit): 625 shapes x 20 orders
        }
    }
    for a in &s1 {
        for b in &s1 {
            for c in &s1 {
                shapes.push(vec![a.clone(), b.clone(), c.clone()]); // 3 threads x (1 op + exit): 125 shapes x 90 orders
            }
        }
    }
    if r.thorough() {
        let (t3, t2, t1) = (seqs(&ops4, 3), seqs(&ops4, 2), seqs(&ops4, 1));
        for a in &t3 {
            for b in &t3 {
                shapes.push(vec![a.clone(), b.clone()]); // 2 threads x (3 ops + exit): 4096 shapes x 70 orders
            }
        }
        for a in &t2 {
            for b in &t2 {
                for c in &t1 {
                    shapes.push(vec![a.clone(), b.clone(), c.clone()]); // (2,2,1)+exits: 1024 shapes x 1680 orders is too many: see below
                }
            }
        }
    }
    let mut jobs: Vec<(Desc, usize, Vec<usize>, bool)> = vec![];
    for (si, shape) in shapes.iter().enumerate() {
        let lens: Vec<usize> = shape.iter().map(|s| s.len()).collect();
        let mut orders = interleavings(&lens);
        if lens == [3, 3, 2] {
            // (2,2,1)+exits: the three Exit steps are kept at the end in thread
            // order (the exits' own interleavings are covered by the smaller
            // shapes): interleave the 5 proper operations only, 30 orders
            orders = interleavings(&[2, 2, 1]).into_iter().map(|mut o| { o.extend([0, 1, 2]); o }).collect();
        }
        for order in orders {
            for desc in [Desc::Tzif(0), Desc::Posix(0)] {
                for root_kept in [true, false] {
                    jobs.push((desc, si, order.clone(), root_kept));
                }
            }
        }
    }
    let n_sched = jobs.len() as u64;
    let n_ops: u64 = jobs.iter().map(|j| j.2.len() as u64).sum();
    let run_one = |(k, (desc, si, order, root_kept)): (usize, &(Desc, usize, Vec<usize>, bool))| {
        let g = my_slot() * NG + 1 + (k % (NG - 1));
        reset_group(g);
        let shape = &shapes[*si];
        let res = guard(|| run_schedule(*desc, shape, order, g, *root_kept));
        let case = || format!("{:?} root {} scripts {:?} order {:?}", desc, if *root_kept { "kept" } else { "moved" }, shape, order);
        match res {
            Err(p) => r.viol("schedules", &format!("schedule/{}", panic_sig(&p)), case(), p),
            Ok(Some((sig, d))) => r.viol("schedules", &format!("{}:{}", sig, desc.heap_label()), case(), d),
            Ok(None) => {}
        }
        reset_group(g);
    };
    if cfg!(miri) {
        jobs.iter().enumerate().for_each(run_one);
    } else {
        jobs.par_iter().enumerate().for_each(run_one);
    }
    r.add_states(n_sched);
    r.add_transitions(n_ops);
    r.add_validated(n_ops);
    r.count("schedules", n_sched);
    r.count("schedule_shapes", shapes.len() as u64);
    for (k, n) in ["clone", "drop", "query", "send-back", "send-peer", "exit-with-handles"].iter().enumerate() {
        r.outcome(&format!("schedule-ops-on-a-handle:{}", n), OPS_DONE[k].load(Ordering::Relaxed));
        r.require(OPS_DONE[k].load(Ordering::Relaxed) > 0, &format!("schedule operation {} acted on a handle", n));
    }
    r.require(n_sched >= 10_000, "at least 10 000 distinct (shape, order, kind, root mode) schedules");
}

// ---------------------------------------------------------------------------
// free-running threads (no baton)
// ---------------------------------------------------------------------------

fn hammer(h: &TimeZone, w: &kinds::Want, iters: usize, bad: &AtomicU64) {
    for k in 0..iters {
        let c = h.clone();
        if c != *h {
            bad.fetch_add(1, Ordering::SeqCst);
        }
        let d = c.clone();
        if k % 2 == 0 {
            drop(c);
            if check_handle(&d, w).is_err() {
                bad.fetch_add(1, Ordering::SeqCst);
            }
        } else {
            drop(d);
            if check_handle(&c, w).is_err() {
                bad.fetch_add(1, Ordering::SeqCst);
            }
        }
    }
}

/// The same clone/drop/eq/query operations on real threads without any
/// serialisation. The baton schedules cannot show a race *inside* the
/// reference count (they never run two operations at once); here Miri's
/// data-race detector (any seed: the detector is happens-before based) and
/// ASan (for the use-after-free a lost update would cause) are the oracles,
/// and the counting build checks the end state. `std`'s `Arc` itself is
/// trusted; what this guards is jiff reaching the count through anything that
/// is not atomic while `Repr` is declared `Send + Sync` by hand.
pub fn free_running(r: &Report) {
    let (nt, iters) = if cfg!(miri) { (4usize, 4usize) } else if r.quick() { (8, 2_000) } else { (16, 20_000) };
    let bad = AtomicU64::new(0);
    let mut ops = 0u64;
    let base = my_slot() * NG;
    for (k, desc) in [Desc::Tzif(0), Desc::Posix(0), Desc::Static, Desc::Fixed(-1)].into_iter().enumerate() {
        let case = format!("{:?} threads {} iterations {}", desc, nt, iters);
        let w = want(&desc);
        // A: one handle borrowed by all threads (Sync)
        let g = base + 1 + 2 * k;
        reset_group(g);
        let root = make(&desc, g, None);
        std::thread::scope(|s| {
            for _ in 0..nt {
                s.spawn(|| hammer(&root, w, iters, &bad));
            }
        });
        if check_handle(&root, w).is_err() {
            bad.fetch_add(1, Ordering::SeqCst);
        }
        drop(root);
        if COUNTING && live(g) != 0 {
            r.viol("free-running", &format!("free-running/leak-after-last-handle-dropped:{}", desc.heap_label()), case.clone(), format!("shared borrow phase: {} live blocks after the only handle was dropped", live(g)));
        }
        if let Some((s, d)) = alloc_complaint(g) {
            r.viol("free-running", &format!("free-running/{}:{}", s, desc.heap_label()), case.clone(), d);
        }
        // B: every thread owns a handle (Send) and outlives the sender's own handle
        let g = base + 2 + 2 * k;
        reset_group(g);
        let root = make(&desc, g, None);
        let badc = StdArc::new(AtomicU64::new(0));
        let joins: Vec<_> = (0..nt)
            .map(|_| {
                let mine = root.clone();
                let badc = badc.clone();
                std::thread::spawn(move || {
                    hammer(&mine, w, iters, &badc);
                    drop(mine);
                })
            })
            .collect();
        drop(root); // the sender lets go first; the zone dies on whichever thread ends last
        for j in joins {
            if j.join().is_err() {
                bad.fetch_add(1, Ordering::SeqCst);
            }
        }
        bad.fetch_add(badc.load(Ordering::SeqCst), Ordering::SeqCst);
        if COUNTING && live(g) != 0 {
            r.viol("free-running", &format!("free-running/leak-after-last-handle-dropped:{}", desc.heap_label()), case.clone(), format!("owned handles phase: {} live blocks after all threads ended", live(g)));
        }
        if let Some((s, d)) = alloc_complaint(g) {
            r.viol("free-running", &format!("free-running/{}:{}", s, desc.heap_label()), case.clone(), d);
        }
        if bad.swap(0, Ordering::SeqCst) != 0 {
            r.viol("free-running", &format!("free-running/query-or-eq-answer:{}", desc.heap_label()), case.clone(), "a handle answered wrongly (or a thread panicked) while other threads cloned and dropped handles of the same zone");
        }
        ops += 2 * (nt * iters * 4) as u64;
    }
    // C: the database cache as the shared holder: concurrent get / drop / reset
    if !cfg!(miri) {
        let db = bundled_db_pregrown();
        let g = base + 20;
        reset_group(g);
        let w = want(&Desc::Db(1));
        let it = iters / 10;
        std::thread::scope(|s| {
            for t in 0..nt {
                let bad = &bad;
                s.spawn(move || {
                    let mut keep: Vec<TimeZone> = vec![];
                    for k in 0..it {
                        let tz = kinds::tagged(g, || db.get(DB_NAMES[1]).expect("bundled zone"));
                        if check_handle(&tz, w).is_err() {
                            bad.fetch_add(1, Ordering::SeqCst);
                        }
                        if let Some(last) = keep.last() {
                            if *last != tz {
                                bad.fetch_add(1, Ordering::SeqCst);
                            }
                        }
                        keep.push(tz);
                        if keep.len() > 3 {
                            keep.remove(0);
                        }
                        if t == 0 && k % 7 == 3 {
                            db.reset();
                        }
                    }
                });
            }
        });
        db.reset();
        let case = format!("Db(1) threads {} iterations {}", nt, it);
        if COUNTING && live(g) != 0 {
            r.viol("free-running", "free-running/leak-after-last-handle-dropped:Db", case.clone(), format!("{} live blocks after every handle was dropped and the cache reset", live(g)));
        }
        if let Some((s, d)) = alloc_complaint(g) {
            r.viol("free-running", &format!("free-running/{}:Db", s), case.clone(), d);
        }
        if bad.swap(0, Ordering::SeqCst) != 0 {
            r.viol("free-running", "free-running/query-or-eq-answer:Db", case, "a handle from the cache answered wrongly while other threads fetched, dropped and reset");
        }
        ops += (nt * it * 3) as u64;
    }
    r.add_transitions(ops);
    r.count("free_running_handle_ops", ops);
    r.outcome("free-running:threads", nt as u64);
}
