//! Handle kinds, how to make them, what they must answer (from the reference
//! model, independent of jiff's TZif/POSIX code) and the observers that run
//! after every step.

use super::*;
use jiff::civil::DateTime;
use jiff::tz::{AmbiguousOffset, Dst};
use jiff::SignedDuration;
use std::fmt::Write as _;
use std::sync::OnceLock;

/// Every representation kind of `TimeZone` (tag in `mod repr`):
/// `Tzif`/`Db`/`Local` = ARC_TZIF, `Posix` = ARC_POSIX, `Utc`, `Unknown`,
/// `Fixed` = FIXED (offset packed into the pointer bits), `Static` =
/// STATIC_TZIF (`jiff::tz::get!`).
#[derive(Clone, Copy, PartialEq, Eq, Debug, Hash, PartialOrd, Ord)]
pub enum Desc {
    /// `TimeZone::tzif("Tiny/<c>", synthetic bytes)`
    Tzif(u8),
    /// `TimeZone::posix(<string c>)`
    Posix(u8),
    /// `TimeZoneDatabase::bundled().get(DB_NAMES[c])`: Arc shared with the database's cache
    Db(u8),
    Utc,
    Unknown,
    Fixed(i32),
    /// `static STATIC_TZ: TimeZone = jiff::tz::get!("America/New_York")`
    Static,
    /// unnamed TZif from `TimeZone::try_system()` (TZ=<file>), shared with the system-zone cache
    Local,
}

impl Desc {
    pub fn heap(&self) -> bool {
        matches!(self, Desc::Tzif(_) | Desc::Posix(_) | Desc::Db(_) | Desc::Local)
    }
    pub fn heap_label(&self) -> &'static str {
        match self {
            Desc::Tzif(_) => "Tzif",
            Desc::Posix(_) => "Posix",
            Desc::Db(_) => "Db",
            Desc::Utc => "Utc",
            Desc::Unknown => "Unknown",
            Desc::Fixed(_) => "Fixed",
            Desc::Static => "Static",
            Desc::Local => "Local",
        }
    }
}

pub const DB_NAMES: [&str; 2] = ["Asia/Tokyo", "America/Sao_Paulo"];
pub const STATIC_NAME: &str = "America/New_York";
pub static STATIC_TZ: TimeZone = jiff::tz::get!("America/New_York");

/// A second, distinct `static` with the same identifier and data (the macro
/// pins one static per expansion and hands out dumb copies of it).
pub fn static_by_value() -> TimeZone {
    jiff::tz::get!("America/New_York")
}
pub fn static_tokyo() -> TimeZone {
    jiff::tz::get!("Asia/Tokyo")
}

/// A minimal TZif v2 file with one transition at t=1e9 (so that queries touch
/// the transition table and the designation strings) and a footer.
fn build_tiny_tzif(content: u8) -> Vec<u8> {
    let (o1, o2) = if content == 0 { (3600i32, 7200i32) } else { (-3600i32, -7200i32) };
    let abbrs = b"AAA\0BBB\0";
    let mut v1 = vec![];
    v1.extend_from_slice(b"TZif2");
    v1.extend_from_slice(&[0u8; 15]);
    for n in [0u32, 0, 0, 0, 1, 4] {
        v1.extend_from_slice(&n.to_be_bytes());
    }
    v1.extend_from_slice(&o1.to_be_bytes());
    v1.extend_from_slice(&[0, 0]);
    v1.extend_from_slice(b"AAA\0");
    let mut v2 = vec![];
    v2.extend_from_slice(b"TZif2");
    v2.extend_from_slice(&[0u8; 15]);
    for n in [0u32, 0, 0, 1, 2, abbrs.len() as u32] {
        v2.extend_from_slice(&n.to_be_bytes());
    }
    v2.extend_from_slice(&1_000_000_000i64.to_be_bytes());
    v2.push(1);
    v2.extend_from_slice(&o1.to_be_bytes());
    v2.extend_from_slice(&[0, 0]);
    v2.extend_from_slice(&o2.to_be_bytes());
    v2.extend_from_slice(&[0, 4]);
    v2.extend_from_slice(abbrs);
    let mut out = v1;
    out.extend(v2);
    let p = -o2 / 3600;
    out.extend_from_slice(format!("\nBBB{}\n", p).as_bytes());
    out
}

pub fn tiny_tzif(content: u8) -> &'static [u8] {
    static B: OnceLock<[Vec<u8>; 2]> = OnceLock::new();
    &B.get_or_init(|| [build_tiny_tzif(0), build_tiny_tzif(1)])[(content != 0) as usize]
}
pub const TINY_NAMES: [&str; 2] = ["Tiny/0", "Tiny/1"];

pub fn posix_str(content: u8) -> &'static str {
    if content == 0 {
        "EST5EDT,M3.2.0,M11.1.0"
    } else {
        "CET-1CEST,M3.5.0,M10.5.0/3"
    }
}

pub const PROBES: [i64; 3] = [0, 1_100_000_000, 1_720_000_000]; // 1970-01-01, 2004-11-09, 2024-07-03
pub fn probe(i: usize) -> Timestamp {
    Timestamp::from_second(PROBES[i]).unwrap()
}

/// Runs `f` with this thread's allocations attributed to `group`.
pub fn tagged<T>(group: usize, f: impl FnOnce() -> T) -> T {
    struct Restore(usize);
    impl Drop for Restore {
        fn drop(&mut self) {
            TAG.with(|t| t.set(self.0));
        }
    }
    let _r = Restore(TAG.with(|t| t.replace(group)));
    f()
}

/// The bundled database, with its process-wide cache vector grown once so that
/// no vector reallocation is attributed to a measured group later.
pub fn bundled_db_pregrown() -> &'static TimeZoneDatabase {
    static DB: OnceLock<TimeZoneDatabase> = OnceLock::new();
    DB.get_or_init(|| {
        let db = TimeZoneDatabase::bundled();
        for n in ["Etc/GMT+1", "Etc/GMT+2", "Etc/GMT+3", "Etc/GMT+4", "Etc/GMT+5", "Etc/GMT+6", "Etc/GMT+7", "Etc/GMT+8", "Etc/GMT+9"] {
            let _ = db.get(n).expect("bundled zone");
        }
        db.reset();
        db
    })
}

pub fn make(d: &Desc, group: usize, db: Option<&TimeZoneDatabase>) -> TimeZone {
    match d {
        Desc::Tzif(c) => tagged(group, || TimeZone::tzif(TINY_NAMES[(*c != 0) as usize], tiny_tzif(*c)).expect("tiny tzif")),
        Desc::Posix(c) => tagged(group, || TimeZone::posix(posix_str(*c)).expect("posix")),
        Desc::Db(c) => tagged(group, || db.expect("database run").get(DB_NAMES[*c as usize]).expect("bundled zone")),
        Desc::Utc => TimeZone::UTC,
        Desc::Unknown => TimeZone::unknown(),
        Desc::Fixed(s) => TimeZone::fixed(Offset::from_seconds(*s).unwrap()),
        Desc::Static => STATIC_TZ.clone(),
        Desc::Local => panic!("Local handles come from the system-local section only"),
    }
}

// ---------------------------------------------------------------------------
// what a handle must answer
// ---------------------------------------------------------------------------

#[derive(Clone, PartialEq, Eq, Debug)]
pub struct Want {
    pub offs: [i32; 3],
    pub dst: [bool; 3],
    pub abbr: [String; 3],
    pub name: Option<String>,
    pub fixed: Option<i32>,
    pub unknown: bool,
    /// fingerprint of a fresh, never shared handle of the kind (0 = not compared)
    pub fp: u64,
}

/// `+HH[:MM[:SS]]` — the abbreviation jiff documents for fixed offset zones.
pub fn fixed_abbr(s: i32) -> String {
    let (sign, a) = (if s < 0 { '-' } else { '+' }, s.unsigned_abs());
    let (h, m, sec) = (a / 3600, a / 60 % 60, a % 60);
    if sec != 0 {
        format!("{}{:02}:{:02}:{:02}", sign, h, m, sec)
    } else if m != 0 {
        format!("{}{:02}:{:02}", sign, h, m)
    } else {
        format!("{}{:02}", sign, h)
    }
}

/// `Debug` of a fixed offset handle.
pub fn fixed_debug(s: i32) -> String {
    if s == 0 {
        return "TimeZone(UTC)".into();
    }
    let a = s.unsigned_abs();
    format!("TimeZone({}{:02}:{:02}:{:02})", if s < 0 { "-" } else { "" }, a / 3600, a / 60 % 60, a % 60)
}

impl Want {
    pub fn constant(off: i32, abbr: &str, name: Option<&str>, unknown: bool) -> Want {
        Want { offs: [off; 3], dst: [false; 3], abbr: [abbr.to_string(), abbr.to_string(), abbr.to_string()], name: name.map(|s| s.to_string()), fixed: Some(off), unknown, fp: 0 }
    }
    pub fn fixed(s: i32) -> Want {
        if s == 0 {
            // `TimeZone::fixed(0)` *is* `TimeZone::UTC`
            return Want::constant(0, "UTC", Some("UTC"), false);
        }
        Want::constant(s, &fixed_abbr(s), None, false)
    }
    pub fn from_model(z: &refmodel::tz::Zone, name: Option<&str>) -> Want {
        let i = [0, 1, 2].map(|p| z.info_at(PROBES[p]).clone());
        Want { offs: [i[0].utoff, i[1].utoff, i[2].utoff], dst: [i[0].dst, i[1].dst, i[2].dst], abbr: [i[0].abbrev.clone(), i[1].abbrev.clone(), i[2].abbrev.clone()], name: name.map(|s| s.to_string()), fixed: None, unknown: false, fp: 0 }
    }
    /// What a handle answers right now (used for fresh handles under Miri,
    /// where building the reference model would dominate the run).
    pub fn observed(tz: &TimeZone) -> Want {
        let inf = [0, 1, 2].map(|p| tz.to_offset_info(probe(p)));
        Want {
            offs: [0, 1, 2].map(|p| inf[p].offset().seconds()),
            dst: [0, 1, 2].map(|p| inf[p].dst() == Dst::Yes),
            abbr: [0, 1, 2].map(|p| inf[p].abbreviation().to_string()),
            name: tz.iana_name().map(|s| s.to_string()),
            fixed: tz.to_fixed_offset().ok().map(|o| o.seconds()),
            unknown: tz.is_unknown(),
            fp: 0,
        }
    }
}

static WANTS: [OnceLock<Want>; 11] = [const { OnceLock::new() }; 11];
pub static LOCAL_WANT: OnceLock<Want> = OnceLock::new();
/// a handle of the unnamed system zone, kept from the system-local section on
pub static LOCAL_HANDLE: OnceLock<TimeZone> = OnceLock::new();

fn windex(d: &Desc) -> usize {
    match d {
        Desc::Tzif(c) => (*c != 0) as usize,
        Desc::Posix(c) => 2 + (*c != 0) as usize,
        Desc::Db(c) => 4 + (*c != 0) as usize,
        Desc::Utc => 6,
        Desc::Unknown => 7,
        Desc::Fixed(1) => 8,
        Desc::Fixed(-1) => 9,
        Desc::Static => 10,
        Desc::Local | Desc::Fixed(_) => panic!("no precomputed answers for {:?}; use want_owned", d),
    }
}

/// The answers a handle of kind `d` must give; computed on first use (so that
/// the bundled database is first touched inside the sections that test it).
pub fn want(d: &Desc) -> &'static Want {
    if *d == Desc::Local {
        return LOCAL_WANT.get().expect("system-local section ran");
    }
    WANTS[windex(d)].get_or_init(|| tagged(0, || compute_want(*d)))
}

pub fn want_owned(d: &Desc) -> Want {
    match d {
        Desc::Fixed(s) if *s != 1 && *s != -1 => Want::fixed(*s),
        _ => want(d).clone(),
    }
}

/// The model's answers for the tiny synthetic TZif data (also used for the
/// unnamed system zone, which is read from the same bytes).
pub fn tiny_want(c: u8, name: Option<&str>) -> Want {
    if cfg!(miri) {
        let tz = TimeZone::tzif(TINY_NAMES[(c != 0) as usize], tiny_tzif(c)).expect("tiny tzif");
        let mut w = Want::observed(&tz);
        w.name = name.map(|s| s.to_string());
        return w;
    }
    Want::from_model(&refmodel::tz::zone_from_tzif(tiny_tzif(c)).expect("model reads tiny tzif"), name)
}

fn compute_want(d: Desc) -> Want {
    // a fresh handle, never shared, for the golden fingerprint
    let fresh = make(&d, 0, Some(bundled_db_pregrown()));
    let mut w = if cfg!(miri) {
        Want::observed(&fresh)
    } else {
        match d {
            Desc::Tzif(c) => tiny_want(c, Some(TINY_NAMES[(c != 0) as usize])),
            Desc::Posix(c) => Want::from_model(&refmodel::tz::zone_from_posix(posix_str(c).as_bytes()).expect("model reads posix"), None),
            Desc::Db(c) => {
                let (canon, bytes) = jiff_tzdb::get(DB_NAMES[c as usize]).expect("bundled");
                Want::from_model(&refmodel::tz::zone_from_tzif(bytes).expect("model reads bundled tzif"), Some(canon))
            }
            Desc::Static => {
                let (canon, bytes) = jiff_tzdb::get(STATIC_NAME).expect("bundled");
                Want::from_model(&refmodel::tz::zone_from_tzif(bytes).expect("model reads bundled tzif"), Some(canon))
            }
            Desc::Utc => Want::constant(0, "UTC", Some("UTC"), false),
            Desc::Unknown => Want::constant(0, "UTC", None, true),
            Desc::Fixed(s) => Want::fixed(s),
            Desc::Local => unreachable!(),
        }
    };
    if !cfg!(miri) {
        w.fp = fingerprint(&fresh);
    }
    drop(fresh);
    if let Desc::Db(_) = d {
        bundled_db_pregrown().reset();
    }
    w
}

/// The historical hand-written expectations, as a self-check of the model
/// (over the kinds this run used).
pub fn self_check(r: &Report) {
    let known: [(Desc, [i32; 3]); 7] = [
        (Desc::Tzif(0), [3600, 7200, 7200]),
        (Desc::Tzif(1), [-3600, -7200, -7200]),
        (Desc::Posix(0), [-18000, -18000, -14400]),
        (Desc::Posix(1), [3600, 3600, 7200]),
        (Desc::Static, [-18000, -18000, -14400]),
        (Desc::Db(0), [32400; 3]),
        (Desc::Db(1), [-10800, -7200, -10800]),
    ];
    let mut ok = true;
    let mut n = 0;
    for (d, offs) in known {
        if let Some(w) = WANTS[windex(&d)].get() {
            n += 1;
            ok &= w.offs == offs || (cfg!(miri) && w.offs[1..] == offs[1..]);
            if d == Desc::Static {
                ok &= w.abbr[1..] == ["EST", "EDT"];
            }
            if d == Desc::Db(1) {
                ok &= w.dst[1..] == [true, false];
            }
        }
    }
    r.require(ok, "reference answers for the probe instants are the known ones");
    r.count("kinds_with_reference_answers", n);
}

struct Fnv(u64);
impl Fnv {
    fn bytes(&mut self, b: &[u8]) {
        for &x in b {
            self.0 ^= x as u64;
            self.0 = self.0.wrapping_mul(0x100_0000_01b3);
        }
    }
    fn i(&mut self, v: i64) {
        self.bytes(&v.to_le_bytes());
    }
}
impl std::fmt::Write for Fnv {
    fn write_str(&mut self, s: &str) -> std::fmt::Result {
        self.bytes(s.as_bytes());
        Ok(())
    }
}

pub fn dt_gap() -> DateTime {
    jiff::civil::date(2024, 3, 10).at(2, 30, 0, 0)
}
pub fn dt_fold() -> DateTime {
    jiff::civil::date(2024, 11, 3).at(1, 30, 0, 0)
}

/// A digest of every remaining read path of a handle (the ones whose values
/// belong to other properties): `Debug`, `to_datetime`, civil -> instant
/// classification, the transition iterators. Allocation free.
pub fn fingerprint(tz: &TimeZone) -> u64 {
    let mut h = Fnv(0xcbf2_9ce4_8422_2325);
    let _ = write!(h, "{:?}", tz);
    let dt = tz.to_datetime(probe(1));
    for v in [dt.year() as i64, dt.month() as i64, dt.day() as i64, dt.hour() as i64, dt.minute() as i64, dt.second() as i64] {
        h.i(v);
    }
    for d in [dt_gap(), dt_fold(), jiff::civil::date(2024, 3, 31).at(2, 30, 0, 0)] {
        match tz.to_ambiguous_timestamp(d).offset() {
            AmbiguousOffset::Unambiguous { offset } => {
                h.i(0);
                h.i(offset.seconds() as i64);
            }
            AmbiguousOffset::Gap { before, after } => {
                h.i(1);
                h.i(before.seconds() as i64);
                h.i(after.seconds() as i64);
            }
            AmbiguousOffset::Fold { before, after } => {
                h.i(2);
                h.i(before.seconds() as i64);
                h.i(after.seconds() as i64);
            }
        }
    }
    for t in tz.preceding(probe(1)).take(2).chain(tz.following(probe(1)).take(2)) {
        h.i(t.timestamp().as_second());
        h.i(t.offset().seconds() as i64);
        h.bytes(t.abbreviation().as_bytes());
        h.i((t.dst() == Dst::Yes) as i64);
    }
    h.0
}

/// Every read path of a live handle against what its kind must answer.
pub fn check_handle(tz: &TimeZone, w: &Want) -> Result<(), String> {
    check_handle_opt(tz, w, true)
}

/// `deep = false` leaves out the digest of the remaining read paths (every
/// answer below still reads through the handle's pointer, so a dangling handle
/// shows either way).
pub fn check_handle_opt(tz: &TimeZone, w: &Want, deep: bool) -> Result<(), String> {
    if cfg!(miri) {
        // Under Miri the interpreter is the oracle: one read through the
        // pointer per path that differs by kind is enough (and everything
        // costs milliseconds).
        let o = tz.to_offset(probe(2)).seconds();
        if o != w.offs[2] {
            return Err(format!("to_offset(probe 2) = {} want {}", o, w.offs[2]));
        }
        if tz.iana_name() != w.name.as_deref() || tz.is_unknown() != w.unknown {
            return Err(format!("iana_name = {:?} want {:?}; is_unknown = {}", tz.iana_name(), w.name, tz.is_unknown()));
        }
        if w.fixed.is_some() && tz.to_fixed_offset().ok().map(|o| o.seconds()) != w.fixed {
            return Err(format!("to_fixed_offset want {:?}", w.fixed));
        }
        return Ok(());
    }
    let np = 3;
    for p in (3 - np)..3 {
        let t = probe(p);
        let o = tz.to_offset(t).seconds();
        if o != w.offs[p] {
            return Err(format!("to_offset(probe {}) = {} want {}", p, o, w.offs[p]));
        }
        let inf = tz.to_offset_info(t);
        if inf.offset().seconds() != w.offs[p] || (inf.dst() == Dst::Yes) != w.dst[p] || inf.abbreviation() != w.abbr[p] {
            return Err(format!("to_offset_info(probe {}) = ({}, {:?}, {:?}) want ({}, dst={}, {:?})", p, inf.offset().seconds(), inf.dst(), inf.abbreviation(), w.offs[p], w.dst[p], w.abbr[p]));
        }
    }
    if tz.iana_name() != w.name.as_deref() {
        return Err(format!("iana_name = {:?} want {:?}", tz.iana_name(), w.name));
    }
    let f = tz.to_fixed_offset().ok().map(|o| o.seconds());
    if f != w.fixed {
        return Err(format!("to_fixed_offset = {:?} want {:?}", f, w.fixed));
    }
    if tz.is_unknown() != w.unknown {
        return Err(format!("is_unknown = {} want {}", tz.is_unknown(), w.unknown));
    }
    if deep && w.fp != 0 && !cfg!(miri) {
        let fp = fingerprint(tz);
        if fp != w.fp {
            return Err(format!("Debug/to_datetime/to_ambiguous_timestamp/preceding/following digest {:016x}, a fresh handle of the kind gives {:016x}", fp, w.fp));
        }
    }
    Ok(())
}

/// A clone of the handle travels through `Zoned` and the by-value APIs.
/// Every step here clones and drops; `alive` (the allocator's view of the
/// zone) is consulted after each of them, before the handle is read again: a
/// clone that did not count leaves the original dangling as soon as the clone
/// is dropped. Errors are (failure class, where).
pub fn wrap(tz: &TimeZone, other: Option<&TimeZone>, w: &Want, alive: &dyn Fn() -> bool) -> Result<(), (&'static str, &'static str)> {
    const W: &str = "wrap-in-zoned";
    const F: &str = "freed-while-handles-live";
    let ts = probe(2);
    let z = Zoned::new(ts, tz.clone());
    if z.offset().seconds() != w.offs[2] || z.time_zone() != tz {
        return Err((W, "Zoned::new"));
    }
    let z2 = z.clone();
    drop(z);
    if !alive() {
        std::mem::forget(z2);
        return Err((F, "a Zoned holding a clone was cloned and the first Zoned dropped"));
    }
    if z2.offset().seconds() != w.offs[2] || z2.time_zone() != tz {
        return Err((W, "Zoned::clone, original dropped"));
    }
    if cfg!(miri) {
        return Ok(());
    }
    let o = other.cloned().unwrap_or(TimeZone::UTC);
    let z3 = z2.with_time_zone(o.clone());
    if z3.timestamp() != ts || z3.time_zone() != &o {
        return Err((W, "Zoned::with_time_zone(other)"));
    }
    let z4 = z3.with_time_zone(tz.clone());
    drop(z3);
    drop(o);
    if !alive() {
        std::mem::forget((z2, z4));
        return Err((F, "after Zoned::with_time_zone to another zone and back"));
    }
    if z4 != z2 || z4.time_zone() != tz {
        return Err((W, "Zoned::with_time_zone(back)"));
    }
    drop(z4);
    match z2.checked_add(SignedDuration::from_hours(1)) {
        Ok(z5) if z5.time_zone() == tz => {}
        _ => return Err((W, "Zoned::checked_add keeps the zone")),
    }
    if !alive() {
        std::mem::forget(z2);
        return Err((F, "after the Zoned made by checked_add was dropped"));
    }
    drop(z2);
    if !alive() {
        return Err((F, "after every Zoned holding a clone was dropped"));
    }
    let az = tz.to_ambiguous_zoned(dt_fold());
    if az.time_zone() != tz {
        return Err((W, "TimeZone::to_ambiguous_zoned"));
    }
    match az.compatible() {
        Ok(z) if z.time_zone() == tz => {}
        _ => return Err((W, "AmbiguousZoned::compatible")),
    }
    if !alive() {
        return Err((F, "after to_ambiguous_zoned(..).compatible() was dropped"));
    }
    // the handle is consumed; in a gap `unambiguous` fails and drops it
    match tz.clone().into_ambiguous_zoned(dt_gap()).unambiguous() {
        Ok(z) if z.time_zone() != tz => return Err((W, "TimeZone::into_ambiguous_zoned")),
        _ => {}
    }
    if !alive() {
        return Err((F, "after clone().into_ambiguous_zoned(..).unambiguous() was dropped"));
    }
    match tz.to_zoned(dt_gap()) {
        Ok(z) if z.time_zone() == tz => {}
        _ => return Err((W, "TimeZone::to_zoned")),
    }
    if !alive() {
        return Err((F, "after to_zoned(..) was dropped"));
    }
    Ok(())
}
