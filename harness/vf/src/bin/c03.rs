//! C03: offset, DST flag and abbreviation for an instant match the TZ data.
//! E1 over all zones: every transition of every zone (recorded and rule
//! generated for every year to 9999) probed at T-1s, T-0.5s, T-1ns, T, T+1ns,
//! T+0.5s, T+1s plus one interior point per piece, plus both sides of every
//! UTC year boundary in the rule-governed part (jiff evaluates rules per UTC
//! year), against R-tz.
//!
//! Entry points, all at every probe: `TimeZone::{to_offset_info (offset, dst,
//! abbreviation), to_offset, to_datetime}`, `Zoned::new` and
//! `Timestamp::to_zoned` with `Zoned::{offset, datetime, timestamp}`.
//! `Timestamp::in_tz` (database route) is exercised on a representative set of
//! probes per installed zone (section `db-route`; that all ways of loading a
//! zone agree is C18).

use jiff::tz::{Dst, TimeZone};
use jiff::{Timestamp, Zoned};
use rayon::prelude::*;
use refmodel::tz as rtz;
use serde_json::json;
use std::collections::BTreeSet;
use std::sync::atomic::{AtomicU64, Ordering};
use vf::zones::{self, Pair, ZoneSrc};
use vf::{guard, panic_sig, Report};

#[path = "c03/hb.rs"]
mod hb;

const NS: i128 = 1_000_000_000;

#[derive(Clone, Copy, PartialEq)]
enum Years {
    /// every rule year (TZif footers: to 9999; POSIX strings: -9999..=9999)
    All,
    /// one 400-year Gregorian cycle plus the range edges, the years around 0
    /// and a few pre-1970 years
    Cycle,
}

fn main() {
    let r = Report::from_args("C03");
    let probes = AtomicU64::new(0);

    let mut corpus: Vec<(&str, Vec<ZoneSrc>)> = vec![];
    corpus.push(("sys", zones::sys(true)));
    corpus.push(("synth-slim", zones::synth("slim")));
    corpus.push(("synth-fat", zones::synth("fat")));
    // all bundled zones (slim data: this is where in-memory fattening from the
    // footer actually adds transitions)
    corpus.push(("bundled", zones::bundled()));
    if r.thorough() {
        corpus.push(("tzdata-slim", zones::tzdata("slim")));
        corpus.push(("tzdata-fat", zones::tzdata("fat")));
    }
    corpus.push(("handbuilt", hb::handbuilt()));

    for (tag, zs) in &corpus {
        r.section(&format!("tzif:{}", tag), || {
            let sec = format!("tzif:{}", tag);
            zs.par_iter().for_each(|z| {
                let pair = match zones::load_pair(z) {
                    Ok(p) => p,
                    Err(e) => {
                        // every file of the corpus is well-formed (written by zic or by hb::build)
                        r.viol(&sec, load_failure_sig(z, &e), format!("{}:{}", z.origin, z.name), e);
                        return;
                    }
                };
                let n = check_zone(&r, &sec, &pair, Years::All);
                probes.fetch_add(n, Ordering::Relaxed);
                r.add_states(1);
            });
        });
    }
    r.require(r.get_count("handbuilt_zones_loaded") >= 10 || r.only_section.is_some(), "hand-built TZif files load on both sides");

    r.section("posix", || {
        let level = if r.quick() { 0 } else { 2 };
        let strs = zones::posix_alphabet(level);
        r.count("posix_strings", strs.len() as u64);
        strs.par_iter().for_each(|s| {
            let pair = match zones::load_posix_pair(s) {
                Ok(p) => p,
                Err(e) => {
                    r.viol("posix", "TimeZone::posix/rejects-wellformed-or-model-fails", s.clone(), e);
                    return;
                }
            };
            // one 400-year Gregorian cycle plus the first and last years
            let n = check_zone(&r, "posix", &pair, Years::Cycle);
            probes.fetch_add(n, Ordering::Relaxed);
            r.add_states(1);
        });
    });

    // every rule year -9999..=9999: rule shapes x std offsets (53 strings);
    // thorough adds every 4th string of the level-0 product alphabet
    r.section("posix-every-year", || {
        let mut strs = hb::posix_every_year();
        if r.thorough() {
            strs.extend(zones::posix_alphabet(0).into_iter().step_by(4));
        }
        r.count("posix_strings_every_year", strs.len() as u64);
        strs.par_iter().for_each(|s| {
            let pair = match zones::load_posix_pair(s) {
                Ok(p) => p,
                Err(e) => {
                    r.viol("posix-every-year", "TimeZone::posix/rejects-wellformed-or-model-fails", s.clone(), e);
                    return;
                }
            };
            let n = check_zone(&r, "posix-every-year", &pair, Years::All);
            probes.fetch_add(n, Ordering::Relaxed);
            r.count("probes_every_year_sweep", n);
            r.add_states(1);
        });
    });

    r.section("fixed", || fixed_offsets(&r));
    r.section("db-route", || db_route(&r));

    if r.thorough() {
        r.section("zdump", || zdump_binding(&r));
    }

    let p = probes.load(Ordering::Relaxed);
    r.count("probes", p);
    let full = r.only_section.is_none();
    r.require(p > 1_000_000 || !full, "more than 1M instants probed");
    r.require(r.get_count("probes_pre1970_fraction") > 0 || !full, "negative fractional probes exist");
    r.require(r.get_count("probes_rule_generated") > 0 || !full, "rule generated transitions probed");
    r.require(r.get_count("probes_year_boundary") > 0 || !full, "UTC year boundaries probed");
    r.require(r.get_count("probes_negative_rule_years") > 0 || !full, "rule transitions in negative years probed");
    r.require(r.get_count("zoned_values_checked") == p || !full, "Zoned::new and Timestamp::to_zoned checked at every probe");
    r.require(r.get_count("db_route_zones") > 300 || !full, "Timestamp::in_tz exercised for the installed zones");
    r.finish();
}

/// Signature for a well-formed file that one side refuses. Attributed to F7
/// only when jiff's footer consistency check is what failed *and* the footer
/// generates, within the years jiff materialises, a transition that leaves its
/// UTC year.
fn load_failure_sig(z: &ZoneSrc, e: &str) -> &'static str {
    if e.starts_with("jiff:") && e.contains("expected last transition to have") {
        if let Ok(m) = rtz::zone_from_tzif(&z.bytes) {
            // the check runs at the last transition of the fattened table:
            // some rule transition up to 2037 must leave its UTC year
            if m.n_recorded > 0 && m.pieces.iter().any(|p| !p.recorded && p.crosses_year && p.rule_year <= hb::FATTEN_LAST_RULE_YEAR) {
                return "TimeZone::tzif/rejects-wellformed:footer-rule-transition-outside-its-utc-year";
            }
        }
    }
    "TimeZone::tzif/rejects-wellformed-or-model-fails"
}

fn year_filter(years: Years) -> Box<dyn Fn(i64) -> bool> {
    match years {
        Years::All => Box::new(|_| true),
        Years::Cycle => Box::new(|y| (1968..2370).contains(&y) || y <= -9996 || y >= 9996 || (1900..1903).contains(&y) || (-2..=2).contains(&y)),
    }
}

/// Probe one zone. Returns the number of instants probed.
fn check_zone(r: &Report, sec: &str, p: &Pair, years: Years) -> u64 {
    let filter = year_filter(years);
    let ks = zones::probe_pieces(&p.model, &*filter);
    let mut n = 0u64;
    let mut n_frac = 0u64;
    let mut n_rule = 0u64;
    let mut n_neg = 0u64;
    let mut n_yb = 0u64;
    let mut n_zoned = 0u64;
    let min_ns = Timestamp::MIN.as_nanosecond();
    let max_ns = Timestamp::MAX.as_nanosecond();
    let oor = has_out_of_range_transition(&p.model);
    let tzif = p.origin != "posix";
    let f7_zone = hb::zone_has_f7_pieces(&p.model);
    let mut n_unhidden = 0u64;
    // violations are aggregated per zone and signature (minimal case kept)
    let mut agg = hb::Agg::new(r);
    let mut probe = |t_ns: i128| {
        if t_ns < min_ns || t_ns > max_ns {
            return;
        }
        n += 1;
        if f7_zone && hb::former_f7_utc(&p.model, t_ns) && !hb::f7_utc(&p.model, t_ns, tzif) {
            n_unhidden += 1;
        }
        let sec_floor = t_ns.div_euclid(NS) as i64;
        if t_ns < 0 && t_ns.rem_euclid(NS) != 0 {
            n_frac += 1;
        }
        let want = p.model.info_at(sec_floor);
        let ts = Timestamp::from_nanosecond(t_ns).unwrap();
        let got = guard(|| {
            let info = p.jiff.to_offset_info(ts);
            let off2 = p.jiff.to_offset(ts);
            let dt = p.jiff.to_datetime(ts);
            (info.offset().seconds(), info.dst().is_dst(), info.abbreviation().to_string(), off2.seconds(), dt, info.dst() == Dst::Yes)
        });
        let case = || format!("{}:{} t={}", p.origin, p.name, vf::conv::fmt_ns(t_ns));
        // input-derived failure class
        let class = || classify(&p.model, t_ns, oor, tzif);
        match got {
            Err(pn) => r.viol(sec, &format!("to_offset_info/{}", panic_sig(&pn)), case(), pn),
            Ok((off, dst, abbrev, off2, dt, dst2)) => {
                if off != want.utoff || dst != want.dst || abbrev != want.abbrev || dst2 != dst {
                    agg.add(r, sec, &format!("to_offset_info/{}", class()), case(), || {
                        format!("jiff ({}, dst={}, {}) model ({}, dst={}, {})", off, dst, abbrev, want.utoff, want.dst, want.abbrev)
                    });
                } else {
                    if off2 != off {
                        r.viol(sec, "to_offset/differs-from-to_offset_info", case(), format!("{} vs {}", off2, off));
                    }
                    let civil = t_ns + off as i128 * NS;
                    if vf::conv::dt_civil_ns(dt) != civil {
                        r.viol(sec, "to_datetime/not-instant-plus-offset", case(), format!("jiff {} model civil ns {}", dt, civil));
                    }
                }
            }
        }
        // Zoned::new and Timestamp::to_zoned at every probe
        n_zoned += 1;
        let zg = guard(|| {
            let z = Zoned::new(ts, p.jiff.clone());
            let z2 = ts.to_zoned(p.jiff.clone());
            (z.offset().seconds(), z.datetime(), z.timestamp(), z2.offset().seconds(), z2.datetime(), z2.timestamp())
        });
        match zg {
            Err(pn) => r.viol(sec, &format!("Zoned::new/{}", panic_sig(&pn)), case(), pn),
            Ok((zoff, zdt, zts, z2off, z2dt, z2ts)) => {
                let civil = t_ns + want.utoff as i128 * NS;
                if zoff != want.utoff {
                    agg.add(r, sec, &format!("Zoned::offset/{}", class()), case(), || format!("jiff {} model {}", zoff, want.utoff));
                } else if vf::conv::dt_civil_ns(zdt) != civil {
                    r.viol(sec, "Zoned::datetime/not-instant-plus-offset", case(), format!("jiff {} model civil ns {}", zdt, civil));
                }
                if zts != ts {
                    r.viol(sec, "Zoned::timestamp/not-the-instant-given", case(), format!("jiff {} given {}", zts, ts));
                }
                if (z2off, z2dt, z2ts) != (zoff, zdt, zts) {
                    r.viol(
                        sec,
                        "Timestamp::to_zoned/differs-from-Zoned::new",
                        case(),
                        format!("to_zoned ({}, {}, {}) Zoned::new ({}, {}, {})", z2off, z2dt, z2ts, zoff, zdt, zts),
                    );
                }
            }
        }
    };
    probe(min_ns);
    probe(min_ns + 1);
    probe(min_ns + NS - 1);
    probe(min_ns + NS);
    probe(max_ns);
    probe(max_ns - 1);
    probe(max_ns - (NS - 1));
    probe(max_ns - NS);
    probe(0);
    probe(-1);
    let mut years: BTreeSet<i64> = BTreeSet::new();
    for &k in &ks {
        let pc = &p.model.pieces[k];
        let t = pc.start;
        if !pc.recorded {
            n_rule += 1;
            if pc.rule_year < 0 {
                n_neg += 1;
            }
            years.insert(pc.rule_year);
            years.insert(pc.rule_year + 1);
        }
        for t_ns in zones::instants_around(t) {
            probe(t_ns);
        }
        // interior point of the piece that starts here
        let end = p.model.piece_end(k).min(zones::TS_MAX_SEC);
        if end > t + 2 {
            let mid = t + (end - t) / 2;
            probe(mid as i128 * NS + 123_456_789);
        }
    }
    // both sides of every UTC year boundary in the rule-governed part
    for y in years {
        if !(-9999..=10000).contains(&y) {
            continue;
        }
        let y0 = refmodel::cal::days_from_civil(y, 1, 1) as i128 * 86400 * NS;
        for d in [-NS, -1, 0, 1] {
            if y0 + d >= min_ns && y0 + d <= max_ns {
                n_yb += 1;
            }
            probe(y0 + d);
        }
    }
    agg.flush(r, sec);
    r.add_transitions(n);
    r.add_validated(n * 2);
    r.count("probes_pre1970_fraction", n_frac);
    r.count("probes_rule_generated", n_rule);
    r.count("probes_negative_rule_years", n_neg);
    r.count("probes_year_boundary", n_yb);
    r.count("zoned_values_checked", n_zoned);
    r.count("probes_in_the_former_F7_window_now_outside_the_exact_one", n_unhidden);
    if p.origin == "handbuilt" {
        r.count("handbuilt_zones_loaded", 1);
    }
    if p.name == "America/New_York" && p.origin == "sys" {
        r.sample(json!({"zone": p.name, "pieces": p.model.pieces.len(), "recorded": p.model.n_recorded, "footer": p.model.footer, "probes": n}));
    }
    n
}

/// Does the data record a transition outside jiff's timestamp range with a
/// type that differs from its neighbour within the range? (jiff clamps such
/// instants to Timestamp::MIN/MAX.)
fn has_out_of_range_transition(z: &rtz::Zone) -> bool {
    z.pieces.iter().skip(1).any(|p| p.recorded && p.start != i64::MIN && (p.start < zones::TS_MIN_SEC || p.start > zones::TS_MAX_SEC))
}

/// Input-derived failure class.
fn classify(z: &rtz::Zone, t_ns: i128, out_of_range_transition: bool, tzif: bool) -> String {
    // exactly between a rule-generated transition's exact instant and the
    // boundary of the rule's own (UTC) year, when the two differ (F7)
    if hb::f7_utc(z, t_ns, tzif) {
        return format!("value:{}", hb::F7);
    }
    let sec = t_ns.div_euclid(NS) as i64;
    if out_of_range_transition && (sec == zones::TS_MIN_SEC || sec == zones::TS_MAX_SEC) {
        return "value:recorded-transition-outside-timestamp-range-clamped-onto-MIN-or-MAX".into();
    }
    "value".into()
}

/// Fixed-offset zones and UTC: the offset is the zone's whole content.
fn fixed_offsets(r: &Report) {
    let offs: [i32; 9] = [-93_599, -3600, -1, 0, 1, 19_800, 45_900, 86_400, 93_599];
    let min_ns = Timestamp::MIN.as_nanosecond();
    let max_ns = Timestamp::MAX.as_nanosecond();
    let ts: [i128; 10] = [min_ns, min_ns + 1, -86_400 * NS - 1, -1_500_000_000, -1, 0, 1, 500_000_000, max_ns - 1, max_ns];
    let mut n = 0;
    let mut zonesv: Vec<(String, i32, TimeZone)> = vec![("UTC".into(), 0, TimeZone::UTC)];
    for o in offs {
        zonesv.push((format!("fixed({})", o), o, TimeZone::fixed(jiff::tz::Offset::from_seconds(o).unwrap())));
    }
    for (name, o, tz) in &zonesv {
        for t in ts {
            n += 1;
            let tsv = Timestamp::from_nanosecond(t).unwrap();
            let case = format!("{} t={}", name, vf::conv::fmt_ns(t));
            match guard(|| {
                let info = tz.to_offset_info(tsv);
                let z = tsv.to_zoned(tz.clone());
                (info.offset().seconds(), info.dst().is_dst(), tz.to_offset(tsv).seconds(), tz.to_datetime(tsv), z.offset().seconds(), z.datetime())
            }) {
                Err(pn) => r.viol("fixed", &format!("TimeZone::fixed/to_offset_info/{}", panic_sig(&pn)), case, pn),
                Ok((off, dst, off2, dt, zoff, zdt)) => {
                    let civil = t + *o as i128 * NS;
                    if off != *o || dst || off2 != *o || zoff != *o || vf::conv::dt_civil_ns(dt) != civil || vf::conv::dt_civil_ns(zdt) != civil {
                        r.viol("fixed", "TimeZone::fixed/to_offset_info/value", case, format!("jiff ({}, dst={}, {}, {}, {}, {}) fixed offset {}", off, dst, off2, dt, zoff, zdt, o));
                    }
                }
            }
        }
    }
    r.count("fixed_offset_probes", n);
    r.add_transitions(n);
    r.add_validated(n);
}

/// `Timestamp::in_tz(name)`: the database route, on a representative set of
/// probes per installed zone (first and last two recorded transitions, first
/// two and last rule-generated ones, the extremes). The zone the database
/// hands out must behave like the installed file of that name or like the
/// bundled copy (which of the two the database prefers is configuration, and
/// their equivalence is C18).
fn db_route(r: &Report) {
    let sys = zones::sys(true);
    let zs: Vec<&ZoneSrc> = sys.iter().filter(|z| !z.name.starts_with("right/") && !z.name.starts_with("posix/")).collect();
    let n_zones = AtomicU64::new(0);
    let n_unres = AtomicU64::new(0);
    let n_probes = AtomicU64::new(0);
    zs.par_iter().for_each(|z| {
        let Ok(m_sys) = rtz::zone_from_tzif(&z.bytes) else { return };
        let m_bun = jiff_tzdb::get(&z.name).and_then(|(_, b)| rtz::zone_from_tzif(b).ok());
        if guard(|| jiff::tz::db().get(&z.name).is_ok()) != Ok(true) {
            n_unres.fetch_add(1, Ordering::Relaxed);
            return;
        }
        n_zones.fetch_add(1, Ordering::Relaxed);
        let all = zones::probe_pieces(&m_sys, &|_| true);
        let rec: Vec<usize> = all.iter().copied().filter(|&k| m_sys.pieces[k].recorded).collect();
        let rule: Vec<usize> = all.iter().copied().filter(|&k| !m_sys.pieces[k].recorded).collect();
        let mut ks: Vec<usize> = vec![];
        ks.extend(rec.iter().take(1));
        ks.extend(rec.iter().rev().take(2));
        ks.extend(rule.iter().take(2));
        ks.extend(rule.iter().rev().take(1));
        let mut ts: Vec<i128> = vec![Timestamp::MIN.as_nanosecond(), Timestamp::MAX.as_nanosecond(), 0, -1];
        for k in ks {
            ts.extend(zones::instants_around(m_sys.pieces[k].start));
        }
        for t in ts {
            if t < Timestamp::MIN.as_nanosecond() || t > Timestamp::MAX.as_nanosecond() {
                continue;
            }
            n_probes.fetch_add(1, Ordering::Relaxed);
            let tsv = Timestamp::from_nanosecond(t).unwrap();
            let case = format!("sys:{} t={}", z.name, vf::conv::fmt_ns(t));
            match guard(|| tsv.in_tz(&z.name).map(|zd| (zd.offset().seconds(), zd.datetime(), zd.timestamp()))) {
                Err(pn) => r.viol("db-route", &format!("Timestamp::in_tz/{}", panic_sig(&pn)), case, pn),
                Ok(Err(e)) => r.viol("db-route", "Timestamp::in_tz/error-for-a-name-the-database-resolves", case, e.to_string()),
                Ok(Ok((off, dt, zts))) => {
                    let sec = t.div_euclid(NS) as i64;
                    let w1 = m_sys.utoff_at(sec);
                    let w2 = m_bun.as_ref().map(|m| m.utoff_at(sec));
                    let ok_off = off == w1 || Some(off) == w2;
                    if !ok_off || vf::conv::dt_civil_ns(dt) != t + off as i128 * NS || zts != tsv {
                        let class = if hb::f7_utc(&m_sys, t, true) { format!(":{}", hb::F7) } else { String::new() };
                        r.viol(
                            "db-route",
                            &format!("Timestamp::in_tz/offset-or-datetime{}", class),
                            case,
                            format!("jiff ({}, {}, {}) model installed {} bundled {:?}", off, dt, zts, w1, w2),
                        );
                    }
                }
            }
        }
    });
    r.count("db_route_zones", n_zones.load(Ordering::Relaxed));
    r.count("db_route_names_not_resolved", n_unres.load(Ordering::Relaxed));
    r.count("db_route_probes", n_probes.load(Ordering::Relaxed));
    r.add_transitions(n_probes.load(Ordering::Relaxed));
    r.add_validated(n_probes.load(Ordering::Relaxed));
}

/// Bind R-tz to a third implementation: glibc's reader via `zdump -V`.
fn zdump_binding(r: &Report) {
    let zs: Vec<ZoneSrc> = zones::sys(true).into_iter().filter(|z| !z.name.starts_with("right/")).collect();
    let lines = AtomicU64::new(0);
    zs.par_iter().for_each(|z| {
        let model = match rtz::zone_from_tzif(&z.bytes) {
            Ok(m) => m,
            Err(_) => return,
        };
        let path = format!("{}/{}", zones::SYS_DIR, z.name);
        let out = match std::process::Command::new("zdump").args(["-V", "-c", "1800,9998", &path]).output() {
            Ok(o) => o,
            Err(_) => return,
        };
        let text = String::from_utf8_lossy(&out.stdout);
        for line in text.lines() {
            // <path>  Sun Mar 10 06:59:59 2024 UT = Sun Mar 10 01:59:59 2024 EST isdst=0 gmtoff=-18000
            let toks: Vec<&str> = line.split_whitespace().collect();
            if toks.len() < 16 || toks[6] != "UT" {
                continue;
            }
            let mon = ["Jan", "Feb", "Mar", "Apr", "May", "Jun", "Jul", "Aug", "Sep", "Oct", "Nov", "Dec"]
                .iter()
                .position(|m| *m == toks[2]);
            let (Some(mon), Ok(day), Ok(year)) = (mon, toks[3].parse::<i64>(), toks[5].parse::<i64>()) else { continue };
            let hms: Vec<i64> = toks[4].split(':').filter_map(|x| x.parse().ok()).collect();
            if hms.len() != 3 {
                continue;
            }
            let t = refmodel::cal::days_from_civil(year, mon as i64 + 1, day) * 86400 + hms[0] * 3600 + hms[1] * 60 + hms[2];
            let abbr = toks[13];
            let isdst = toks[14].trim_start_matches("isdst=") != "0";
            let Ok(gmtoff) = toks[15].trim_start_matches("gmtoff=").parse::<i32>() else { continue };
            let m = model.info_at(t);
            lines.fetch_add(1, Ordering::Relaxed);
            if m.utoff != gmtoff || m.dst != isdst || m.abbrev != abbr {
                r.viol(
                    "zdump",
                    "model-vs-zdump",
                    format!("{} t={}", z.name, t),
                    format!("R-tz ({}, {}, {}) zdump ({}, {}, {})", m.utoff, m.dst, m.abbrev, gmtoff, isdst, abbr),
                );
            }
        }
    });
    r.count("zdump_lines_compared", lines.load(Ordering::Relaxed));
    r.add_validated(0);
    r.require(lines.load(Ordering::Relaxed) > 100_000, "zdump produced lines");
}
