//! C03: offset, DST flag and abbreviation for an instant match the TZ data.
//! E1 over all zones: every transition of every zone (recorded and rule
//! generated for every year to 9999) probed at T-1s, T-0.5s, T-1ns, T, T+1ns,
//! T+0.5s, T+1s plus one interior point per piece, against R-tz.

use jiff::tz::TimeZone;
use jiff::{Timestamp, Zoned};
use rayon::prelude::*;
use refmodel::tz as rtz;
use serde_json::json;
use std::sync::atomic::{AtomicU64, Ordering};
use vf::zones::{self, Pair, ZoneSrc};
use vf::{guard, panic_sig, Report};

const NS: i128 = 1_000_000_000;

fn main() {
    let r = Report::from_args("C03");
    let probes = AtomicU64::new(0);

    let mut corpus: Vec<(&str, Vec<ZoneSrc>)> = vec![];
    corpus.push(("sys", zones::sys(true)));
    corpus.push(("synth-slim", zones::synth("slim")));
    corpus.push(("synth-fat", zones::synth("fat")));
    if r.thorough() {
        corpus.push(("bundled", zones::bundled()));
        corpus.push(("tzdata-slim", zones::tzdata("slim")));
        corpus.push(("tzdata-fat", zones::tzdata("fat")));
    } else {
        // quick: all bundled zones too (slim data: this is where in-memory
        // fattening from the footer actually adds transitions)
        corpus.push(("bundled", zones::bundled()));
    }

    for (tag, zs) in &corpus {
        r.section(&format!("tzif:{}", tag), || {
            let sec = format!("tzif:{}", tag);
            zs.par_iter().for_each(|z| {
                let pair = match zones::load_pair(z) {
                    Ok(p) => p,
                    Err(e) => {
                        // every file of the corpus is well-formed (written by zic)
                        let crosses = rtz::zone_from_tzif(&z.bytes).map(|m| m.pieces.iter().any(|p| p.crosses_year)).unwrap_or(false);
                        let sig = if crosses && e.starts_with("jiff:") {
                            "TimeZone::tzif/rejects-wellformed:footer-rule-transition-outside-its-utc-year"
                        } else {
                            "TimeZone::tzif/rejects-wellformed-or-model-fails"
                        };
                        r.viol(&sec, sig, format!("{}:{}", z.origin, z.name), e);
                        return;
                    }
                };
                let n = check_zone(&r, &sec, &pair, true);
                probes.fetch_add(n, Ordering::Relaxed);
                r.add_states(1);
            });
        });
    }

    r.section("posix", || {
        let level = if r.quick() { 0 } else { 2 };
        let strs = zones::posix_alphabet(level);
        r.count("posix_strings", strs.len() as u64);
        strs.par_iter().for_each(|s| {
            let pair = match zones::load_posix_pair(s) {
                Ok(p) => p,
                Err(e) => {
                    r.viol("posix", "TimeZone::posix/rejects-wellformed-or-model-fails", s.clone(), e);
                    return;
                }
            };
            // one 400-year Gregorian cycle plus the first and last years
            let n = check_zone(&r, "posix", &pair, false);
            probes.fetch_add(n, Ordering::Relaxed);
            r.add_states(1);
        });
    });

    if r.thorough() {
        r.section("zdump", || zdump_binding(&r));
    }

    let p = probes.load(Ordering::Relaxed);
    r.count("probes", p);
    r.require(p > 1_000_000 || r.only_section.is_some(), "more than 1M instants probed");
    r.require(r.get_count("probes_pre1970_fraction") > 0 || r.only_section.is_some(), "negative fractional probes exist");
    r.require(r.get_count("probes_rule_generated") > 0 || r.only_section.is_some(), "rule generated transitions probed");
    r.finish();
}

/// Probe one zone. Returns the number of instants probed.
fn check_zone(r: &Report, sec: &str, p: &Pair, all_years: bool) -> u64 {
    let filter: Box<dyn Fn(i64) -> bool> = if all_years {
        Box::new(|_| true)
    } else {
        Box::new(|y| (1970..2370).contains(&y) || y <= -9996 || y >= 9996 || (1900..1903).contains(&y))
    };
    let ks = zones::probe_pieces(&p.model, &*filter);
    let mut n = 0u64;
    let mut n_frac = 0u64;
    let mut n_rule = 0u64;
    let mut zoned_budget = 64u32;
    let min_ns = Timestamp::MIN.as_nanosecond();
    let max_ns = Timestamp::MAX.as_nanosecond();
    let mut probe = |t_ns: i128, k: usize, near: bool| {
        if t_ns < min_ns || t_ns > max_ns {
            return;
        }
        n += 1;
        let sec_floor = t_ns.div_euclid(NS) as i64;
        if t_ns < 0 && t_ns.rem_euclid(NS) != 0 {
            n_frac += 1;
        }
        let want = p.model.info_at(sec_floor);
        let ts = Timestamp::from_nanosecond(t_ns).unwrap();
        let got = guard(|| {
            let info = p.jiff.to_offset_info(ts);
            let off2 = p.jiff.to_offset(ts);
            let dt = p.jiff.to_datetime(ts);
            (info.offset().seconds(), info.dst().is_dst(), info.abbreviation().to_string(), off2.seconds(), dt)
        });
        let case = || format!("{}:{} t={}", p.origin, p.name, vf::conv::fmt_ns(t_ns));
        match got {
            Err(pn) => r.viol(sec, &format!("to_offset_info/{}", panic_sig(&pn)), case(), pn),
            Ok((off, dst, abbrev, off2, dt)) => {
                if off != want.utoff || dst != want.dst || abbrev != want.abbrev {
                    let class = classify(&p.model, t_ns, k, near);
                    r.viol(
                        sec,
                        &format!("to_offset_info/{}", class),
                        case(),
                        format!("jiff ({}, dst={}, {}) model ({}, dst={}, {})", off, dst, abbrev, want.utoff, want.dst, want.abbrev),
                    );
                } else {
                    if off2 != off {
                        r.viol(sec, "to_offset/differs-from-to_offset_info", case(), format!("{} vs {}", off2, off));
                    }
                    let civil = t_ns + off as i128 * NS;
                    if vf::conv::dt_civil_ns(dt) != civil {
                        r.viol(sec, "to_datetime/not-instant-plus-offset", case(), format!("jiff {} model civil ns {}", dt, civil));
                    }
                }
            }
        }
        if near && zoned_budget > 0 {
            zoned_budget -= 1;
            if let Err(pn) = guard(|| {
                let z = Zoned::new(ts, p.jiff.clone());
                if z.offset().seconds() != want.utoff {
                    let class = classify(&p.model, t_ns, k, near);
                    r.viol(sec, &format!("Zoned::offset/{}", class), case(), format!("jiff {} model {}", z.offset().seconds(), want.utoff));
                }
            }) {
                r.viol(sec, &format!("Zoned::new/{}", panic_sig(&pn)), case(), pn);
            }
        }
    };
    probe(min_ns, 0, false);
    probe(min_ns + 1, 0, false);
    probe(max_ns, p.model.pieces.len() - 1, false);
    probe(max_ns - 1, p.model.pieces.len() - 1, false);
    probe(0, 0, false);
    probe(-1, 0, false);
    for &k in &ks {
        let t = p.model.pieces[k].start;
        if !p.model.pieces[k].recorded {
            n_rule += 1;
        }
        for t_ns in zones::instants_around(t) {
            probe(t_ns, k, true);
        }
        // interior point of the piece that starts here
        let end = p.model.piece_end(k).min(zones::TS_MAX_SEC);
        if end > t + 2 {
            let mid = t + (end - t) / 2;
            probe(mid as i128 * NS + 123_456_789, k, false);
        }
    }
    r.add_transitions(n);
    r.add_validated(n);
    r.count("probes_pre1970_fraction", n_frac);
    r.count("probes_rule_generated", n_rule);
    if p.name == "America/New_York" && p.origin == "sys" {
        r.sample(json!({"zone": p.name, "pieces": p.model.pieces.len(), "recorded": p.model.n_recorded, "footer": p.model.footer, "probes": n}));
    }
    n
}

/// Input-derived failure class.
fn classify(z: &rtz::Zone, t_ns: i128, k: usize, near: bool) -> String {
    let _ = near;
    // inside the window between a rule-generated transition's exact instant and
    // the boundary of the rule's own (UTC) year, when the two differ (F7)
    let _ = k;
    let sec = t_ns.div_euclid(NS) as i64;
    let i = z.piece_index_at(sec);
    let lo = i.saturating_sub(3);
    let hi = (i + 3).min(z.pieces.len() - 1);
    for j in lo..=hi {
        let p = &z.pieces[j];
        if p.crosses_year {
            let y0 = refmodel::cal::days_from_civil(p.rule_year, 1, 1) * 86400;
            let y1 = refmodel::cal::days_from_civil(p.rule_year + 1, 1, 1) * 86400;
            let (a, b) = if p.start < y0 { (p.start, y0) } else { (y1 - 1, p.start) };
            if sec >= a - 1 && sec <= b + 1 {
                return "value:posix-rule-transition-outside-its-utc-year".into();
            }
        }
    }
    "value".into()
}

/// Bind R-tz to a third implementation: glibc's reader via `zdump -V`.
fn zdump_binding(r: &Report) {
    let zs: Vec<ZoneSrc> = zones::sys(true).into_iter().filter(|z| !z.name.starts_with("right/")).collect();
    let lines = AtomicU64::new(0);
    zs.par_iter().for_each(|z| {
        let model = match rtz::zone_from_tzif(&z.bytes) {
            Ok(m) => m,
            Err(_) => return,
        };
        let path = format!("{}/{}", zones::SYS_DIR, z.name);
        let out = match std::process::Command::new("zdump").args(["-V", "-c", "1800,9998", &path]).output() {
            Ok(o) => o,
            Err(_) => return,
        };
        let text = String::from_utf8_lossy(&out.stdout);
        for line in text.lines() {
            // <path>  Sun Mar 10 06:59:59 2024 UT = Sun Mar 10 01:59:59 2024 EST isdst=0 gmtoff=-18000
            let toks: Vec<&str> = line.split_whitespace().collect();
            if toks.len() < 16 || toks[6] != "UT" {
                continue;
            }
            let mon = ["Jan", "Feb", "Mar", "Apr", "May", "Jun", "Jul", "Aug", "Sep", "Oct", "Nov", "Dec"]
                .iter()
                .position(|m| *m == toks[2]);
            let (Some(mon), Ok(day), Ok(year)) = (mon, toks[3].parse::<i64>(), toks[5].parse::<i64>()) else { continue };
            let hms: Vec<i64> = toks[4].split(':').filter_map(|x| x.parse().ok()).collect();
            if hms.len() != 3 {
                continue;
            }
            let t = refmodel::cal::days_from_civil(year, mon as i64 + 1, day) * 86400 + hms[0] * 3600 + hms[1] * 60 + hms[2];
            let abbr = toks[13];
            let isdst = toks[14].trim_start_matches("isdst=") != "0";
            let Ok(gmtoff) = toks[15].trim_start_matches("gmtoff=").parse::<i32>() else { continue };
            let m = model.info_at(t);
            lines.fetch_add(1, Ordering::Relaxed);
            if m.utoff != gmtoff || m.dst != isdst || m.abbrev != abbr {
                r.viol(
                    "zdump",
                    "model-vs-zdump",
                    format!("{} t={}", z.name, t),
                    format!("R-tz ({}, {}, {}) zdump ({}, {}, {})", m.utoff, m.dst, m.abbrev, gmtoff, isdst, abbr),
                );
            }
        }
    });
    r.count("zdump_lines_compared", lines.load(Ordering::Relaxed));
    r.add_validated(0);
    r.require(lines.load(Ordering::Relaxed) > 100_000, "zdump produced lines");
}
