//! C04: civil -> instant resolution finds gaps/folds exactly; strategies as
//! documented. E1 over all zones: every gap/fold window boundary of every
//! transition (recorded and rule generated), to the second and nanosecond.
//! The classification is *defined* from R-tz by counting pre-images.

use jiff::civil::DateTime;
use jiff::tz::{AmbiguousOffset, TimeZone};
use jiff::Timestamp;
use rayon::prelude::*;
use refmodel::tz as rtz;
use serde_json::json;
use std::sync::atomic::{AtomicU64, Ordering};
use vf::conv;
use vf::zones::{self, Pair, ZoneSrc};
use vf::{guard, panic_sig, Report};

const NS: i128 = 1_000_000_000;

#[derive(Debug, Clone, Copy, PartialEq, Eq)]
enum Class {
    Unambiguous(i32),
    Gap(i32, i32),
    Fold(i32, i32),
}

struct Tot {
    probes: AtomicU64,
    gaps: AtomicU64,
    folds: AtomicU64,
    unamb: AtomicU64,
    excluded: AtomicU64,
    zones_without_both: AtomicU64,
}

fn main() {
    let r = Report::from_args("C04");
    let tot = Tot {
        probes: AtomicU64::new(0),
        gaps: AtomicU64::new(0),
        folds: AtomicU64::new(0),
        unamb: AtomicU64::new(0),
        excluded: AtomicU64::new(0),
        zones_without_both: AtomicU64::new(0),
    };

    let mut corpus: Vec<(&str, Vec<ZoneSrc>)> = vec![];
    corpus.push(("sys", zones::sys(true)));
    corpus.push(("synth-slim", zones::synth("slim")));
    corpus.push(("synth-fat", zones::synth("fat")));
    if r.thorough() {
        corpus.push(("bundled", zones::bundled()));
        corpus.push(("tzdata-slim", zones::tzdata("slim")));
        corpus.push(("tzdata-fat", zones::tzdata("fat")));
    } else {
        // quick: all bundled zones too (slim data: this is where in-memory
        // fattening from the footer actually adds transitions)
        corpus.push(("bundled", zones::bundled()));
    }
    for (tag, zs) in &corpus {
        let sec = format!("tzif:{}", tag);
        r.section(&sec, || {
            zs.par_iter().for_each(|z| {
                let Ok(pair) = zones::load_pair(z) else {
                    r.count("zones_not_loaded(see C03)", 1);
                    return;
                };
                check_zone(&r, &sec, &pair, true, &tot);
                r.add_states(1);
            });
        });
    }
    r.section("posix", || {
        let level = if r.quick() { 0 } else { 2 };
        let strs = zones::posix_alphabet(level);
        strs.par_iter().for_each(|s| {
            let Ok(pair) = zones::load_posix_pair(s) else {
                r.count("zones_not_loaded(see C03)", 1);
                return;
            };
            check_zone(&r, "posix", &pair, false, &tot);
            r.add_states(1);
        });
    });

    let g = |a: &AtomicU64| a.load(Ordering::Relaxed);
    r.count("civil_probes", g(&tot.probes));
    r.outcome("gap", g(&tot.gaps));
    r.outcome("fold", g(&tot.folds));
    r.outcome("unambiguous", g(&tot.unamb));
    r.outcome("excluded(>=3 preimages or non-unique gap)", g(&tot.excluded));
    r.count("zones_with_offset_changes_but_not_both_gap_and_fold", g(&tot.zones_without_both));
    if r.only_section.is_none() {
        r.require(g(&tot.gaps) > 1000 && g(&tot.folds) > 1000, "gaps and folds observed");
    }
    r.finish();
}

fn classify_model(z: &rtz::Zone, civil_sec: i64) -> Option<Class> {
    let pre = z.preimages(civil_sec);
    match pre.len() {
        0 => {
            let ks = z.gap_around(civil_sec);
            if ks.len() != 1 {
                return None;
            }
            let k = ks[0];
            Some(Class::Gap(z.infos[z.pieces[k - 1].info as usize].utoff, z.infos[z.pieces[k].info as usize].utoff))
        }
        1 => Some(Class::Unambiguous(z.infos[z.pieces[pre[0].1].info as usize].utoff)),
        2 => {
            let (a, b) = if pre[0].0 <= pre[1].0 { (pre[0], pre[1]) } else { (pre[1], pre[0]) };
            Some(Class::Fold(z.infos[z.pieces[a.1].info as usize].utoff, z.infos[z.pieces[b.1].info as usize].utoff))
        }
        _ => None,
    }
}

fn jiff_class(a: AmbiguousOffset) -> Class {
    match a {
        AmbiguousOffset::Unambiguous { offset } => Class::Unambiguous(offset.seconds()),
        AmbiguousOffset::Gap { before, after } => Class::Gap(before.seconds(), after.seconds()),
        AmbiguousOffset::Fold { before, after } => Class::Fold(before.seconds(), after.seconds()),
    }
}

/// F7 window test on the civil side: is `civil_sec` within reach of a rule
/// transition whose exact UTC instant, or one of whose two wall-clock readings,
/// lies outside the rule's own year? (jiff evaluates POSIX rules per calendar
/// year and clamps each transition into its year, in UTC and on the wall clock.)
fn near_crossing(z: &rtz::Zone, civil_sec: i64) -> bool {
    let i = z.piece_index_at(civil_sec);
    let lo = i.saturating_sub(4).max(1);
    let hi = (i + 4).min(z.pieces.len() - 1);
    for j in lo..=hi {
        let p = &z.pieces[j];
        if p.recorded {
            continue;
        }
        let o1 = z.infos[z.pieces[j - 1].info as usize].utoff as i64;
        let o2 = z.infos[p.info as usize].utoff as i64;
        let y0 = refmodel::cal::days_from_civil(p.rule_year, 1, 1) * 86400;
        let y1 = refmodel::cal::days_from_civil(p.rule_year + 1, 1, 1) * 86400;
        let pts = [p.start, p.start + o1, p.start + o2];
        let mn = *pts.iter().min().unwrap();
        let mx = *pts.iter().max().unwrap();
        let (a, b) = if mn < y0 {
            (mn, mx.max(y0))
        } else if mx >= y1 - 1 {
            (mn.min(y1 - 1), mx)
        } else {
            continue;
        };
        if civil_sec >= a - 94_000 && civil_sec <= b + 94_000 {
            return true;
        }
    }
    false
}

fn check_zone(r: &Report, sec: &str, p: &Pair, all_years: bool, tot: &Tot) {
    let quick = r.quick();
    let filter: Box<dyn Fn(i64) -> bool> = if all_years {
        Box::new(|_| true)
    } else if quick {
        // POSIX strings, quick: 1995..2035 (contains a century leap year) plus range edges
        Box::new(|y| (1995..2035).contains(&y) || y <= -9997 || y >= 9997 || (1900..1902).contains(&y))
    } else {
        // one complete 400-year Gregorian cycle plus range edges
        Box::new(|y| (1970..2370).contains(&y) || y <= -9996 || y >= 9996 || (1900..1903).contains(&y))
    };
    let ks = zones::probe_pieces(&p.model, &*filter);
    let dt_min = conv::dt_min_ns();
    let dt_max = conv::dt_max_ns();
    let ts_min = Timestamp::MIN.as_nanosecond();
    let ts_max = Timestamp::MAX.as_nanosecond();
    let (mut n, mut ngap, mut nfold, mut nun, mut nex) = (0u64, 0u64, 0u64, 0u64, 0u64);

    let mut probe = |c_ns: i128| {
        if c_ns < dt_min || c_ns > dt_max {
            return;
        }
        n += 1;
        let c_sec = c_ns.div_euclid(NS) as i64;
        let Some(want) = classify_model(&p.model, c_sec) else {
            nex += 1;
            return;
        };
        match want {
            Class::Gap(..) => ngap += 1,
            Class::Fold(..) => nfold += 1,
            Class::Unambiguous(..) => nun += 1,
        }
        let dt = conv::dt_from_civil_ns(c_ns).unwrap();
        let case = || format!("{}:{} civil={}", p.origin, p.name, dt);
        let f7 = || if near_crossing(&p.model, c_sec) { ":posix-rule-transition-outside-its-utc-year" } else { "" };
        let got = guard(|| {
            let at = p.jiff.to_ambiguous_timestamp(dt);
            let cls = jiff_class(at.offset());
            let res = [
                at.clone().compatible().ok().map(|t| t.as_nanosecond()),
                at.clone().earlier().ok().map(|t| t.as_nanosecond()),
                at.clone().later().ok().map(|t| t.as_nanosecond()),
                at.clone().unambiguous().ok().map(|t| t.as_nanosecond()),
            ];
            let via_tz = p.jiff.to_timestamp(dt).ok().map(|t| t.as_nanosecond());
            let via_zoned = p.jiff.to_zoned(dt).ok().map(|z| (z.timestamp().as_nanosecond(), z.offset().seconds(), z.datetime()));
            let via_dt = dt.to_zoned(p.jiff.clone()).ok().map(|z| z.timestamp().as_nanosecond());
            let via_az = p.jiff.to_ambiguous_zoned(dt).compatible().ok().map(|z| z.timestamp().as_nanosecond());
            (cls, res, via_tz, via_zoned, via_dt, via_az)
        });
        let (cls, res, via_tz, via_zoned, via_dt, via_az) = match got {
            Err(pn) => {
                r.viol(sec, &format!("to_ambiguous_timestamp/{}{}", panic_sig(&pn), f7()), case(), pn);
                return;
            }
            Ok(x) => x,
        };
        if cls != want {
            r.viol(sec, &format!("to_ambiguous_timestamp/classification{}", f7()), case(), format!("jiff {:?} model {:?}", cls, want));
            return;
        }
        // documented strategy selections
        let inst = |off: i32| -> Option<i128> {
            let t = c_ns - off as i128 * NS;
            if t < ts_min || t > ts_max {
                None
            } else {
                Some(t)
            }
        };
        let exp: [Option<i128>; 4] = match want {
            Class::Unambiguous(o) => [inst(o), inst(o), inst(o), inst(o)],
            // gap: compatible = later instant (offset before the gap), earlier = offset after the gap
            Class::Gap(b, a) => [inst(b), inst(a), inst(b), None],
            // fold: compatible = earlier instant (offset before), later = offset after
            Class::Fold(b, a) => [inst(b), inst(b), inst(a), None],
        };
        let names = ["compatible", "earlier", "later", "unambiguous"];
        for i in 0..4 {
            if res[i] != exp[i] {
                r.viol(sec, &format!("AmbiguousTimestamp::{}/instant", names[i]), case(), format!("jiff {:?} model {:?} ({:?})", res[i], exp[i], want));
            }
        }
        if via_tz != exp[0] {
            r.viol(sec, "TimeZone::to_timestamp/instant", case(), format!("jiff {:?} model {:?}", via_tz, exp[0]));
        }
        if via_dt != exp[0] {
            r.viol(sec, "DateTime::to_zoned/instant", case(), format!("jiff {:?} model {:?}", via_dt, exp[0]));
        }
        if via_az != exp[0] {
            r.viol(sec, "AmbiguousZoned::compatible/instant", case(), format!("jiff {:?} model {:?}", via_az, exp[0]));
        }
        match (via_zoned, exp[0]) {
            (None, None) => {}
            (Some((t, off, zdt)), Some(e)) => {
                if t != e {
                    r.viol(sec, "TimeZone::to_zoned/instant", case(), format!("jiff {} model {}", t, e));
                } else if !matches!(want, Class::Gap(..)) {
                    // an instant produced from a non-gap civil time displays that civil time
                    let m = p.model.utoff_at(e.div_euclid(NS) as i64);
                    if zdt != dt || off != m || e + m as i128 * NS != c_ns {
                        r.viol(sec, &format!("TimeZone::to_zoned/displays-other-civil-time{}", f7()), case(), format!("zoned shows {} offset {} (model offset {})", zdt, off, m));
                    }
                }
            }
            (a, b) => r.viol(sec, "TimeZone::to_zoned/range", case(), format!("jiff {:?} model {:?}", a.map(|x| x.0), b)),
        }
    };

    probe(dt_min);
    probe(dt_min + 1);
    probe(dt_min + 3600 * NS);
    probe(dt_min + 26 * 3600 * NS);
    probe(dt_max);
    probe(dt_max - 1);
    probe(dt_max - 26 * 3600 * NS);
    probe(0);
    let mut sampled = false;
    for &k in &ks {
        let t = p.model.pieces[k].start as i128;
        let o1 = p.model.infos[p.model.pieces[k - 1].info as usize].utoff as i128;
        let o2 = p.model.infos[p.model.pieces[k].info as usize].utoff as i128;
        let (lo, hi) = ((t + o1.min(o2)) * NS, (t + o1.max(o2)) * NS);
        if lo == hi {
            for d in [-NS, -1, 0, 1, NS] {
                probe(lo + d);
            }
            continue;
        }
        let mid = lo + ((hi - lo) / 2 / NS) * NS + 500_000_000;
        for c in [lo - NS, lo - 1, lo, lo + 1, lo + NS, mid, hi - NS, hi - 1, hi, hi + 1, hi + NS] {
            probe(c);
        }
        if !sampled && p.name == "America/New_York" && p.origin == "sys" && t > 1_700_000_000 {
            sampled = true;
            r.sample(json!({"zone": p.name, "transition": t as i64, "offsets": [o1 as i64, o2 as i64],
                "window_civil_ns": [lo.to_string(), hi.to_string()], "probes": "lo-1s,lo-1ns,lo,lo+1ns,lo+1s,mid,hi-1s,hi-1ns,hi,hi+1ns,hi+1s"}));
        }
    }
    tot.probes.fetch_add(n, Ordering::Relaxed);
    tot.gaps.fetch_add(ngap, Ordering::Relaxed);
    tot.folds.fetch_add(nfold, Ordering::Relaxed);
    tot.unamb.fetch_add(nun, Ordering::Relaxed);
    tot.excluded.fetch_add(nex, Ordering::Relaxed);
    let changes = p.model.changing().iter().any(|&k| {
        p.model.infos[p.model.pieces[k].info as usize].utoff != p.model.infos[p.model.pieces[k - 1].info as usize].utoff
            && p.model.pieces[k].start > zones::TS_MIN_SEC
    });
    if changes && (ngap == 0 || nfold == 0) {
        tot.zones_without_both.fetch_add(1, Ordering::Relaxed);
    }
    r.add_transitions(n);
    r.add_validated(n * 9);
    let _: Option<TimeZone> = None;
    let _: Option<DateTime> = None;
}
