//! C04: civil -> instant resolution finds gaps/folds exactly; strategies as
//! documented. E1 over all zones: every gap/fold window boundary of every
//! transition (recorded and rule generated), to the second and nanosecond,
//! both sides of every wall-clock year boundary in the rule-governed part
//! (jiff evaluates rules per wall-clock year), the civil datetimes at the
//! edges of the timestamp range, and DateTime::MIN/MAX.
//! The classification is *defined* from R-tz by counting pre-images.
//!
//! Entry points, all at every probe (in the thorough POSIX product the three
//! AmbiguousZoned strategies other than `compatible` and
//! `AmbiguousTimestamp::disambiguate` run at lo-1ns, mid and hi-1ns of every
//! window only; `AmbiguousZoned::disambiguate` runs at the mid-window probe of
//! every transition and at whole-hour probes): `TimeZone::{to_ambiguous_timestamp,
//! to_ambiguous_zoned, to_timestamp, to_zoned}`, `AmbiguousTimestamp` and
//! `AmbiguousZoned` `::{offset, is_ambiguous, datetime, compatible, earlier,
//! later, unambiguous, disambiguate(each Disambiguation)}`,
//! `DateTime::to_zoned` (instant, offset and datetime of the result: it has
//! its own construction path), `Date::to_zoned` whenever the probe is a
//! midnight. Every `Zoned` produced from a non-gap civil time must display
//! that civil time with the chosen offset (all four strategies, both fold
//! instants). `DateTime::in_tz` / `Date::in_tz` (database route) run on a
//! representative set of probes per installed zone (section `db-route`).

use jiff::civil::DateTime;
use jiff::tz::{AmbiguousOffset, Disambiguation, TimeZone};
use jiff::Timestamp;
use rayon::prelude::*;
use refmodel::tz as rtz;
use serde_json::json;
use std::collections::BTreeSet;
use std::sync::atomic::{AtomicU64, Ordering};
use vf::conv;
use vf::zones::{self, Pair, ZoneSrc};
use vf::{guard, panic_sig, Report};

#[path = "c03/hb.rs"]
mod hb;

const NS: i128 = 1_000_000_000;

#[derive(Debug, Clone, Copy, PartialEq, Eq)]
enum Class {
    Unambiguous(i32),
    Gap(i32, i32),
    Fold(i32, i32),
}

#[derive(Clone, Copy, PartialEq)]
enum Years {
    All,
    /// one 400-year Gregorian cycle + range edges + years around 0 + pre-1970
    Cycle,
    /// quick POSIX product: 1995..2045 + range edges + years around 0 + pre-1970
    Short,
    /// quick, TZif zones whose footer string is swept over every year through
    /// another zone of the same corpus: years to 2100, every 97th year, 9997..
    Sparse,
}

struct Tot {
    probes: AtomicU64,
    gaps: AtomicU64,
    folds: AtomicU64,
    unamb: AtomicU64,
    excluded: AtomicU64,
    zones_without_both: AtomicU64,
}

/// (instant ns, offset s, displayed civil datetime)
type Zv = Option<(i128, i32, DateTime)>;

fn main() {
    let r = Report::from_args("C04");
    let tot = Tot {
        probes: AtomicU64::new(0),
        gaps: AtomicU64::new(0),
        folds: AtomicU64::new(0),
        unamb: AtomicU64::new(0),
        excluded: AtomicU64::new(0),
        zones_without_both: AtomicU64::new(0),
    };

    let mut corpus: Vec<(&str, Vec<ZoneSrc>)> = vec![];
    corpus.push(("sys", zones::sys(true)));
    corpus.push(("synth-slim", zones::synth("slim")));
    corpus.push(("synth-fat", zones::synth("fat")));
    // all bundled zones (slim data: this is where in-memory fattening from the
    // footer actually adds transitions)
    corpus.push(("bundled", zones::bundled()));
    if r.thorough() {
        corpus.push(("tzdata-slim", zones::tzdata("slim")));
        corpus.push(("tzdata-fat", zones::tzdata("fat")));
    }
    corpus.push(("handbuilt", hb::handbuilt()));
    for (tag, zs) in &corpus {
        let sec = format!("tzif:{}", tag);
        // Beyond the (fattened) table a TZif zone is governed by its footer
        // string alone. Thorough sweeps every rule year of every zone; quick
        // sweeps every rule year for the first zone carrying each distinct
        // footer string and a sparse set of years for the others.
        let mut seen: BTreeSet<Vec<u8>> = BTreeSet::new();
        let plan: Vec<(&ZoneSrc, Years)> = zs
            .iter()
            .map(|z| {
                let footer = rtz::parse_tzif(&z.bytes).ok().and_then(|x| x.footer).unwrap_or_default();
                let first = seen.insert(footer);
                (z, if r.thorough() || first { Years::All } else { Years::Sparse })
            })
            .collect();
        r.count("tzif_zones_swept_over_every_rule_year", plan.iter().filter(|x| x.1 == Years::All).count() as u64);
        r.count("tzif_zones_swept_over_sparse_rule_years", plan.iter().filter(|x| x.1 == Years::Sparse).count() as u64);
        r.section(&sec, || {
            plan.par_iter().for_each(|(z, years)| {
                let Ok(pair) = zones::load_pair(z) else {
                    r.count("zones_not_loaded(see C03)", 1);
                    return;
                };
                check_zone(&r, &sec, &pair, *years, &tot);
                r.add_states(1);
            });
        });
    }
    r.section("posix", || {
        let level = if r.quick() { 0 } else { 2 };
        let strs = zones::posix_alphabet(level);
        let years = if r.quick() { Years::Short } else { Years::Cycle };
        strs.par_iter().for_each(|s| {
            let Ok(pair) = zones::load_posix_pair(s) else {
                r.count("zones_not_loaded(see C03)", 1);
                return;
            };
            check_zone(&r, "posix", &pair, years, &tot);
            r.add_states(1);
        });
    });
    // every rule year -9999..=9999: each rule shape once in quick (18
    // strings); in thorough the shapes x std offsets (53 strings) and every
    // 16th string of the level-0 product alphabet
    r.section("posix-every-year", || {
        let mut strs = hb::posix_every_year_level(if r.quick() { 0 } else { 1 });
        if r.thorough() {
            strs.extend(zones::posix_alphabet(0).into_iter().step_by(16));
        }
        r.count("posix_strings_every_year", strs.len() as u64);
        strs.par_iter().for_each(|s| {
            let Ok(pair) = zones::load_posix_pair(s) else {
                r.count("zones_not_loaded(see C03)", 1);
                return;
            };
            check_zone(&r, "posix-every-year", &pair, Years::All, &tot);
            r.add_states(1);
        });
    });
    r.section("fixed", || fixed_offsets(&r));
    r.section("db-route", || db_route(&r));
    if r.thorough() {
        r.section("zdump-civil", || zdump_civil_binding(&r));
    }

    let g = |a: &AtomicU64| a.load(Ordering::Relaxed);
    r.count("civil_probes", g(&tot.probes));
    r.outcome("gap", g(&tot.gaps));
    r.outcome("fold", g(&tot.folds));
    r.outcome("unambiguous", g(&tot.unamb));
    r.outcome("excluded(>=3 preimages or non-unique gap)", g(&tot.excluded));
    r.count("zones_with_offset_changes_but_not_both_gap_and_fold", g(&tot.zones_without_both));
    if r.only_section.is_none() {
        r.require(g(&tot.gaps) > 1000 && g(&tot.folds) > 1000, "gaps and folds observed");
        r.require(r.get_count("probes_overlapping_windows") > 0, "civil times inside a transition window longer than an adjacent piece probed");
        r.require(r.get_count("probes_midnight(Date::to_zoned)") > 1000, "Date::to_zoned exercised at midnight probes");
        r.require(r.get_count("midnight_gap_or_fold(Date::to_zoned)") > 100, "Date::to_zoned exercised inside midnight gaps/folds");
        r.require(r.get_count("probes_wall_year_boundary") > 0, "wall-clock year boundaries probed");
        r.require(r.get_count("probes_negative_rule_years") > 0, "rule transitions in negative years probed");
        r.require(r.get_count("results_out_of_timestamp_range") > 0, "civil datetimes beyond the timestamp range probed");
        r.require(r.get_count("fold_later_instants_displayed") > 1000, "later fold instants checked for display");
        r.require(r.get_count("db_route_zones") > 300, "DateTime::in_tz exercised for the installed zones");
    }
    r.finish();
}

fn classify_model(z: &rtz::Zone, civil_sec: i64) -> Option<Class> {
    let pre = z.preimages(civil_sec);
    match pre.len() {
        0 => {
            let ks = z.gap_around(civil_sec);
            if ks.len() != 1 {
                return None;
            }
            let k = ks[0];
            Some(Class::Gap(z.infos[z.pieces[k - 1].info as usize].utoff, z.infos[z.pieces[k].info as usize].utoff))
        }
        1 => Some(Class::Unambiguous(z.infos[z.pieces[pre[0].1].info as usize].utoff)),
        2 => {
            let (a, b) = if pre[0].0 <= pre[1].0 { (pre[0], pre[1]) } else { (pre[1], pre[0]) };
            Some(Class::Fold(z.infos[z.pieces[a.1].info as usize].utoff, z.infos[z.pieces[b.1].info as usize].utoff))
        }
        _ => None,
    }
}

fn jiff_class(a: AmbiguousOffset) -> Class {
    match a {
        AmbiguousOffset::Unambiguous { offset } => Class::Unambiguous(offset.seconds()),
        AmbiguousOffset::Gap { before, after } => Class::Gap(before.seconds(), after.seconds()),
        AmbiguousOffset::Fold { before, after } => Class::Fold(before.seconds(), after.seconds()),
    }
}

fn year_filter(years: Years) -> Box<dyn Fn(i64) -> bool> {
    let common = |y: i64| (1900..1903).contains(&y) || (-2..=2).contains(&y);
    match years {
        Years::All => Box::new(|_| true),
        // 1995..2045 contains a century leap year and the years around 2038
        Years::Short => Box::new(move |y| (1995..2045).contains(&y) || y <= -9997 || y >= 9997 || common(y)),
        Years::Sparse => Box::new(|y| y <= 2100 || y >= 9997 || y % 97 == 0),
        Years::Cycle => Box::new(move |y| (1968..2370).contains(&y) || y <= -9996 || y >= 9996 || common(y)),
    }
}

fn zv(z: Result<jiff::Zoned, jiff::Error>) -> Zv {
    z.ok().map(|z| (z.timestamp().as_nanosecond(), z.offset().seconds(), z.datetime()))
}

struct Got {
    cls: Class,
    /// is_ambiguous(), datetime() and offset() of both ambiguous values agree with `cls` and the input
    accessors_ok: bool,
    res: [Option<i128>; 4],
    /// AmbiguousTimestamp::disambiguate(d) == the named method, for the four d
    dis_ts_ok: bool,
    zres: [Zv; 4],
    /// AmbiguousZoned::disambiguate(d) == the named method, for the four d
    dis_z_ok: bool,
    via_tz: Option<i128>,
    via_zoned: Zv,
    via_dt: Zv,
    via_date: Option<Zv>,
}

fn check_zone(r: &Report, sec: &str, p: &Pair, years: Years, tot: &Tot) {
    let filter = year_filter(years);
    // The thorough POSIX product (141 345 strings x 400 years) runs the three
    // extra AmbiguousZoned strategies and the `disambiguate` dispatchers at
    // three probes of every window only (lo-1ns just before
    // it, mid and hi-1ns inside it) and before every year boundary;
    // everything else runs them at every probe.
    let lean = r.thorough() && sec == "posix";
    let ks = zones::probe_pieces(&p.model, &*filter);
    let dt_min = conv::dt_min_ns();
    let dt_max = conv::dt_max_ns();
    let ts_min = Timestamp::MIN.as_nanosecond();
    let ts_max = Timestamp::MAX.as_nanosecond();
    let tzif = p.origin != "posix";
    let (mut n, mut ngap, mut nfold, mut nun, mut nex) = (0u64, 0u64, 0u64, 0u64, 0u64);
    let (mut n_overlap, mut n_midnight, mut n_midnight_amb, mut n_oor, mut n_later, mut n_validated) = (0u64, 0u64, 0u64, 0u64, 0u64, 0u64);
    let strategies = [Disambiguation::Compatible, Disambiguation::Earlier, Disambiguation::Later, Disambiguation::Reject];
    let names = ["compatible", "earlier", "later", "unambiguous"];
    let znames = ["AmbiguousZoned::compatible", "AmbiguousZoned::earlier", "AmbiguousZoned::later", "AmbiguousZoned::unambiguous"];
    // zones with a piece shorter than the clock shift at one of its ends
    let zone_overlap = (2..p.model.pieces.len()).any(|k| {
        let o = |i: usize| p.model.infos[p.model.pieces[i].info as usize].utoff as i64;
        let (a, b) = (&p.model.pieces[k - 1], &p.model.pieces[k]);
        a.start != i64::MIN && b.start - a.start < (o(k - 2) - o(k - 1)).abs().max((o(k - 1) - o(k)).abs())
    });
    let wall_reversed = !p.model.pieces.last().map(|x| x.recorded).unwrap_or(true) && hb::posix_rule_wall_order_reversed(&p.model);
    let (mut n_f7_skipped, mut n_dis_z, mut n_all, mut n_unhidden) = (0u64, 0u64, 0u64, 0u64);
    let f7_zone = hb::zone_has_f7_pieces(&p.model);
    // violations of the hot (F7) paths are aggregated per zone and signature
    let mut agg = hb::Agg::new(r);
    // a recorded transition outside jiff's timestamp range (jiff clamps it onto Timestamp::MIN/MAX)
    let oor: Vec<(i64, i64, i64)> = (1..p.model.pieces.len())
        .filter(|&k| {
            let s = p.model.pieces[k].start;
            p.model.pieces[k].recorded && s != i64::MIN && (s < zones::TS_MIN_SEC || s > zones::TS_MAX_SEC)
        })
        .map(|k| {
            let o = |i: usize| p.model.infos[p.model.pieces[i].info as usize].utoff as i64;
            let b = p.model.pieces[k].start.clamp(zones::TS_MIN_SEC, zones::TS_MAX_SEC);
            (b, o(k - 1).min(o(k)), o(k - 1).max(o(k)))
        })
        .collect();

    let mut probe = |c_ns: i128| {
        if c_ns < dt_min || c_ns > dt_max {
            return;
        }
        n += 1;
        let c_sec = c_ns.div_euclid(NS) as i64;
        if f7_zone && !lean && hb::former_f7_wall(&p.model, c_sec) && !hb::f7_wall(&p.model, c_sec, tzif) {
            n_unhidden += 1;
        }
        let overlapping = zone_overlap && hb::window_longer_than_adjacent_piece(&p.model, c_sec);
        if overlapping {
            n_overlap += 1;
        }
        let Some(want) = classify_model(&p.model, c_sec) else {
            nex += 1;
            return;
        };
        match want {
            Class::Gap(..) => ngap += 1,
            Class::Fold(..) => nfold += 1,
            Class::Unambiguous(..) => nun += 1,
        }
        let dt = conv::dt_from_civil_ns(c_ns).unwrap();
        let midnight = c_ns.rem_euclid(86_400 * NS) == 0;
        if midnight {
            n_midnight += 1;
            if !matches!(want, Class::Unambiguous(..)) {
                n_midnight_amb += 1;
            }
        }
        let case = || format!("{}:{} civil={}", p.origin, p.name, dt);
        // input-derived class of a classification failure
        let class_suffix = || {
            if hb::f7_wall(&p.model, c_sec, tzif) {
                format!(":{}", hb::F7)
            } else if oor.iter().any(|&(b, omin, omax)| c_sec >= b + omin - 1 && c_sec <= b + omax + 1) {
                ":recorded-transition-outside-timestamp-range-clamped-onto-MIN-or-MAX".to_string()
            } else if overlapping {
                ":transition-window-longer-than-adjacent-piece".to_string()
            } else if wall_reversed && !p.model.pieces[p.model.piece_index_at(c_sec)].recorded {
                ":posix-rule-wall-clock-order-differs-from-instant-order".to_string()
            } else {
                String::new()
            }
        };
        // AmbiguousZoned::disambiguate is a dispatch on its argument: exercised
        // at the mid-window probe of every transition (always a gap or fold)
        // and at the civil datetimes probed to the second off a window
        let all_strategies = !lean || matches!(c_ns.rem_euclid(NS), 500_000_000 | 999_999_999);
        if all_strategies {
            n_all += 1;
        }
        let dis_z_here = all_strategies && (c_ns.rem_euclid(NS) == 500_000_000 || c_ns.rem_euclid(3600 * NS) == 0);
        if dis_z_here {
            n_dis_z += 1;
        }
        let got = guard(|| {
            let at = p.jiff.to_ambiguous_timestamp(dt);
            let cls = jiff_class(at.offset());
            let amb = !matches!(cls, Class::Unambiguous(..));
            let res = [
                at.compatible().ok().map(|t| t.as_nanosecond()),
                at.earlier().ok().map(|t| t.as_nanosecond()),
                at.later().ok().map(|t| t.as_nanosecond()),
                at.unambiguous().ok().map(|t| t.as_nanosecond()),
            ];
            let mut dis_ts_ok = true;
            if all_strategies {
                for i in 0..4 {
                    dis_ts_ok &= at.disambiguate(strategies[i]).ok().map(|t| t.as_nanosecond()) == res[i];
                }
            }
            let az = p.jiff.to_ambiguous_zoned(dt);
            let accessors_ok = at.is_ambiguous() == amb
                && at.datetime() == dt
                && az.is_ambiguous() == amb
                && az.datetime() == dt
                && jiff_class(az.offset()) == cls;
            let zres = if all_strategies {
                [zv(az.clone().compatible()), zv(az.clone().earlier()), zv(az.clone().later()), zv(az.clone().unambiguous())]
            } else {
                [zv(az.clone().compatible()), None, None, None]
            };
            let mut dis_z_ok = true;
            if dis_z_here {
                for i in 0..4 {
                    dis_z_ok &= zv(az.clone().disambiguate(strategies[i])) == zres[i];
                }
            }
            let via_tz = p.jiff.to_timestamp(dt).ok().map(|t| t.as_nanosecond());
            let via_zoned = zv(p.jiff.to_zoned(dt));
            let via_dt = zv(dt.to_zoned(p.jiff.clone()));
            let via_date = if midnight { Some(zv(dt.date().to_zoned(p.jiff.clone()))) } else { None };
            Got { cls, accessors_ok, res, dis_ts_ok, zres, dis_z_ok, via_tz, via_zoned, via_dt, via_date }
        });
        let g = match got {
            Err(pn) => {
                r.viol(sec, &format!("to_ambiguous_timestamp/{}{}", panic_sig(&pn), class_suffix()), case(), pn);
                return;
            }
            Ok(x) => x,
        };
        n_validated += 21;
        // documented strategy selections: the offset each strategy uses
        let offs: [Option<i32>; 4] = match want {
            Class::Unambiguous(o) => [Some(o); 4],
            // gap: compatible = later instant (offset before the gap), earlier = offset after the gap
            Class::Gap(b, a) => [Some(b), Some(a), Some(b), None],
            // fold: compatible = earlier instant (offset before), later = offset after
            Class::Fold(b, a) => [Some(b), Some(b), Some(a), None],
        };
        let inst = |off: Option<i32>| -> Option<i128> {
            let t = c_ns - off? as i128 * NS;
            if t < ts_min || t > ts_max {
                None
            } else {
                Some(t)
            }
        };
        let exp: [Option<i128>; 4] = [inst(offs[0]), inst(offs[1]), inst(offs[2]), inst(offs[3])];
        // A civil datetime none of whose instants lies in the timestamp range
        // (within a day of DateTime::MIN/MAX): every strategy must report an
        // error, and the kind of the classification is compared; the offsets
        // it names are not (no instant exists through which they could matter).
        let no_instant = exp.iter().all(|e| e.is_none());
        if no_instant {
            n_oor += 1;
        }
        let same_kind = matches!(
            (g.cls, want),
            (Class::Unambiguous(..), Class::Unambiguous(..)) | (Class::Gap(..), Class::Gap(..)) | (Class::Fold(..), Class::Fold(..))
        );
        if g.cls != want && !(no_instant && same_kind && g.res.iter().all(|x| x.is_none())) {
            agg.add(r, sec, &format!("to_ambiguous_timestamp/classification{}", class_suffix()), case(), || format!("jiff {:?} model {:?}", g.cls, want));
            return;
        }
        if !g.accessors_ok {
            r.viol(sec, "Ambiguous{Timestamp,Zoned}::{is_ambiguous,datetime,offset}/inconsistent", case(), format!("classification {:?}", g.cls));
        }
        for i in 0..4 {
            if g.res[i] != exp[i] {
                r.viol(sec, &format!("AmbiguousTimestamp::{}/instant", names[i]), case(), format!("jiff {:?} model {:?} ({:?})", g.res[i], exp[i], want));
            }
        }
        if !g.dis_ts_ok {
            r.viol(sec, "AmbiguousTimestamp::disambiguate/differs-from-named-strategy", case(), format!("{:?}", want));
        }
        if !g.dis_z_ok {
            r.viol(sec, "AmbiguousZoned::disambiguate/differs-from-named-strategy", case(), format!("{:?}", want));
        }
        if g.via_tz != exp[0] {
            r.viol(sec, "TimeZone::to_timestamp/instant", case(), format!("jiff {:?} model {:?}", g.via_tz, exp[0]));
        }
        // every Zoned produced: the instant; for a non-gap civil time the
        // civil time and chosen offset displayed; in a gap, offset and civil
        // time consistent with the instant
        let mut check_zoned = |op: &'static str, got: Zv, i: usize| {
            match (got, exp[i]) {
                (None, None) => {}
                (Some((t, off, zdt)), Some(e)) => {
                    if t != e {
                        r.viol(sec, &format!("{}/instant", op), case(), format!("jiff {} model {}", t, e));
                        return;
                    }
                    let m = p.model.utoff_at(e.div_euclid(NS) as i64);
                    let gap = matches!(want, Class::Gap(..));
                    if (zdt != dt || Some(off) != offs[i] || off != m) && hb::f7_utc(&p.model, e, tzif) {
                        // What jiff displays for an instant inside an exact F7
                        // window is C03's finding (Zoned::offset there). Here it
                        // is reported for TimeZone::to_zoned only (the recorded
                        // known finding); the other routes are counted.
                        if op == "TimeZone::to_zoned" && !gap {
                            agg.add(r, sec, &format!("{}/displays-other-civil-time:{}", op, hb::F7), case(), || {
                                format!("zoned shows {} offset {} (chosen offset {:?}, model offset at the instant {})", zdt, off, offs[i], m)
                            });
                        } else {
                            n_f7_skipped += 1;
                        }
                        return;
                    }
                    let f7 = || "";
                    if !gap {
                        // an instant produced from a non-gap civil time displays that civil time
                        if matches!(want, Class::Fold(..)) && i == 2 {
                            n_later += 1;
                        }
                        if zdt != dt || Some(off) != offs[i] || off != m {
                            r.viol(
                                sec,
                                &format!("{}/displays-other-civil-time{}", op, f7()),
                                case(),
                                format!("zoned shows {} offset {} (chosen offset {:?}, model offset at the instant {})", zdt, off, offs[i], m),
                            );
                        }
                    } else if off != m || conv::dt_civil_ns(zdt) != e + m as i128 * NS {
                        r.viol(
                            sec,
                            &format!("{}/gap-result-inconsistent-with-its-instant{}", op, f7()),
                            case(),
                            format!("zoned shows {} offset {} (model offset at the instant {})", zdt, off, m),
                        );
                    }
                }
                (a, b) => r.viol(sec, &format!("{}/range", op), case(), format!("jiff {:?} model {:?}", a.map(|x| x.0), b)),
            }
        };
        for i in 0..(if all_strategies { 4 } else { 1 }) {
            check_zoned(znames[i], g.zres[i], i);
        }
        check_zoned("TimeZone::to_zoned", g.via_zoned, 0);
        check_zoned("DateTime::to_zoned", g.via_dt, 0);
        if let Some(vd) = g.via_date {
            check_zoned("Date::to_zoned", vd, 0);
        }
    };

    probe(dt_min);
    probe(dt_min + 1);
    probe(dt_min + 3600 * NS);
    probe(dt_min + 26 * 3600 * NS);
    probe(dt_max);
    probe(dt_max - 1);
    probe(dt_max - 26 * 3600 * NS);
    probe(0);
    // the civil datetimes of Timestamp::MIN / MAX under the first / last
    // offset: the boundary between a result and a range error
    let o_first = p.model.infos[p.model.pieces[0].info as usize].utoff as i128;
    let o_last = p.model.utoff_at(zones::TS_MAX_SEC) as i128;
    for d in [-NS, -1, 0, 1, NS] {
        probe(ts_min + o_first * NS + d);
        probe(ts_max + o_last * NS + d);
    }
    let mut sampled = false;
    let mut years_set: BTreeSet<i64> = BTreeSet::new();
    let mut n_neg = 0u64;
    for &k in &ks {
        let pc = &p.model.pieces[k];
        if !pc.recorded {
            years_set.insert(pc.rule_year);
            years_set.insert(pc.rule_year + 1);
            if pc.rule_year < 0 {
                n_neg += 1;
            }
        }
        let t = pc.start as i128;
        let o1 = p.model.infos[p.model.pieces[k - 1].info as usize].utoff as i128;
        let o2 = p.model.infos[p.model.pieces[k].info as usize].utoff as i128;
        let (lo, hi) = ((t + o1.min(o2)) * NS, (t + o1.max(o2)) * NS);
        if lo == hi {
            for d in [-NS, -1, 0, 1, NS] {
                probe(lo + d);
            }
            continue;
        }
        let mid = lo + ((hi - lo) / 2 / NS) * NS + 500_000_000;
        for c in [lo - NS, lo - 1, lo, lo + 1, lo + NS, mid, hi - NS, hi - 1, hi, hi + 1, hi + NS] {
            probe(c);
        }
        if !sampled && p.name == "America/New_York" && p.origin == "sys" && t > 1_700_000_000 {
            sampled = true;
            r.sample(json!({"zone": p.name, "transition": t as i64, "offsets": [o1 as i64, o2 as i64],
                "window_civil_ns": [lo.to_string(), hi.to_string()], "probes": "lo-1s,lo-1ns,lo,lo+1ns,lo+1s,mid,hi-1s,hi-1ns,hi,hi+1ns,hi+1s"}));
        }
    }
    // both sides of every wall-clock year boundary in the rule-governed part
    let mut n_yb = 0u64;
    for y in years_set {
        if !(-9999..=10000).contains(&y) {
            continue;
        }
        let y0 = refmodel::cal::days_from_civil(y, 1, 1) as i128 * 86400 * NS;
        for d in [-NS, -1, 0] {
            if y0 + d >= dt_min && y0 + d <= dt_max {
                n_yb += 1;
            }
            probe(y0 + d);
        }
    }
    agg.flush(r, sec);
    tot.probes.fetch_add(n, Ordering::Relaxed);
    tot.gaps.fetch_add(ngap, Ordering::Relaxed);
    tot.folds.fetch_add(nfold, Ordering::Relaxed);
    tot.unamb.fetch_add(nun, Ordering::Relaxed);
    tot.excluded.fetch_add(nex, Ordering::Relaxed);
    let changes = p.model.changing().iter().any(|&k| {
        p.model.infos[p.model.pieces[k].info as usize].utoff != p.model.infos[p.model.pieces[k - 1].info as usize].utoff
            && p.model.pieces[k].start > zones::TS_MIN_SEC
    });
    if changes && (ngap == 0 || nfold == 0) {
        tot.zones_without_both.fetch_add(1, Ordering::Relaxed);
    }
    r.add_transitions(n);
    r.add_validated(n_validated);
    r.count("probes_overlapping_windows", n_overlap);
    r.count("probes_midnight(Date::to_zoned)", n_midnight);
    r.count("midnight_gap_or_fold(Date::to_zoned)", n_midnight_amb);
    r.count("probes_wall_year_boundary", n_yb);
    r.count("probes_negative_rule_years", n_neg);
    r.count("results_out_of_timestamp_range", n_oor);
    r.count("fold_later_instants_displayed", n_later);
    r.count("display_checks_not_reported_here(instant inside an exact F7 UTC window; see C03)", n_f7_skipped);
    r.count("probes_with_AmbiguousZoned::disambiguate", n_dis_z);
    r.count("probes_in_the_former_F7_window_now_outside_the_exact_one", n_unhidden);
    r.count("probes_with_all_four_AmbiguousZoned_strategies", n_all);
    if years == Years::All && !tzif {
        r.count("probes_every_year_sweep", n);
    }
}

/// Fixed-offset zones and UTC: every civil datetime is unambiguous with the
/// zone's offset.
fn fixed_offsets(r: &Report) {
    let offs: [i32; 9] = [-93_599, -3600, -1, 0, 1, 19_800, 45_900, 86_400, 93_599];
    let (dt_min, dt_max) = (conv::dt_min_ns(), conv::dt_max_ns());
    let (ts_min, ts_max) = (Timestamp::MIN.as_nanosecond(), Timestamp::MAX.as_nanosecond());
    let mut zonesv: Vec<(String, i32, TimeZone)> = vec![("UTC".into(), 0, TimeZone::UTC)];
    for o in offs {
        zonesv.push((format!("fixed({})", o), o, TimeZone::fixed(jiff::tz::Offset::from_seconds(o).unwrap())));
    }
    let mut n = 0;
    for (name, o, tz) in &zonesv {
        let on = *o as i128 * NS;
        let cs = [dt_min, dt_min + 1, ts_min + on - 1, ts_min + on, -1, 0, 1, 86_400 * NS - 1, ts_max + on, ts_max + on + 1, dt_max - 1, dt_max];
        for c in cs {
            if c < dt_min || c > dt_max {
                continue;
            }
            n += 1;
            let dt = conv::dt_from_civil_ns(c).unwrap();
            let case = format!("{} civil={}", name, dt);
            let e = c - on;
            let exp = if e < ts_min || e > ts_max { None } else { Some((e, *o, dt)) };
            match guard(|| {
                let at = tz.to_ambiguous_timestamp(dt);
                (jiff_class(at.offset()), at.is_ambiguous(), at.unambiguous().ok().map(|t| t.as_nanosecond()), zv(tz.to_zoned(dt)), zv(dt.to_zoned(tz.clone())), zv(tz.to_ambiguous_zoned(dt).later()))
            }) {
                Err(pn) => r.viol("fixed", &format!("TimeZone::fixed/to_ambiguous_timestamp/{}", panic_sig(&pn)), case, pn),
                Ok((cls, amb, una, z1, z2, z3)) => {
                    if cls != Class::Unambiguous(*o) || amb || una != exp.map(|x| x.0) || z1 != exp || z2 != exp || z3 != exp {
                        r.viol("fixed", "TimeZone::fixed/to_ambiguous_timestamp/value", case, format!("jiff ({:?}, {}, {:?}, {:?}, {:?}, {:?}) expected {:?}", cls, amb, una, z1, z2, z3, exp));
                    }
                }
            }
        }
    }
    r.count("fixed_offset_probes", n);
    r.add_transitions(n);
    r.add_validated(n);
}

/// `DateTime::in_tz(name)` / `Date::in_tz(name)`: the database route, on a
/// representative set of probes per installed zone. The zone the database
/// hands out must resolve like the installed file of that name or like the
/// bundled copy (their equivalence is C18).
fn db_route(r: &Report) {
    let sys = zones::sys(true);
    let zs: Vec<&ZoneSrc> = sys.iter().filter(|z| !z.name.starts_with("right/") && !z.name.starts_with("posix/")).collect();
    let n_zones = AtomicU64::new(0);
    let n_unres = AtomicU64::new(0);
    let n_probes = AtomicU64::new(0);
    let n_dates = AtomicU64::new(0);
    let (ts_min, ts_max) = (Timestamp::MIN.as_nanosecond(), Timestamp::MAX.as_nanosecond());
    zs.par_iter().for_each(|z| {
        let Ok(m_sys) = rtz::zone_from_tzif(&z.bytes) else { return };
        let m_bun = jiff_tzdb::get(&z.name).and_then(|(_, b)| rtz::zone_from_tzif(b).ok());
        if guard(|| jiff::tz::db().get(&z.name).is_ok()) != Ok(true) {
            n_unres.fetch_add(1, Ordering::Relaxed);
            return;
        }
        n_zones.fetch_add(1, Ordering::Relaxed);
        let all = zones::probe_pieces(&m_sys, &|_| true);
        let rec: Vec<usize> = all.iter().copied().filter(|&k| m_sys.pieces[k].recorded).collect();
        let rule: Vec<usize> = all.iter().copied().filter(|&k| !m_sys.pieces[k].recorded).collect();
        let mut ks: Vec<usize> = vec![];
        ks.extend(rec.iter().take(1));
        ks.extend(rec.iter().rev().take(2));
        ks.extend(rule.iter().take(2));
        ks.extend(rule.iter().rev().take(1));
        let mut cs: Vec<i128> = vec![conv::dt_min_ns(), conv::dt_max_ns(), 0];
        for k in ks {
            let t = m_sys.pieces[k].start as i128;
            let o1 = m_sys.infos[m_sys.pieces[k - 1].info as usize].utoff as i128;
            let o2 = m_sys.infos[m_sys.pieces[k].info as usize].utoff as i128;
            let (lo, hi) = ((t + o1.min(o2)) * NS, (t + o1.max(o2)) * NS);
            cs.extend([lo - 1, lo, lo + (hi - lo) / 2, hi - 1, hi]);
            // the midnight starting the day of the transition (Date::in_tz)
            cs.push(lo.div_euclid(86_400 * NS) * 86_400 * NS);
        }
        for c in cs {
            if c < conv::dt_min_ns() || c > conv::dt_max_ns() {
                continue;
            }
            n_probes.fetch_add(1, Ordering::Relaxed);
            let dt = conv::dt_from_civil_ns(c).unwrap();
            let midnight = c.rem_euclid(86_400 * NS) == 0;
            let case = format!("sys:{} civil={}", z.name, dt);
            let expect = |m: &rtz::Zone| -> Option<Option<i128>> {
                let off = match classify_model(m, c.div_euclid(NS) as i64)? {
                    Class::Unambiguous(o) => o,
                    Class::Gap(b, _) => b,
                    Class::Fold(b, _) => b,
                };
                let e = c - off as i128 * NS;
                Some(if e < ts_min || e > ts_max { None } else { Some(e) })
            };
            let w1 = expect(&m_sys);
            let w2 = m_bun.as_ref().and_then(|m| expect(m));
            if w1.is_none() {
                continue;
            }
            match guard(|| {
                let a = dt.in_tz(&z.name).ok().map(|zd| (zd.timestamp().as_nanosecond(), zd.offset().seconds(), zd.datetime()));
                let b = if midnight { Some(dt.date().in_tz(&z.name).ok().map(|zd| (zd.timestamp().as_nanosecond(), zd.offset().seconds(), zd.datetime()))) } else { None };
                (a, b)
            }) {
                Err(pn) => r.viol("db-route", &format!("DateTime::in_tz/{}", panic_sig(&pn)), case, pn),
                Ok((a, b)) => {
                    let f7 = || if hb::f7_wall(&m_sys, c.div_euclid(NS) as i64, true) { format!(":{}", hb::F7) } else { String::new() };
                    let ok = |g: &Zv| {
                        let gi = g.map(|x| x.0);
                        (Some(gi) == w1 || (w2.is_some() && Some(gi) == w2)) && g.map(|(t, off, zdt)| conv::dt_civil_ns(zdt) == t + off as i128 * NS).unwrap_or(true)
                    };
                    if !ok(&a) {
                        r.viol("db-route", &format!("DateTime::in_tz/instant{}", f7()), case.clone(), format!("jiff {:?} model installed {:?} bundled {:?}", a, w1, w2));
                    }
                    if let Some(b) = b {
                        n_dates.fetch_add(1, Ordering::Relaxed);
                        if b != a {
                            r.viol("db-route", "Date::in_tz/differs-from-DateTime::in_tz-at-midnight", case, format!("{:?} vs {:?}", b, a));
                        }
                    }
                }
            }
        }
    });
    r.count("db_route_zones", n_zones.load(Ordering::Relaxed));
    r.count("db_route_names_not_resolved", n_unres.load(Ordering::Relaxed));
    r.count("db_route_probes", n_probes.load(Ordering::Relaxed));
    r.count("db_route_date_in_tz", n_dates.load(Ordering::Relaxed));
    r.add_transitions(n_probes.load(Ordering::Relaxed));
    r.add_validated(n_probes.load(Ordering::Relaxed));
}

/// Bind the civil side of R-tz (`preimages`, `gap_around`) to a third
/// implementation: the transition list printed by `zdump -V` (glibc's reader)
/// is turned into a piece list of its own, the classification of the window
/// boundaries of every listed transition is computed from it by brute force
/// (count the pieces whose local clock shows the civil time), and compared
/// with R-tz's classification of the same civil time. jiff is not involved.
fn zdump_civil_binding(r: &Report) {
    let zs: Vec<ZoneSrc> = zones::sys(true).into_iter().filter(|z| !z.name.starts_with("right/")).collect();
    let compared = AtomicU64::new(0);
    let n_gap = AtomicU64::new(0);
    let n_fold = AtomicU64::new(0);
    zs.par_iter().for_each(|z| {
        let Ok(model) = rtz::zone_from_tzif(&z.bytes) else { return };
        let path = format!("{}/{}", zones::SYS_DIR, z.name);
        let Ok(out) = std::process::Command::new("zdump").args(["-V", "-c", "1800,2500", &path]).output() else { return };
        let text = String::from_utf8_lossy(&out.stdout);
        // (instant, gmtoff) per line; lines come in pairs (T-1, T)
        let mut pts: Vec<(i64, i64)> = vec![];
        for line in text.lines() {
            let toks: Vec<&str> = line.split_whitespace().collect();
            if toks.len() < 16 || toks[6] != "UT" {
                continue;
            }
            let mon = ["Jan", "Feb", "Mar", "Apr", "May", "Jun", "Jul", "Aug", "Sep", "Oct", "Nov", "Dec"].iter().position(|m| *m == toks[2]);
            let (Some(mon), Ok(day), Ok(year)) = (mon, toks[3].parse::<i64>(), toks[5].parse::<i64>()) else { continue };
            let hms: Vec<i64> = toks[4].split(':').filter_map(|x| x.parse().ok()).collect();
            if hms.len() != 3 {
                continue;
            }
            let t = refmodel::cal::days_from_civil(year, mon as i64 + 1, day) * 86400 + hms[0] * 3600 + hms[1] * 60 + hms[2];
            let Ok(gmtoff) = toks[15].trim_start_matches("gmtoff=").parse::<i64>() else { continue };
            pts.push((t, gmtoff));
        }
        // zdump's own piece list: (start, offset); the first piece starts at -inf
        let mut zp: Vec<(i64, i64)> = vec![];
        let mut i = 0;
        while i + 1 < pts.len() {
            if pts[i + 1].0 == pts[i].0 + 1 {
                if zp.is_empty() {
                    zp.push((i64::MIN, pts[i].1));
                }
                zp.push((pts[i + 1].0, pts[i + 1].1));
                i += 2;
            } else {
                i += 1;
            }
        }
        if zp.len() < 3 {
            return;
        }
        let brute = |c: i64| -> Option<Class> {
            let mut pre: Vec<(i64, i64)> = vec![];
            for (k, &(s, o)) in zp.iter().enumerate() {
                let e = if k + 1 < zp.len() { zp[k + 1].0 } else { i64::MAX };
                let t = c - o;
                if t >= s && t < e {
                    pre.push((t, o));
                }
            }
            pre.sort();
            match pre.len() {
                1 => Some(Class::Unambiguous(pre[0].1 as i32)),
                2 => Some(Class::Fold(pre[0].1 as i32, pre[1].1 as i32)),
                0 => {
                    // the transition that skips c
                    let ks: Vec<usize> = (1..zp.len()).filter(|&k| c - zp[k - 1].1 >= zp[k].0 && c - zp[k].1 < zp[k].0).collect();
                    if ks.len() == 1 {
                        Some(Class::Gap(zp[ks[0] - 1].1 as i32, zp[ks[0]].1 as i32))
                    } else {
                        None
                    }
                }
                _ => None,
            }
        };
        // stay two days inside what zdump listed
        let (first, last) = (zp[1].0, zp[zp.len() - 1].0);
        for k in 1..zp.len() {
            let (t, o1, o2) = (zp[k].0, zp[k - 1].1, zp[k].1);
            let (lo, hi) = (t + o1.min(o2), t + o1.max(o2));
            for c in [lo - 1, lo, lo + (hi - lo) / 2, hi - 1, hi] {
                if c < first + 200_000 || c > last - 200_000 {
                    continue;
                }
                let (a, b) = (brute(c), classify_model(&model, c));
                compared.fetch_add(1, Ordering::Relaxed);
                match a {
                    Some(Class::Gap(..)) => {
                        n_gap.fetch_add(1, Ordering::Relaxed);
                    }
                    Some(Class::Fold(..)) => {
                        n_fold.fetch_add(1, Ordering::Relaxed);
                    }
                    _ => {}
                }
                if a != b {
                    r.viol("zdump-civil", "model-vs-zdump/civil-classification", format!("{} civil_sec={}", z.name, c), format!("zdump-derived {:?} R-tz {:?}", a, b));
                }
            }
        }
    });
    r.count("zdump_civil_classifications_compared", compared.load(Ordering::Relaxed));
    r.count("zdump_civil_gaps", n_gap.load(Ordering::Relaxed));
    r.count("zdump_civil_folds", n_fold.load(Ordering::Relaxed));
    r.require(compared.load(Ordering::Relaxed) > 100_000 && n_gap.load(Ordering::Relaxed) > 1000 && n_fold.load(Ordering::Relaxed) > 1000, "zdump-derived civil classifications compared");
}
