//! C01 coverage extension: `civil::Weekday`. The weekday of a date is only as
//! right as the numbering conversions it is read through, so all of them are
//! enumerated completely against plain modulo-7 arithmetic on an index fixed
//! by an exhaustive `match` (0 = Sunday, as in the reference model).

use jiff::civil::Weekday;
use rayon::prelude::*;
use vf::{guard, panic_sig, Report};

pub const ALL: [Weekday; 7] =
    [Weekday::Sunday, Weekday::Monday, Weekday::Tuesday, Weekday::Wednesday, Weekday::Thursday, Weekday::Friday, Weekday::Saturday];

pub fn sun0(w: Weekday) -> i64 {
    match w {
        Weekday::Sunday => 0,
        Weekday::Monday => 1,
        Weekday::Tuesday => 2,
        Weekday::Wednesday => 3,
        Weekday::Thursday => 4,
        Weekday::Friday => 5,
        Weekday::Saturday => 6,
    }
}

fn one<T: PartialEq + core::fmt::Debug>(r: &Report, n: &mut u64, sig: &str, case: String, f: impl FnOnce() -> T, want: T) {
    *n += 1;
    match guard(f) {
        Err(p) => r.viol("weekday", &format!("{}/{}", sig, panic_sig(&p)), case, p),
        Ok(g) => {
            if g != want {
                r.viol("weekday", &format!("{}/value", sig), case, format!("jiff {:?} model {:?}", g, want));
            }
        }
    }
}

pub fn run(r: &Report) {
    let mut n = 0u64;
    // constructors: every i8
    for o in i8::MIN..=i8::MAX {
        let oi = o as i64;
        one(r, &mut n, "Weekday::from_monday_zero_offset", format!("{}", o), || Weekday::from_monday_zero_offset(o).ok().map(sun0), if (0..=6).contains(&oi) { Some((oi + 1) % 7) } else { None });
        one(r, &mut n, "Weekday::from_monday_one_offset", format!("{}", o), || Weekday::from_monday_one_offset(o).ok().map(sun0), if (1..=7).contains(&oi) { Some(oi % 7) } else { None });
        one(r, &mut n, "Weekday::from_sunday_zero_offset", format!("{}", o), || Weekday::from_sunday_zero_offset(o).ok().map(sun0), if (0..=6).contains(&oi) { Some(oi) } else { None });
        one(r, &mut n, "Weekday::from_sunday_one_offset", format!("{}", o), || Weekday::from_sunday_one_offset(o).ok().map(sun0), if (1..=7).contains(&oi) { Some(oi - 1) } else { None });
    }
    for &w in &ALL {
        let i = sun0(w);
        one(r, &mut n, "Weekday::to_monday_zero_offset", format!("{:?}", w), || w.to_monday_zero_offset() as i64, (i + 6) % 7);
        one(r, &mut n, "Weekday::to_monday_one_offset", format!("{:?}", w), || w.to_monday_one_offset() as i64, (i + 6) % 7 + 1);
        one(r, &mut n, "Weekday::to_sunday_zero_offset", format!("{:?}", w), || w.to_sunday_zero_offset() as i64, i);
        one(r, &mut n, "Weekday::to_sunday_one_offset", format!("{:?}", w), || w.to_sunday_one_offset() as i64, i + 1);
        one(r, &mut n, "Weekday::next", format!("{:?}", w), || sun0(w.next()), (i + 1) % 7);
        one(r, &mut n, "Weekday::previous", format!("{:?}", w), || sun0(w.previous()), (i + 6) % 7);
        for &v in &ALL {
            let j = sun0(v);
            one(r, &mut n, "Weekday::since", format!("{:?} since {:?}", w, v), || w.since(v) as i64, (i - j).rem_euclid(7));
            one(r, &mut n, "Weekday::until", format!("{:?} until {:?}", w, v), || w.until(v) as i64, (j - i).rem_euclid(7));
            one(r, &mut n, "Weekday::eq", format!("{:?} == {:?}", w, v), || w == v, i == j);
        }
        // cycles: three full turns
        let fw: Vec<i64> = (0..22).map(|k| (i + k) % 7).collect();
        let rv: Vec<i64> = (0..22).map(|k| (i - k).rem_euclid(7)).collect();
        one(r, &mut n, "Weekday::cycle_forward", format!("{:?}", w), || w.cycle_forward().take(22).map(sun0).collect::<Vec<_>>(), fw);
        one(r, &mut n, "Weekday::cycle_reverse", format!("{:?}", w), || w.cycle_reverse().take(22).map(sun0).collect::<Vec<_>>(), rv);
    }
    // wrapping arithmetic and the operators, per operand type
    let add = |i: i64, k: i128| ((i as i128 + k).rem_euclid(7)) as i64;
    let n2: u64 = ALL.par_iter().map(|&w| {
        let mut n = 0u64;
        let n = &mut n;
        let i = sun0(w);
        for k in i8::MIN..=i8::MAX {
            let kk = k as i128;
            one(r, n, "Weekday::wrapping_add:i8", format!("{:?} {}", w, k), || sun0(w.wrapping_add(k)), add(i, kk));
            one(r, n, "Weekday::wrapping_sub:i8", format!("{:?} {}", w, k), || sun0(w.wrapping_sub(k)), add(i, -kk));
            one(r, n, "Weekday+i8", format!("{:?} {}", w, k), || (sun0(w + k), sun0(k + w), { let mut x = w; x += k; sun0(x) }), (add(i, kk), add(i, kk), add(i, kk)));
            one(r, n, "Weekday-i8", format!("{:?} {}", w, k), || (sun0(w - k), { let mut x = w; x -= k; sun0(x) }), (add(i, -kk), add(i, -kk)));
        }
        for k in i16::MIN..=i16::MAX {
            let kk = k as i128;
            one(r, n, "Weekday::wrapping_add:i16", format!("{:?} {}", w, k), || sun0(w.wrapping_add(k)), add(i, kk));
            one(r, n, "Weekday::wrapping_sub:i16", format!("{:?} {}", w, k), || sun0(w.wrapping_sub(k)), add(i, -kk));
            one(r, n, "Weekday+i16", format!("{:?} {}", w, k), || (sun0(w + k), sun0(k + w), { let mut x = w; x += k; sun0(x) }), (add(i, kk), add(i, kk), add(i, kk)));
            one(r, n, "Weekday-i16", format!("{:?} {}", w, k), || (sun0(w - k), { let mut x = w; x -= k; sun0(x) }), (add(i, -kk), add(i, -kk)));
        }
        let mut k32: Vec<i32> = (-15..=15).collect();
        for base in [i32::MIN, i32::MAX, 1 << 16, -(1 << 16), 1 << 30, -(1 << 30), 7_304_484, -7_304_484] {
            for dlt in -8i64..=8 {
                let v = base as i64 + dlt;
                if v >= i32::MIN as i64 && v <= i32::MAX as i64 {
                    k32.push(v as i32);
                }
            }
        }
        for &k in &k32 {
            let kk = k as i128;
            one(r, n, "Weekday::wrapping_add:i32", format!("{:?} {}", w, k), || sun0(w.wrapping_add(k)), add(i, kk));
            one(r, n, "Weekday::wrapping_sub:i32", format!("{:?} {}", w, k), || sun0(w.wrapping_sub(k)), add(i, -kk));
            one(r, n, "Weekday+i32", format!("{:?} {}", w, k), || (sun0(w + k), sun0(k + w), { let mut x = w; x += k; sun0(x) }), (add(i, kk), add(i, kk), add(i, kk)));
            one(r, n, "Weekday-i32", format!("{:?} {}", w, k), || (sun0(w - k), { let mut x = w; x -= k; sun0(x) }), (add(i, -kk), add(i, -kk)));
        }
        let mut k64: Vec<i64> = (-15..=15).collect();
        for base in [i64::MIN as i128, i64::MAX as i128, i32::MIN as i128, i32::MAX as i128, 1 << 62, -(1 << 62), 1 << 53, -(1 << 53)] {
            for dlt in -8i128..=8 {
                let v = base + dlt;
                if v >= i64::MIN as i128 && v <= i64::MAX as i128 {
                    k64.push(v as i64);
                }
            }
        }
        for &k in &k64 {
            let kk = k as i128;
            one(r, n, "Weekday::wrapping_add:i64", format!("{:?} {}", w, k), || sun0(w.wrapping_add(k)), add(i, kk));
            one(r, n, "Weekday::wrapping_sub:i64", format!("{:?} {}", w, k), || sun0(w.wrapping_sub(k)), add(i, -kk));
            one(r, n, "Weekday+i64", format!("{:?} {}", w, k), || (sun0(w + k), sun0(k + w), { let mut x = w; x += k; sun0(x) }), (add(i, kk), add(i, kk), add(i, kk)));
            one(r, n, "Weekday-i64", format!("{:?} {}", w, k), || (sun0(w - k), { let mut x = w; x -= k; sun0(x) }), (add(i, -kk), add(i, -kk)));
        }
        *n
    }).sum();
    let n = n + n2;
    r.add_states(n);
    r.add_validated(n);
    r.count("weekday_calls", n);
    r.require(n > 1_800_000, "weekday products enumerated");
}
