//! C01 coverage extension, constructors: the panicking `const` constructors
//! (`Date::constant`, `civil::date`, `DateTime::constant`, `civil::datetime`)
//! must panic exactly when `Date::new` is documented to fail, `DateTime::new`
//! must agree with `Date::new`, and all of them on the full `i8` x `i8`
//! month/day square for a pool of years that includes the `i16` extremes.

use jiff::civil::{self, Date, DateTime};
use rayon::prelude::*;
use refmodel::cal;
use vf::{guard, panic_sig, Report};

/// Years on both sides of every kind of boundary (range ends, `i16` ends,
/// year 0, 4/100/400-year rules).
pub fn edge_years() -> Vec<i64> {
    let mut v: Vec<i64> = vec![
        i16::MIN as i64, -32767, -10001, -10000, -9999, -9998, -9997, -9996, -2001, -2000, -1999, -401, -400, -399, -101, -100, -99, -5, -4, -3, -1, 0, 1, 3, 4, 5,
        99, 100, 101, 399, 400, 401, 1899, 1900, 1901, 1969, 1970, 1999, 2000, 2001, 2023, 2024, 2100, 9995, 9996, 9997, 9998, 9999, 10000, 10001, 32766, i16::MAX as i64,
    ];
    v.sort();
    v.dedup();
    v
}

#[derive(Clone, Copy)]
enum Api {
    DateConstant,
    DateFn,
    DateTimeConstant,
    DateTimeFn,
}

impl Api {
    fn name(self) -> &'static str {
        match self {
            Api::DateConstant => "Date::constant",
            Api::DateFn => "civil::date",
            Api::DateTimeConstant => "DateTime::constant",
            Api::DateTimeFn => "civil::datetime",
        }
    }
    fn call(self, y: i16, m: i8, d: i8) -> (i64, i64, i64) {
        match self {
            Api::DateConstant => vf::conv::date_ymd(Date::constant(y, m, d)),
            Api::DateFn => vf::conv::date_ymd(civil::date(y, m, d)),
            Api::DateTimeConstant => vf::conv::date_ymd(DateTime::constant(y, m, d, 0, 0, 0, 0).date()),
            Api::DateTimeFn => vf::conv::date_ymd(civil::datetime(y, m, d, 0, 0, 0, 0).date()),
        }
    }
}

/// One call of a panicking constructor. Returns (panicked, was_valid).
fn one_const(r: &Report, sec: &str, api: Api, y: i64, m: i64, d: i64) -> bool {
    let want = cal::valid_date(y, m, d);
    // the two sections overlap on the edge years: distinct case strings keep
    // the reported minimal case (and its section) deterministic
    let case = || format!("{}{}({}, {}, {})", if sec == "ctor_edge" { "edge " } else { "" }, api.name(), y, m, d);
    match guard(|| api.call(y as i16, m as i8, d as i8)) {
        Err(p) => {
            if want {
                r.viol(sec, &format!("{}/panic-on-valid-date/{}", api.name(), panic_sig(&p)), case(), p);
            }
            true
        }
        Ok(got) => {
            if !want {
                // input-derived class: the one reason for which the day is
                // invalid although year and month are fine and the day is not
                // above the month's length
                let class = if (cal::MIN_YEAR..=cal::MAX_YEAR).contains(&y) && (1..=12).contains(&m) && d <= 0 { ":day<=0" } else { "" };
                r.viol(sec, &format!("{}/no-panic-on-invalid-date{}", api.name(), class), case(), format!("returned {:?} although Date::new fails (documented: panics when Date::new would return an error)", got));
            } else if got != (y, m, d) {
                r.viol(sec, &format!("{}/fields", api.name()), case(), format!("jiff {:?}", got));
            }
            false
        }
    }
}

fn one_new(r: &Report, sec: &str, y: i64, m: i64, d: i64) -> bool {
    let want = cal::valid_date(y, m, d);
    let case = || format!("edge {}-{}-{}", y, m, d);
    match guard(|| (Date::new(y as i16, m as i8, d as i8).ok().map(vf::conv::date_ymd), DateTime::new(y as i16, m as i8, d as i8, 0, 0, 0, 0).ok().map(|x| vf::conv::date_ymd(x.date())))) {
        Err(p) => r.viol(sec, &format!("Date::new/{}", panic_sig(&p)), case(), p),
        Ok((g, gdt)) => {
            let w = if want { Some((y, m, d)) } else { None };
            if g != w {
                r.viol(sec, if g.is_some() != want { "Date::new/validity" } else { "Date::new/fields" }, case(), format!("jiff {:?} model {:?}", g, w));
            }
            if gdt != w {
                r.viol(sec, if gdt.is_some() != want { "DateTime::new/validity" } else { "DateTime::new/fields" }, case(), format!("jiff {:?} model {:?}", gdt, w));
            }
        }
    }
    want
}

pub fn run_const(r: &Report) {
    // (a) Date::constant on the complete (y, m, d) cube of the `ctor` section.
    let ys: Vec<i64> = (-10000..=10000).collect();
    let edge = edge_years();
    let full = r.thorough();
    // quick tier: every year x every month number x the day numbers around
    // both ends of every month length; the complete cube for the edge years.
    // thorough tier: the complete cube for all four spellings.
    let quick_days: [i64; 11] = [-1, 0, 1, 2, 27, 28, 29, 30, 31, 32, 33];
    let (n, panics, oks): (u64, u64, u64) = ys
        .par_iter()
        .map(|&y| {
            let (mut n, mut p, mut k) = (0u64, 0u64, 0u64);
            let others = full || edge.contains(&y);
            for m in -1..=14i64 {
                for d in -1..=33i64 {
                    if !others && !quick_days.contains(&d) {
                        continue;
                    }
                    n += 1;
                    if one_const(r, "ctor_const", Api::DateConstant, y, m, d) {
                        p += 1;
                    } else {
                        k += 1;
                    }
                    // DateTime::new never panics: always on the full cube
                    one_new_dt_only(r, y, m, d);
                    n += 1;
                    if others {
                        for api in [Api::DateFn, Api::DateTimeConstant, Api::DateTimeFn] {
                            n += 1;
                            if one_const(r, "ctor_const", api, y, m, d) {
                                p += 1;
                            } else {
                                k += 1;
                            }
                        }
                    }
                }
            }
            (n, p, k)
        })
        .reduce(|| (0, 0, 0), |a, b| (a.0 + b.0, a.1 + b.1, a.2 + b.2));
    r.add_states(n);
    r.add_validated(n);
    r.count("ctor_const_calls", n);
    r.count("ctor_const_panics", panics);
    r.count("ctor_const_returns", oks);
    r.outcome("const_ctor_panicked", panics);
    r.outcome("const_ctor_returned", oks);
    r.require(panics > 1_000_000 && oks >= 1_000_000, "panicking constructors both panicked and returned");
}

fn one_new_dt_only(r: &Report, y: i64, m: i64, d: i64) {
    let want = if cal::valid_date(y, m, d) { Some((y, m, d)) } else { None };
    match guard(|| DateTime::new(y as i16, m as i8, d as i8, 0, 0, 0, 0).ok().map(|x| vf::conv::date_ymd(x.date()))) {
        Err(p) => r.viol("ctor_const", &format!("DateTime::new/{}", panic_sig(&p)), format!("{}-{}-{}", y, m, d), p),
        Ok(g) => {
            if g != want {
                r.viol("ctor_const", if g.is_some() != want.is_some() { "DateTime::new/validity" } else { "DateTime::new/fields" }, format!("{}-{}-{}", y, m, d), format!("jiff {:?} model {:?}", g, want));
            }
        }
    }
}

/// (b) the full `i8` x `i8` square of (month, day) for the edge years, for
/// every constructor (catches anything that wraps, casts to unsigned, or only
/// tests one side of a range).
const EDGE_M: [i64; 12] = [-128, -127, -12, -1, 0, 1, 2, 11, 12, 13, 126, 127];
const EDGE_D: [i64; 16] = [-128, -127, -31, -28, -1, 0, 1, 27, 28, 29, 30, 31, 32, 33, 126, 127];

pub fn run_edge(r: &Report) {
    let full = r.thorough();
    let edge = edge_years();
    let items: Vec<(i64, i64)> = edge.iter().flat_map(|&y| (i8::MIN as i64..=i8::MAX as i64).map(move |m| (y, m))).collect();
    let (n, valid): (u64, u64) = items
        .par_iter()
        .map(|&(y, m)| {
            let (mut n, mut v) = (0u64, 0u64);
            for d in i8::MIN as i64..=i8::MAX as i64 {
                // the non-panicking constructors: the full square
                n += 2;
                if one_new(r, "ctor_edge", y, m, d) {
                    v += 1;
                }
                // the panicking ones (a panic costs about a microsecond and
                // unwinding does not run in parallel): Date::constant on the
                // full square in the thorough tier; otherwise the cross
                // {all months} x {edge days} + {edge months} x {all days}
                let cross = EDGE_M.contains(&m) || EDGE_D.contains(&d);
                if cross || full {
                    n += 1;
                    one_const(r, "ctor_edge", Api::DateConstant, y, m, d);
                }
                if cross {
                    for api in [Api::DateFn, Api::DateTimeConstant, Api::DateTimeFn] {
                        n += 1;
                        one_const(r, "ctor_edge", api, y, m, d);
                    }
                }
            }
            (n, v)
        })
        .reduce(|| (0, 0), |a, b| (a.0 + b.0, a.1 + b.1));
    r.add_states(n);
    r.add_validated(n);
    r.count("ctor_edge_calls", n);
    r.count("ctor_edge_valid", valid);
    r.require(valid > 15_000, "edge-year square contains valid dates");
}
