//! C01 coverage extension: the `Date::with()` builder (and `DateTime::with()`
//! for its date fields). Complete products per setter against the reference
//! calendar: the n-th day of a year is found in a table written out from the
//! literal month lengths.

use jiff::civil::{Date, DateTime, Era, Time};
use rayon::prelude::*;
use refmodel::cal;
use vf::{guard, panic_sig, Report};

type Ymd = (i64, i64, i64);

/// (month, day) of the 1-based ordinal days of year `y`; index 0 is day 1.
pub fn year_table(y: i64) -> Vec<(i64, i64)> {
    let mut v = Vec::with_capacity(366);
    for m in 1..=12 {
        for d in 1..=cal::days_in_month(y, m) {
            v.push((m, d));
        }
    }
    v
}

fn cmp(r: &Report, sig_op: &str, case: impl Fn() -> String, got: Result<Result<Ymd, jiff::Error>, String>, want: Option<Ymd>) {
    match got {
        Err(p) => r.viol("with", &format!("{}/{}", sig_op, panic_sig(&p)), case(), p),
        Ok(g) => {
            let gv = g.as_ref().ok().copied();
            if gv != want {
                let class = match (gv, want) {
                    (Some(_), None) => "accepted-invalid",
                    (None, Some(_)) => "rejected-valid",
                    _ => "value",
                };
                r.viol("with", &format!("{}/{}", sig_op, class), case(), format!("jiff {:?} model {:?}", g, want));
            }
        }
    }
}

fn b(x: Result<Date, jiff::Error>) -> Result<Ymd, jiff::Error> {
    x.map(vf::conv::date_ymd)
}
fn bdt(x: Result<DateTime, jiff::Error>, t: Time) -> Result<Ymd, jiff::Error> {
    match x {
        Err(e) => Err(e),
        Ok(v) => {
            if v.time() != t {
                // poison: the time of day must be untouched
                Ok((i64::MIN, 0, 0))
            } else {
                Ok(vf::conv::date_ymd(v.date()))
            }
        }
    }
}

pub fn run(r: &Report) {
    let t = Time::new(13, 14, 15, 123_456_789).unwrap();
    let leap_orig = Date::new(2024, 2, 29).unwrap();
    let mut doys: Vec<i64> = (-2..=369).collect();
    doys.extend_from_slice(&[i16::MIN as i64, i16::MIN as i64 + 1, -366, -365, -60, 730, 731, 732, 1000, i16::MAX as i64 - 1, i16::MAX as i64]);
    let years: Vec<i64> = (cal::MIN_YEAR..=cal::MAX_YEAR).collect();

    // ---- day_of_year / day_of_year_no_leap: every year x every ordinal ------
    let (n, ok, err): (u64, u64, u64) = years
        .par_iter()
        .map(|&y| {
            let tab = year_table(y);
            let leap = cal::is_leap(y);
            let jan1 = Date::new(y as i16, 1, 1).unwrap();
            let dec31 = Date::new(y as i16, 12, 31).unwrap();
            let (mut n, mut ok, mut err) = (0u64, 0u64, 0u64);
            for &k in &doys {
                let k16 = k as i16;
                // day_of_year
                let want = if k >= 1 && k <= tab.len() as i64 { Some((y, tab[(k - 1) as usize].0, tab[(k - 1) as usize].1)) } else { None };
                if want.is_some() {
                    ok += 1;
                } else {
                    err += 1;
                }
                let case = |v: &str| format!("{} y={} doy={}", v, y, k);
                cmp(r, "DateWith::day_of_year", || case("from-jan1"), guard(|| b(jan1.with().day_of_year(k16).build())), want);
                cmp(r, "DateWith::day_of_year", || case("from-dec31"), guard(|| b(dec31.with().day_of_year(k16).build())), want);
                cmp(r, "DateWith::day_of_year", || case("year-then-doy"), guard(|| b(leap_orig.with().year(y as i16).day_of_year(k16).build())), want);
                cmp(r, "DateWith::day_of_year", || case("doy-then-year"), guard(|| b(leap_orig.with().day_of_year(k16).year(y as i16).build())), want);
                cmp(r, "DateTimeWith::day_of_year", || case("datetime"), guard(|| bdt(jan1.to_datetime(t).with().day_of_year(k16).build(), t)), want);
                // day_of_year_no_leap: 1..=365, Feb 29 is never produced
                let want_nl = if (1..=365).contains(&k) {
                    let idx = if leap && k >= 60 { k + 1 } else { k };
                    Some((y, tab[(idx - 1) as usize].0, tab[(idx - 1) as usize].1))
                } else {
                    None
                };
                cmp(r, "DateWith::day_of_year_no_leap", || case("from-jan1"), guard(|| b(jan1.with().day_of_year_no_leap(k16).build())), want_nl);
                cmp(r, "DateWith::day_of_year_no_leap", || case("from-dec31"), guard(|| b(dec31.with().day_of_year_no_leap(k16).build())), want_nl);
                cmp(r, "DateWith::day_of_year_no_leap", || case("year-then-doy"), guard(|| b(leap_orig.with().year(y as i16).day_of_year_no_leap(k16).build())), want_nl);
                cmp(r, "DateTimeWith::day_of_year_no_leap", || case("datetime"), guard(|| bdt(jan1.to_datetime(t).with().day_of_year_no_leap(k16).build(), t)), want_nl);
                n += 9;
            }
            // the accessors are the inverse of the setters on every date of the year
            for (i, &(m, d)) in tab.iter().enumerate() {
                let dd = Date::new(y as i16, m as i8, d as i8).unwrap();
                n += 2;
                let got = guard(|| b(jan1.with().day_of_year(dd.day_of_year()).build()));
                cmp(r, "DateWith::day_of_year(accessor)", || format!("{}", dd), got, Some((y, m, d)));
                let _ = i;
                match guard(|| dd.day_of_year_no_leap()) {
                    Err(p) => r.viol("with", &format!("Date::day_of_year_no_leap/{}", panic_sig(&p)), format!("{}", dd), p),
                    Ok(None) => {
                        if !(m == 2 && d == 29) {
                            r.viol("with", "Date::day_of_year_no_leap/none-off-feb29", format!("{}", dd), "None");
                        }
                    }
                    Ok(Some(k)) => {
                        let got = guard(|| b(jan1.with().day_of_year_no_leap(k).build()));
                        cmp(r, "DateWith::day_of_year_no_leap(accessor)", || format!("{}", dd), got, Some((y, m, d)));
                    }
                }
            }
            (n, ok, err)
        })
        .reduce(|| (0, 0, 0), |a, b| (a.0 + b.0, a.1 + b.1, a.2 + b.2));
    r.add_states(n);
    r.add_validated(n);
    r.count("with_doy_calls", n);
    r.outcome("with_doy_ok", ok);
    r.outcome("with_doy_err", err);
    r.require(ok == 7_304_484, "with().day_of_year reaches every date exactly once per spelling");

    // ---- year / era_year: every (month, day) of a leap year x every year -----
    let md: Vec<(i64, i64)> = year_table(2024);
    let mut tys: Vec<i64> = (-10001..=10001).collect();
    tys.extend_from_slice(&[i16::MIN as i64, i16::MIN as i64 + 1, -20000, 20000, i16::MAX as i64 - 1, i16::MAX as i64]);
    let (n, ok, err): (u64, u64, u64) = tys
        .par_iter()
        .map(|&y2| {
            let (mut n, mut ok, mut err) = (0u64, 0u64, 0u64);
            for &(m, d) in &md {
                let o = Date::new(2024, m as i8, d as i8).unwrap();
                let want = if cal::valid_date(y2, m, d) { Some((y2, m, d)) } else { None };
                if want.is_some() {
                    ok += 1;
                } else {
                    err += 1;
                }
                cmp(r, "DateWith::year", || format!("{} year={}", o, y2), guard(|| b(o.with().year(y2 as i16).build())), want);
                n += 1;
                // era_year: CE 1..=9999 is the year itself; BCE 1..=10000 is year 1 - n
                for (era, name) in [(Era::CE, "CE"), (Era::BCE, "BCE")] {
                    let yy = match era {
                        Era::CE if (1..=9999).contains(&y2) => Some(y2),
                        Era::BCE if (1..=10000).contains(&y2) => Some(1 - y2),
                        _ => None,
                    };
                    let want = yy.filter(|&yy| cal::valid_date(yy, m, d)).map(|yy| (yy, m, d));
                    cmp(r, "DateWith::era_year", || format!("{} era_year={} {}", o, y2, name), guard(|| b(o.with().era_year(y2 as i16, era).build())), want);
                    n += 1;
                }
            }
            // the latest year setter wins; DateTime spelling
            let o = Date::new(2024, 7, 2).unwrap();
            let w = if cal::valid_date(y2, 7, 2) { Some((y2, 7, 2)) } else { None };
            cmp(r, "DateWith::year", || format!("era_year-then-year {}", y2), guard(|| b(o.with().era_year(1900, Era::CE).year(y2 as i16).build())), w);
            cmp(r, "DateTimeWith::year", || format!("datetime year={}", y2), guard(|| bdt(o.to_datetime(t).with().year(y2 as i16).build(), t)), w);
            let wce = if (1..=9999).contains(&y2) { Some((y2, 7, 2)) } else { None };
            cmp(r, "DateWith::era_year", || format!("year-then-era_year {} CE", y2), guard(|| b(o.with().year(2000).era_year(y2 as i16, Era::CE).build())), wce);
            cmp(r, "DateTimeWith::era_year", || format!("datetime era_year={} CE", y2), guard(|| bdt(o.to_datetime(t).with().era_year(y2 as i16, Era::CE).build(), t)), wce);
            n += 4;
            (n, ok, err)
        })
        .reduce(|| (0, 0, 0), |a, b| (a.0 + b.0, a.1 + b.1, a.2 + b.2));
    r.add_states(n);
    r.add_validated(n);
    r.count("with_year_calls", n);
    r.outcome("with_year_ok", ok);
    r.outcome("with_year_err", err);
    r.require(ok == 7_304_484 && err > 0, "with().year reaches every date exactly once");

    // ---- month / day --------------------------------------------------------
    let mut m2s: Vec<i64> = (-1..=14).collect();
    m2s.extend_from_slice(&[i8::MIN as i64, -12, 24, i8::MAX as i64]);
    let mut d2s: Vec<i64> = (-1..=33).collect();
    d2s.extend_from_slice(&[i8::MIN as i64, -31, -28, 60, i8::MAX as i64]);
    let (n, ok, err): (u64, u64, u64) = years
        .par_iter()
        .map(|&y| {
            let (mut n, mut ok, mut err) = (0u64, 0u64, 0u64);
            // month: every day number from a January original (31 days, so
            // every day number is a valid original), plus the first and last
            // day of every other month as the original
            let mut origs: Vec<(i64, i64)> = (1..=31).map(|d| (1, d)).collect();
            for m in 2..=12 {
                origs.push((m, 1));
                origs.push((m, cal::days_in_month(y, m)));
            }
            for &(m, d) in &origs {
                let o = Date::new(y as i16, m as i8, d as i8).unwrap();
                for &m2 in &m2s {
                    let want = if cal::valid_date(y, m2, d) { Some((y, m2, d)) } else { None };
                    if want.is_some() {
                        ok += 1;
                    } else {
                        err += 1;
                    }
                    cmp(r, "DateWith::month", || format!("{} month={}", o, m2), guard(|| b(o.with().month(m2 as i8).build())), want);
                    n += 1;
                }
            }
            // day: every month, from its first and last day
            for m in 1..=12 {
                let last = cal::days_in_month(y, m);
                for od in [1, last] {
                    let o = Date::new(y as i16, m as i8, od as i8).unwrap();
                    for &d2 in &d2s {
                        let want = if cal::valid_date(y, m, d2) { Some((y, m, d2)) } else { None };
                        if want.is_some() {
                            ok += 1;
                        } else {
                            err += 1;
                        }
                        cmp(r, "DateWith::day", || format!("{} day={}", o, d2), guard(|| b(o.with().day(d2 as i8).build())), want);
                        n += 1;
                    }
                }
                let o = Date::new(y as i16, m as i8, 1).unwrap();
                for &d2 in &[0i64, 1, 28, 29, 30, 31, 32] {
                    let want = if cal::valid_date(y, m, d2) { Some((y, m, d2)) } else { None };
                    cmp(r, "DateTimeWith::day", || format!("datetime {} day={}", o, d2), guard(|| bdt(o.to_datetime(t).with().day(d2 as i8).build(), t)), want);
                    n += 1;
                }
                for &m2 in &[0i64, 1, 2, 12, 13] {
                    let o = Date::new(y as i16, m as i8, last as i8).unwrap();
                    let want = if cal::valid_date(y, m2, last) { Some((y, m2, last)) } else { None };
                    cmp(r, "DateTimeWith::month", || format!("datetime {} month={}", o, m2), guard(|| bdt(o.to_datetime(t).with().month(m2 as i8).build(), t)), want);
                    n += 1;
                }
            }
            (n, ok, err)
        })
        .reduce(|| (0, 0, 0), |a, b| (a.0 + b.0, a.1 + b.1, a.2 + b.2));
    r.add_states(n);
    r.add_validated(n);
    r.count("with_month_day_calls", n);
    r.outcome("with_month_day_ok", ok);
    r.outcome("with_month_day_err", err);
    r.require(ok > 0 && err > 0, "with().month/day both accept and refuse");

    // ---- all three fields set, in every order: same acceptance as Date::new --
    let ys: Vec<i64> = (-10000..=10000).collect();
    let n: u64 = ys
        .par_iter()
        .map(|&y| {
            let mut n = 0u64;
            let o = Date::ZERO;
            for m in -1..=14i64 {
                for d in -1..=33i64 {
                    let want = if cal::valid_date(y, m, d) { Some((y, m, d)) } else { None };
                    let (yy, mm, dd) = (y as i16, m as i8, d as i8);
                    let ord = (y + m + d).rem_euclid(6);
                    let got = guard(|| {
                        b(match ord {
                            0 => o.with().year(yy).month(mm).day(dd).build(),
                            1 => o.with().year(yy).day(dd).month(mm).build(),
                            2 => o.with().month(mm).year(yy).day(dd).build(),
                            3 => o.with().month(mm).day(dd).year(yy).build(),
                            4 => o.with().day(dd).year(yy).month(mm).build(),
                            _ => o.with().day(dd).month(mm).year(yy).build(),
                        })
                    });
                    cmp(r, "DateWith::year+month+day", || format!("order{} {}-{}-{}", ord, y, m, d), got, want);
                    n += 1;
                }
            }
            n
        })
        .sum();
    r.add_states(n);
    r.add_validated(n);
    r.count("with_ymd_calls", n);

    // ---- override rules (documented): the latest day setter wins, a month
    // setting is ignored with an ordinal day ----------------------------------
    let mut n = 0u64;
    let mut excluded = 0u64;
    for o in vf::pools::dates() {
        let y = o.year() as i64;
        let tab = year_table(y);
        let leap = cal::is_leap(y);
        for &k in &[1i64, 59, 60, 61, 365, 366] {
            let doy = if k <= tab.len() as i64 { Some((y, tab[(k - 1) as usize].0, tab[(k - 1) as usize].1)) } else { None };
            let nl = if k <= 365 {
                let idx = if leap && k >= 60 { k + 1 } else { k };
                Some((y, tab[(idx - 1) as usize].0, tab[(idx - 1) as usize].1))
            } else {
                None
            };
            for m2 in 1..=12i8 {
                cmp(r, "DateWith::day_of_year/month-ignored", || format!("{} month={} doy={}", o, m2, k), guard(|| b(o.with().month(m2).day_of_year(k as i16).build())), doy);
                cmp(r, "DateWith::day_of_year/month-ignored", || format!("{} doy={} month={}", o, k, m2), guard(|| b(o.with().day_of_year(k as i16).month(m2).build())), doy);
                cmp(r, "DateWith::day_of_year_no_leap/month-ignored", || format!("{} month={} doy_nl={}", o, m2, k), guard(|| b(o.with().month(m2).day_of_year_no_leap(k as i16).build())), nl);
                n += 3;
            }
            // an out-of-range month together with an ordinal day: "ignored"
            // is not spelled out for invalid months; excluded, only totality
            for m2 in [0i8, 13] {
                excluded += 1;
                if let Err(p) = guard(|| o.with().month(m2).day_of_year(k as i16).build().is_ok()) {
                    r.viol("with", &format!("DateWith::day_of_year/{}", panic_sig(&p)), format!("{} month={} doy={}", o, m2, k), p);
                }
            }
            for d2 in [1i8, 15, 28] {
                let dom = Some((y, o.month() as i64, d2 as i64));
                cmp(r, "DateWith::day/overrides-ordinal", || format!("{} doy={} day={}", o, k, d2), guard(|| b(o.with().day_of_year(k as i16).day(d2).build())), dom);
                cmp(r, "DateWith::day/overrides-ordinal", || format!("{} doy_nl={} day={}", o, k, d2), guard(|| b(o.with().day_of_year_no_leap(k as i16).day(d2).build())), dom);
                cmp(r, "DateWith::day_of_year/overrides-day", || format!("{} day={} doy={}", o, d2, k), guard(|| b(o.with().day(d2).day_of_year(k as i16).build())), doy);
                cmp(r, "DateWith::day_of_year_no_leap/overrides-day", || format!("{} day={} doy_nl={}", o, d2, k), guard(|| b(o.with().day(d2).day_of_year_no_leap(k as i16).build())), nl);
                n += 4;
            }
            cmp(r, "DateWith::day_of_year/overrides-no_leap", || format!("{} doy_nl=1 doy={}", o, k), guard(|| b(o.with().day_of_year_no_leap(1).day_of_year(k as i16).build())), doy);
            cmp(r, "DateWith::day_of_year_no_leap/overrides-doy", || format!("{} doy=1 doy_nl={}", o, k), guard(|| b(o.with().day_of_year(1).day_of_year_no_leap(k as i16).build())), nl);
            n += 2;
        }
        // no setter at all: identity
        cmp(r, "DateWith::build/identity", || format!("{}", o), guard(|| b(o.with().build())), Some(vf::conv::date_ymd(o)));
        n += 1;
    }
    r.add_states(n);
    r.add_validated(n);
    r.count("with_override_calls", n);
    r.count("with_excluded_invalid_month_with_ordinal", excluded);
}
