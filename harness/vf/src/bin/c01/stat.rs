//! C01 coverage extension for jiff-static's generated copy of
//! `shared/util/itime.rs` (compiled into this binary with `#[path]`; nothing
//! else in the harness reaches that copy): every `pub(crate)` calendar routine
//! of the file, on every date, against the successor machine.

use super::shared::util::itime::{self, IDate, IDateTime, IEpochDay, IOffset, ITime, ITimeNanosecond, ITimeSecond, ITimestamp, IWeekday};
use rayon::prelude::*;
use refmodel::cal::{self, Succ};
use vf::{guard, panic_sig, Report};

fn ymd(t: IDate) -> (i64, i64, i64) {
    (t.year as i64, t.month as i64, t.day as i64)
}

/// n-th `wd` (0 = Sunday) of the month whose first day is epoch day `e0` and
/// which has `len` days, by counting through the month.
pub fn nth_of_month_model(e0: i64, len: i64, nth: i64, wd: u8) -> Option<i64> {
    if nth > 0 {
        let mut c = 0;
        for k in 0..len {
            if cal::weekday_from_days(e0 + k) == wd {
                c += 1;
                if c == nth {
                    return Some(e0 + k);
                }
            }
        }
        None
    } else if nth < 0 {
        let mut c = 0;
        for k in (0..len).rev() {
            if cal::weekday_from_days(e0 + k) == wd {
                c -= 1;
                if c == nth {
                    return Some(e0 + k);
                }
            }
        }
        None
    } else {
        None
    }
}

const NTHS: [i64; 18] = [-128, -127, -7, -6, -5, -4, -3, -2, -1, 0, 1, 2, 3, 4, 5, 6, 7, 127];
const OFFS: [i32; 5] = [0, 93_599, -93_599, 1, -1];
const NS: i128 = 1_000_000_000;

/// Lower bound of the comparisons made per date by [`check_idate_ext`]
/// (2 year steps, 7 x 2 day additions, 12 x 3 timestamp conversions, 18 x 2 second additions).
pub const N_STATIC_EXT: u64 = 88;

pub fn check_idate_ext(r: &Report, s: &Succ, min: i64, max: i64, all: bool) {
    let case = || format!("{} {:04}-{:02}-{:02}", super::PFX, s.y, s.m, s.d);
    let nx = s.next();
    let pv = s.prev();
    let res = guard(|| -> Vec<(&'static str, String)> {
        let mut bad = vec![];
        macro_rules! chk {
            ($name:expr, $got:expr, $want:expr) => {
                let g = $got;
                let w = $want;
                if g != w {
                    bad.push(($name, format!("jiff-static {:?} model {:?}", g, w)));
                }
            };
        }
        let d = IDate { year: s.y as i16, month: s.m as i8, day: s.d as i8 };
        let e = s.epoch_day;
        let dim = cal::days_in_month(s.y, s.m);
        // try_new: the documented contract is year, month valid and day >= 1
        if s.d == 1 {
            for dd in 1..=127i64 {
                let got = IDate::try_new(s.y as i16, s.m as i8, dd as i8).ok().map(ymd);
                let want = if dd <= dim { Some((s.y, s.m, dd)) } else { None };
                if got != want {
                    bad.push(("try_new", format!("day={} jiff-static {:?} model {:?}", dd, got, want)));
                    break;
                }
            }
        }
        if s.doy == 1 {
            chk!("days_in_year", itime::days_in_year(s.y as i16) as i64, cal::days_in_year(s.y));
            // from_day_of_year / from_day_of_year_no_leap: every ordinal
            let tab = crate::with::year_table(s.y);
            let leap = cal::is_leap(s.y);
            let mut ks: Vec<i64> = (-2..=369).collect();
            ks.extend_from_slice(&[i16::MIN as i64, -366, -365, 731, 732, i16::MAX as i64]);
            for &k in &ks {
                let want = if k >= 1 && k <= tab.len() as i64 { Some((s.y, tab[(k - 1) as usize].0, tab[(k - 1) as usize].1)) } else { None };
                let got = IDate::from_day_of_year(s.y as i16, k as i16).ok().map(ymd);
                if got != want {
                    bad.push(("from_day_of_year", format!("doy={} jiff-static {:?} model {:?}", k, got, want)));
                }
                let want = if (1..=365).contains(&k) {
                    let idx = if leap && k >= 60 { k + 1 } else { k };
                    Some((s.y, tab[(idx - 1) as usize].0, tab[(idx - 1) as usize].1))
                } else {
                    None
                };
                let got = IDate::from_day_of_year_no_leap(s.y as i16, k as i16).ok().map(ymd);
                if got != want {
                    bad.push(("from_day_of_year_no_leap", format!("doy={} jiff-static {:?} model {:?}", k, got, want)));
                }
            }
        }
        // nth weekday of the month: must not depend on the day of the month
        if s.d == 1 || s.d == 15 || s.d == dim {
            let e0 = e - (s.d - 1);
            for &nth in &NTHS {
                // out-of-domain nth (an error message each) from the first day only
                if s.d != 1 && !(1..=5).contains(&nth.abs()) {
                    continue;
                }
                for wd in 0..7u8 {
                    let want = nth_of_month_model(e0, dim, nth, wd);
                    let got = d
                        .nth_weekday_of_month(nth as i8, IWeekday::from_sunday_zero_offset(wd as i8))
                        .ok()
                        .map(|t| if cal::valid_date(t.year as i64, t.month as i64, t.day as i64) { cal::days_from_civil(t.year as i64, t.month as i64, t.day as i64) } else { i64::MIN });
                    if got != want {
                        bad.push(("nth_weekday_of_month", format!("nth={} wd={} jiff-static {:?} model {:?}", nth, wd, got, want)));
                    }
                }
            }
        }
        // prev_year / next_year
        chk!("prev_year", d.prev_year().ok().map(|y| y as i64), if s.y - 1 >= cal::MIN_YEAR { Some(s.y - 1) } else { None });
        chk!("next_year", d.next_year().ok().map(|y| y as i64), if s.y + 1 <= cal::MAX_YEAR { Some(s.y + 1) } else { None });
        // checked_add_days and IEpochDay::checked_add: fast paths, generic
        // path, both ends of the range exactly and one beyond, i32 extremes
        let n2 = nx.next();
        let p2 = pv.prev();
        let cases: [(i64, Option<(i64, i64, i64)>); 11] = [
            (0, Some((s.y, s.m, s.d))),
            (1, if e + 1 <= max { Some((nx.y, nx.m, nx.d)) } else { None }),
            (-1, if e - 1 >= min { Some((pv.y, pv.m, pv.d)) } else { None }),
            (2, if e + 2 <= max { Some((n2.y, n2.m, n2.d)) } else { None }),
            (-2, if e - 2 >= min { Some((p2.y, p2.m, p2.d)) } else { None }),
            (max - e, Some((cal::MAX_YEAR, 12, 31))),
            (max - e + 1, None),
            (min - e, Some((cal::MIN_YEAR, 1, 1))),
            (min - e - 1, None),
            (i32::MAX as i64, None),
            (i32::MIN as i64, None),
        ];
        // the refusals build an error message each (slow): in the quick tier
        // they are taken from the first day of every month only
        for (idx, &(k, want)) in cases.iter().enumerate() {
            let refusal_only = idx == 6 || idx >= 8;
            if refusal_only && !(all || s.d == 1) {
                continue;
            }
            let got = d.checked_add_days(k as i32).ok().map(ymd);
            if got != want {
                bad.push(("checked_add_days", format!("days={} jiff-static {:?} model {:?}", k, got, want)));
            }
            let got = IEpochDay { epoch_day: e as i32 }.checked_add(k as i32).ok().map(|x| x.epoch_day as i64);
            let want_e = want.map(|_| e + k);
            if got != want_e {
                bad.push(("IEpochDay::checked_add", format!("days={} jiff-static {:?} model {:?}", k, got, want_e)));
            }
        }
        // civil datetime <-> timestamp under an offset (second truncated toward
        // zero, nanosecond of the same sign), and the range check
        let ts_min: i128 = (cal::min_day() as i128 * 86_400 + 93_599) * NS;
        let ts_max: i128 = ((cal::max_day() as i128 + 1) * 86_400 - 93_600) * NS + (NS - 1);
        for &(h, mi, se) in &[(0i8, 0i8, 0i8), (23, 59, 59)] {
            let sod = h as i128 * 3600 + mi as i128 * 60 + se as i128;
            for &ns in &[0i32, 999_999_999] {
                let dt = IDateTime { date: d, time: ITime { hour: h, minute: mi, second: se, subsec_nanosecond: ns } };
                for &off in &OFFS[..3] {
                    let total = (e as i128 * 86_400 + sod - off as i128) * NS + ns as i128;
                    let q = total / NS; // truncates toward zero
                    let want_ts = (q as i64, (total - q * NS) as i32);
                    let ts = dt.to_timestamp(IOffset { second: off });
                    if (ts.second, ts.nanosecond) != want_ts {
                        bad.push(("IDateTime::to_timestamp", format!("{:?} off={} jiff-static {:?} model {:?}", dt, off, ts, want_ts)));
                    }
                    let chk = dt.to_timestamp_checked(IOffset { second: off }).map(|t| (t.second, t.nanosecond));
                    let want_chk = if total >= ts_min && total <= ts_max { Some(want_ts) } else { None };
                    if chk != want_chk {
                        bad.push(("IDateTime::to_timestamp_checked", format!("{:?} off={} jiff-static {:?} model {:?}", dt, off, chk, want_chk)));
                    }
                    let back = ITimestamp { second: want_ts.0, nanosecond: want_ts.1 }.to_datetime(IOffset { second: off });
                    if back != dt {
                        bad.push(("ITimestamp::to_datetime", format!("ts={:?} off={} jiff-static {:?} model {:?}", want_ts, off, back, dt)));
                    }
                }
            }
            // checked/saturating_add_seconds (whole seconds; the routine is
            // specified on second precision)
            let dt = IDateTime { date: d, time: ITime { hour: h, minute: mi, second: se, subsec_nanosecond: 0 } };
            for &k in &[0i64, 1, -1, 86_399, -86_399, 86_400, -86_400, 86_401, -86_401] {
                let t = sod as i64 + k;
                let (dd, ss) = (t.div_euclid(86_400), t.rem_euclid(86_400));
                let day = match dd {
                    0 => Some(*s),
                    1 => if e + 1 <= max { Some(nx) } else { None },
                    -1 => if e - 1 >= min { Some(pv) } else { None },
                    2 => if e + 2 <= max { Some(n2) } else { None },
                    -2 => if e - 2 >= min { Some(p2) } else { None },
                    _ => unreachable!(),
                };
                let want = day.map(|x| ((x.y, x.m, x.d), (ss / 3600, ss / 60 % 60, ss % 60, 0i64)));
                let f = |x: IDateTime| (ymd(x.date), (x.time.hour as i64, x.time.minute as i64, x.time.second as i64, x.time.subsec_nanosecond as i64));
                let got = dt.checked_add_seconds(k as i32).ok().map(f);
                if got != want {
                    bad.push(("IDateTime::checked_add_seconds", format!("{:?} seconds={} jiff-static {:?} model {:?}", dt, k, got, want)));
                }
                let want_sat = want.unwrap_or(if k < 0 { ((cal::MIN_YEAR, 1, 1), (0, 0, 0, 0)) } else { ((cal::MAX_YEAR, 12, 31), (23, 59, 59, 999_999_999)) });
                let got = f(dt.saturating_add_seconds(k as i32));
                if got != want_sat {
                    bad.push(("IDateTime::saturating_add_seconds", format!("{:?} seconds={} jiff-static {:?} model {:?}", dt, k, got, want_sat)));
                }
            }
        }
        bad
    });
    match res {
        Err(p) => r.viol(super::SEC, &format!("{}/{}", super::PFX, panic_sig(&p)), case(), p),
        Ok(bad) => {
            for (name, detail) in bad {
                r.viol(super::SEC, &format!("{}/{}", super::PFX, name), case(), detail);
            }
        }
    }
}

/// The small closed alphabets of the file: weekday numbering, clock time
/// decompositions, leap years and month lengths for every `i16` year the
/// range allows.
pub fn run_small(r: &Report) {
    let mut n = 0u64;
    let res = guard(|| {
        let mut bad: Vec<(&'static str, String)> = vec![];
        // IWeekday: index 0 = Sunday in the model
        for a in 0..7i64 {
            n += 1;
            let w = IWeekday::from_sunday_zero_offset(a as i8);
            let mon0 = (a + 6) % 7;
            if (w.to_monday_zero_offset() as i64, w.to_monday_one_offset() as i64) != (mon0, mon0 + 1) {
                bad.push(("IWeekday::from_sunday_zero_offset", format!("{} -> {:?}", a, w)));
            }
            if IWeekday::from_monday_zero_offset(mon0 as i8) != w || IWeekday::from_monday_one_offset(mon0 as i8 + 1) != w {
                bad.push(("IWeekday::from_monday_offset", format!("{} -> {:?}", mon0, w)));
            }
            for b in 0..7i64 {
                n += 1;
                let v = IWeekday::from_sunday_zero_offset(b as i8);
                if w.since(v) as i64 != (a - b).rem_euclid(7) {
                    bad.push(("IWeekday::since", format!("{} since {} = {}", a, b, w.since(v))));
                }
            }
        }
        // clock time <-> second / nanosecond of day
        for sec in 0..86_400i64 {
            n += 1;
            let want = ((sec / 3600) as i8, (sec / 60 % 60) as i8, (sec % 60) as i8);
            let t = ITimeSecond { second: sec as i32 }.to_time();
            if (t.hour, t.minute, t.second, t.subsec_nanosecond) != (want.0, want.1, want.2, 0) {
                bad.push(("ITimeSecond::to_time", format!("{} -> {:?}", sec, t)));
            }
            for ns in [0i32, 1, 999_999_999] {
                let it = ITime { hour: want.0, minute: want.1, second: want.2, subsec_nanosecond: ns };
                if it.to_second().second as i64 != sec {
                    bad.push(("ITime::to_second", format!("{:?} -> {:?}", it, it.to_second())));
                }
                let nn = sec * 1_000_000_000 + ns as i64;
                if it.to_nanosecond().nanosecond != nn {
                    bad.push(("ITime::to_nanosecond", format!("{:?} -> {:?}", it, it.to_nanosecond())));
                }
                let back = ITimeNanosecond { nanosecond: nn }.to_time();
                if back != it {
                    bad.push(("ITimeNanosecond::to_time", format!("{} -> {:?}", nn, back)));
                }
            }
        }
        bad
    });
    r.add_validated(n);
    r.count(&format!("{}_small_cases", super::PFX), n);
    match res {
        Err(p) => r.viol(super::SEC, &format!("{}/{}", super::PFX, panic_sig(&p)), "static small alphabets", p),
        Ok(bad) => {
            for (name, detail) in bad {
                r.viol(super::SEC, &format!("{}/{}", super::PFX, name), detail.clone(), detail);
            }
        }
    }
    // the whole-second walk of one day around both ends of the range and the
    // epoch: every second of the day through to_timestamp/to_datetime
    let days: Vec<i64> = vec![cal::min_day(), cal::min_day() + 1, -1, 0, 1, cal::max_day() - 1, cal::max_day()];
    let m: u64 = days
        .par_iter()
        .map(|&e| {
            let (y, mo, da) = cal::civil_from_days(e);
            let d = IDate { year: y as i16, month: mo as i8, day: da as i8 };
            let mut m = 0u64;
            for sec in 0..86_400i64 {
                for &off in &OFFS {
                    m += 1;
                    let it = ITime { hour: (sec / 3600) as i8, minute: (sec / 60 % 60) as i8, second: (sec % 60) as i8, subsec_nanosecond: 500_000_000 };
                    let dt = IDateTime { date: d, time: it };
                    let total = (e as i128 * 86_400 + sec as i128 - off as i128) * NS + 500_000_000;
                    let want = ((total / NS) as i64, (total % NS) as i32);
                    match guard(|| {
                        let ts = dt.to_timestamp(IOffset { second: off });
                        let back = ITimestamp { second: want.0, nanosecond: want.1 }.to_datetime(IOffset { second: off });
                        ((ts.second, ts.nanosecond), back)
                    }) {
                        Err(p) => r.viol(super::SEC, &format!("{}/{}", super::PFX, panic_sig(&p)), format!("static {:?} off={}", dt, off), p),
                        Ok((ts, back)) => {
                            if ts != want {
                                r.viol(super::SEC, &format!("{}/IDateTime::to_timestamp", super::PFX), format!("static {:?} off={}", dt, off), format!("jiff-static {:?} model {:?}", ts, want));
                            }
                            if back != dt {
                                r.viol(super::SEC, &format!("{}/ITimestamp::to_datetime", super::PFX), format!("static ts={:?} off={}", want, off), format!("jiff-static {:?} model {:?}", back, dt));
                            }
                        }
                    }
                }
            }
            m
        })
        .sum();
    r.add_validated(m * 2);
    r.count(&format!("{}_second_walk_cases", super::PFX), m);
}

pub fn check_idate(r: &Report, s: &Succ, min: i64, max: i64) {
    let case = || format!("{} {:04}-{:02}-{:02}", super::PFX, s.y, s.m, s.d);
    let res = guard(|| -> Vec<(&'static str, String)> {
        let mut bad = vec![];
        let d = match IDate::try_new(s.y as i16, s.m as i8, s.d as i8) {
            Ok(d) => d,
            Err(e) => return vec![("try_new", e.to_string())],
        };
        macro_rules! chk {
            ($name:expr, $got:expr, $want:expr) => {
                let g = $got;
                let w = $want;
                if g != w {
                    bad.push(($name, format!("jiff-static {:?} model {:?}", g, w)));
                }
            };
        }
        chk!("to_epoch_day", d.to_epoch_day().epoch_day as i64, s.epoch_day);
        let back = IEpochDay { epoch_day: s.epoch_day as i32 }.to_date();
        chk!("to_date", (back.year as i64, back.month as i64, back.day as i64), (s.y, s.m, s.d));
        chk!("weekday", (d.weekday().to_monday_one_offset() % 7) as u8, s.wd);
        chk!("epoch_weekday", (IEpochDay { epoch_day: s.epoch_day as i32 }.weekday().to_monday_one_offset() % 7) as u8, s.wd);
        chk!("days_in_month", itime::days_in_month(s.y as i16, s.m as i8) as i64, cal::days_in_month(s.y, s.m));
        chk!("is_leap_year", itime::is_leap_year(s.y as i16), cal::is_leap(s.y));
        let n = s.next();
        let tom = d.tomorrow().ok().map(|t| (t.year as i64, t.month as i64, t.day as i64));
        chk!("tomorrow", tom, if s.epoch_day < max { Some((n.y, n.m, n.d)) } else { None });
        let p = s.prev();
        let yes = d.yesterday().ok().map(|t| (t.year as i64, t.month as i64, t.day as i64));
        chk!("yesterday", yes, if s.epoch_day > min { Some((p.y, p.m, p.d)) } else { None });
        if s.d == 1 {
            for nth in [-5i64, -1, 1, 2, 5] {
                for wd in 0..7u8 {
                    let want = cal::nth_weekday_of_month(s.y, s.m, nth, wd);
                    let got = d
                        .nth_weekday_of_month(nth as i8, IWeekday::from_sunday_zero_offset(wd as i8))
                        .ok()
                        .map(|t| cal::days_from_civil(t.year as i64, t.month as i64, t.day as i64));
                    chk!("nth_weekday_of_month", got, want);
                }
            }
        }
        bad
    });
    match res {
        Err(p) => r.viol(super::SEC, &format!("{}/{}", super::PFX, panic_sig(&p)), case(), p),
        Ok(bad) => {
            for (name, detail) in bad {
                r.viol(super::SEC, &format!("{}/{}", super::PFX, name), case(), detail);
            }
        }
    }
}
