//! C01 coverage extension, per-date facts: the remaining calendar-fact entry
//! points of `civil::Date`, `civil::ISOWeekDate` and the `civil::DateTime`
//! accessors that delegate to `Date`, compared with the successor machine on
//! every one of the 7,304,484 dates.

use jiff::civil::{Date, DateTime, Era, ISOWeekDate, Time, Weekday};
use jiff::{SignedDuration, Span, Unit};
use refmodel::cal::{self, Succ};
use vf::{guard, panic_sig, Report};

/// Number of model predictions compared per date by [`check_date_ext`].
pub const N_EXT_FACTS: u64 = 53;

pub const EXT_FACTS: &str = "Date: since/until/Sub/duration_since/duration_until day counts, Ord/Eq against neighbours and the epoch, From/Into ISOWeekDate, to_datetime/at; ISOWeekDate: from_date, year/week/weekday, first/last_of_week, first/last_of_year, days_in_year, weeks_in_year, in_long_year, tomorrow, yesterday, Ord; DateTime (fixed time 13:14:15.123456789): new, year, month, day, era_year, weekday, day_of_year, day_of_year_no_leap, days_in_month, days_in_year, in_leap_year, first/last_of_month, first/last_of_year, tomorrow, yesterday, iso_week_date, start_of_day, end_of_day, date, time";

/// Monday = 1 .. Sunday = 7, by exhaustive match (independent of jiff's own
/// numbering conversions).
pub fn wd_mon1(w: Weekday) -> i64 {
    match w {
        Weekday::Monday => 1,
        Weekday::Tuesday => 2,
        Weekday::Wednesday => 3,
        Weekday::Thursday => 4,
        Weekday::Friday => 5,
        Weekday::Saturday => 6,
        Weekday::Sunday => 7,
    }
}

pub fn iso3(w: ISOWeekDate) -> (i64, i64, i64) {
    (w.year() as i64, w.week() as i64, wd_mon1(w.weekday()))
}

fn day_span_eq(sp: Span, days: i64) -> bool {
    sp.fieldwise() == Span::new().days(days).fieldwise()
}

pub fn check_date_ext(r: &Report, s: &Succ, epoch: Date, min: i64, max: i64) {
    let case = || format!("{:04}-{:02}-{:02}", s.y, s.m, s.d);
    let nx = s.next();
    let pv = s.prev();
    let res = guard(|| -> Vec<(&'static str, String)> {
        let mut bad = vec![];
        let d = match Date::new(s.y as i16, s.m as i8, s.d as i8) {
            Ok(d) => d,
            Err(e) => return vec![("new", e.to_string())],
        };
        macro_rules! chk {
            ($name:expr, $got:expr, $want:expr) => {
                let g = $got;
                let w = $want;
                if g != w {
                    bad.push(($name, format!("jiff {:?} model {:?}", g, w)));
                }
            };
        }
        let e = s.epoch_day;
        // ---- the day count in its other public spellings --------------------
        chk!("Date::since(Day)", d.since((Unit::Day, epoch)).map(|sp| day_span_eq(sp, e)).map_err(|x| x.to_string()), Ok(true));
        chk!("Date::since(Day):reversed", epoch.since((Unit::Day, d)).map(|sp| day_span_eq(sp, -e)).map_err(|x| x.to_string()), Ok(true));
        chk!("Date::until(default)", epoch.until(d).map(|sp| day_span_eq(sp, e)).map_err(|x| x.to_string()), Ok(true));
        chk!("Date::until(default):reversed", d.until(epoch).map(|sp| day_span_eq(sp, -e)).map_err(|x| x.to_string()), Ok(true));
        chk!("Date-Date", day_span_eq(d - epoch, e), true);
        chk!("Date-Date:reversed", day_span_eq(epoch - d, -e), true);
        let want_dur = SignedDuration::new(e * 86_400, 0);
        chk!("Date::duration_since", d.duration_since(epoch), want_dur);
        chk!("Date::duration_until", epoch.duration_until(d), want_dur);
        chk!("Date::duration_until:reversed", d.duration_until(epoch), SignedDuration::new(-e * 86_400, 0));
        // ---- order ----------------------------------------------------------
        chk!("Date::cmp(epoch)", d.cmp(&epoch), e.cmp(&0));
        chk!("Date::partial_cmp(epoch)", d.partial_cmp(&epoch), Some(e.cmp(&0)));
        chk!("Date::eq(self)", (d == d, d.cmp(&d)), (true, core::cmp::Ordering::Equal));
        chk!("Date::eq(epoch)", d == epoch, e == 0);
        chk!("Date::MIN<=d<=MAX", (Date::MIN <= d, d <= Date::MAX, d == Date::MIN, d == Date::MAX), (true, true, e == min, e == max));
        if e < max {
            let t = Date::new(nx.y as i16, nx.m as i8, nx.d as i8).unwrap();
            chk!("Date::cmp(tomorrow)", (d < t, t > d, d == t, d.cmp(&t), t.cmp(&d)), (true, true, false, core::cmp::Ordering::Less, core::cmp::Ordering::Greater));
        }
        // ---- ISO week date: trait spellings and the type's own methods ------
        let iso = d.iso_week_date();
        let want_iso = (s.iso_y, s.iso_w, s.iso_wd());
        chk!("ISOWeekDate::from_date", iso3(ISOWeekDate::from_date(d)), want_iso);
        chk!("ISOWeekDate::from(Date)", iso3(ISOWeekDate::from(d)), want_iso);
        chk!("ISOWeekDate::weekday", wd_mon1(iso.weekday()), s.iso_wd());
        chk!("Date::from(ISOWeekDate)", vf::conv::date_ymd(Date::from(iso)), (s.y, s.m, s.d));
        let back = ISOWeekDate::new(s.iso_y as i16, s.iso_w as i8, iso.weekday());
        chk!("ISOWeekDate::new(of date)", back.as_ref().map(|w| (iso3(*w), *w == iso, vf::conv::date_ymd(w.date()))).map_err(|x| x.to_string()), Ok((want_iso, true, (s.y, s.m, s.d))));
        let weeks = cal::iso_weeks_in_year(s.iso_y);
        chk!("ISOWeekDate::weeks_in_year", iso.weeks_in_year() as i64, weeks);
        chk!("ISOWeekDate::in_long_year", iso.in_long_year(), weeks == 53);
        chk!("ISOWeekDate::days_in_year", iso.days_in_year() as i64, cal::iso_week1_monday(s.iso_y + 1) - cal::iso_week1_monday(s.iso_y));
        // first/last of the ISO week: Monday always exists (the minimum date
        // is a Monday), Sunday does not in the last week of the range.
        let mon = e - (s.iso_wd() - 1);
        let sun = e + (7 - s.iso_wd());
        let want_fw = if mon >= min { Some(((s.iso_y, s.iso_w, 1), mon)) } else { None };
        chk!("ISOWeekDate::first_of_week", iso.first_of_week().ok().map(|w| (iso3(w), vf::conv::date_epoch_day(w.date()))), want_fw);
        let want_lw = if sun <= max { Some(((s.iso_y, s.iso_w, 7), sun)) } else { None };
        chk!("ISOWeekDate::last_of_week", iso.last_of_week().ok().map(|w| (iso3(w), vf::conv::date_epoch_day(w.date()))), want_lw);
        let y0 = cal::iso_week1_monday(s.iso_y);
        let y1 = cal::iso_week1_monday(s.iso_y + 1) - 1;
        let want_fy = if y0 >= min { Some(((s.iso_y, 1, 1), y0)) } else { None };
        chk!("ISOWeekDate::first_of_year", iso.first_of_year().ok().map(|w| (iso3(w), vf::conv::date_epoch_day(w.date()))), want_fy);
        let want_ly = if y1 <= max { Some(((s.iso_y, weeks, 7), y1)) } else { None };
        chk!("ISOWeekDate::last_of_year", iso.last_of_year().ok().map(|w| (iso3(w), vf::conv::date_epoch_day(w.date()))), want_ly);
        let want_tom = if e < max { Some((nx.iso_y, nx.iso_w, nx.iso_wd())) } else { None };
        let tom = iso.tomorrow().ok();
        chk!("ISOWeekDate::tomorrow", tom.map(iso3), want_tom);
        let want_yes = if e > min { Some((pv.iso_y, pv.iso_w, pv.iso_wd())) } else { None };
        chk!("ISOWeekDate::yesterday", iso.yesterday().ok().map(iso3), want_yes);
        if let Some(t) = tom {
            chk!("ISOWeekDate::cmp(tomorrow)", (iso < t, t > iso, iso == t, iso.cmp(&t)), (true, true, false, core::cmp::Ordering::Less));
        }
        chk!("ISOWeekDate::MIN<=w<=MAX", (ISOWeekDate::MIN <= iso, iso <= ISOWeekDate::MAX, iso == ISOWeekDate::MIN, iso == ISOWeekDate::MAX), (true, true, e == min, e == max));
        // ---- DateTime accessors that delegate to Date -----------------------
        let t = Time::new(13, 14, 15, 123_456_789).unwrap();
        let tn = (13i8, 14i8, 15i8, 123_456_789i32);
        let dt = DateTime::from_parts(d, t);
        let parts = |x: DateTime| (vf::conv::date_ymd(x.date()), (x.hour(), x.minute(), x.second(), x.subsec_nanosecond()));
        let ymd = (s.y, s.m, s.d);
        chk!("Date::to_datetime", parts(d.to_datetime(t)), (ymd, tn));
        chk!("Date::at", parts(d.at(13, 14, 15, 123_456_789)), (ymd, tn));
        chk!("DateTime::new", DateTime::new(s.y as i16, s.m as i8, s.d as i8, 13, 14, 15, 123_456_789).map(parts).map_err(|x| x.to_string()), Ok((ymd, tn)));
        chk!("DateTime::date/time", (dt.date() == d, dt.time() == t, Date::from(dt) == d), (true, true, true));
        chk!("DateTime::year/month/day", (dt.year() as i64, dt.month() as i64, dt.day() as i64), ymd);
        let want_era = if s.y >= 1 { (s.y, Era::CE) } else { (1 - s.y, Era::BCE) };
        let (ey, era) = dt.era_year();
        chk!("DateTime::era_year", (ey as i64, era), want_era);
        chk!("DateTime::weekday", wd_mon1(dt.weekday()), s.iso_wd());
        chk!("DateTime::day_of_year", dt.day_of_year() as i64, s.doy);
        let leap = cal::is_leap(s.y);
        let no_leap = if leap && s.m == 2 && s.d == 29 {
            None
        } else if leap && s.m > 2 {
            Some(s.doy - 1)
        } else {
            Some(s.doy)
        };
        chk!("DateTime::day_of_year_no_leap", dt.day_of_year_no_leap().map(|x| x as i64), no_leap);
        let dim = cal::days_in_month(s.y, s.m);
        chk!("DateTime::days_in_month", dt.days_in_month() as i64, dim);
        chk!("DateTime::days_in_year", dt.days_in_year() as i64, cal::days_in_year(s.y));
        chk!("DateTime::in_leap_year", dt.in_leap_year(), leap);
        chk!("DateTime::first_of_month", parts(dt.first_of_month()), ((s.y, s.m, 1), tn));
        chk!("DateTime::last_of_month", parts(dt.last_of_month()), ((s.y, s.m, dim), tn));
        chk!("DateTime::first_of_year", parts(dt.first_of_year()), ((s.y, 1, 1), tn));
        chk!("DateTime::last_of_year", parts(dt.last_of_year()), ((s.y, 12, 31), tn));
        chk!("DateTime::tomorrow", dt.tomorrow().ok().map(parts), if e < max { Some(((nx.y, nx.m, nx.d), tn)) } else { None });
        chk!("DateTime::yesterday", dt.yesterday().ok().map(parts), if e > min { Some(((pv.y, pv.m, pv.d), tn)) } else { None });
        chk!("DateTime::iso_week_date", iso3(dt.iso_week_date()), want_iso);
        chk!("ISOWeekDate::from(DateTime)", iso3(ISOWeekDate::from(dt)), want_iso);
        chk!("DateTime::start_of_day", parts(dt.start_of_day()), (ymd, (0, 0, 0, 0)));
        chk!("DateTime::end_of_day", parts(dt.end_of_day()), (ymd, (23, 59, 59, 999_999_999)));
        bad
    });
    match res {
        Err(p) => r.viol("facts", &format!("facts-ext/{}", panic_sig(&p)), case(), p),
        Ok(bad) => {
            for (name, detail) in bad {
                r.viol("facts", &format!("fact/{}", name), case(), detail);
            }
        }
    }
}

/// Constants and defaults.
pub fn check_consts(r: &Report) {
    let res = guard(|| {
        let mut bad: Vec<(&'static str, String)> = vec![];
        macro_rules! chk {
            ($name:expr, $got:expr, $want:expr) => {
                let g = $got;
                let w = $want;
                if g != w {
                    bad.push(($name, format!("jiff {:?} model {:?}", g, w)));
                }
            };
        }
        chk!("Date::MIN", vf::conv::date_ymd(Date::MIN), (cal::MIN_YEAR, 1, 1));
        chk!("Date::MAX", vf::conv::date_ymd(Date::MAX), (cal::MAX_YEAR, 12, 31));
        chk!("Date::ZERO", vf::conv::date_ymd(Date::ZERO), (0, 1, 1));
        chk!("Date::default", vf::conv::date_ymd(Date::default()), (0, 1, 1));
        let mn = cal::iso_week_date(cal::MIN_YEAR, 1, 1);
        let mx = cal::iso_week_date(cal::MAX_YEAR, 12, 31);
        chk!("ISOWeekDate::MIN", iso3(ISOWeekDate::MIN), mn);
        chk!("ISOWeekDate::MAX", iso3(ISOWeekDate::MAX), mx);
        chk!("ISOWeekDate::ZERO", iso3(ISOWeekDate::ZERO), (0, 1, 1));
        chk!("ISOWeekDate::default", iso3(ISOWeekDate::default()), (0, 1, 1));
        chk!("ISOWeekDate::MIN.date", vf::conv::date_ymd(ISOWeekDate::MIN.date()), (cal::MIN_YEAR, 1, 1));
        chk!("ISOWeekDate::MAX.date", vf::conv::date_ymd(ISOWeekDate::MAX.date()), (cal::MAX_YEAR, 12, 31));
        let z = cal::civil_from_days(cal::iso_week1_monday(0));
        chk!("ISOWeekDate::ZERO.date", vf::conv::date_ymd(ISOWeekDate::ZERO.date()), z);
        bad
    });
    r.add_validated(11);
    match res {
        Err(p) => r.viol("facts", &format!("consts/{}", panic_sig(&p)), "constants", p),
        Ok(bad) => {
            for (name, detail) in bad {
                r.viol("facts", &format!("const/{}", name), name, detail);
            }
        }
    }
}
