//! C01: `nth_weekday_of_month` and `nth_weekday` (Date and DateTime).
//! Signatures of the original check are kept (`nth_weekday_of_month/value`,
//! `nth_weekday/value`, `<op>/panic[..]`); the extension adds the `i8`
//! extremes of `nth`, three base days per month, `nth = 0` and the exact
//! overflow boundary of `nth_weekday` from every date.

use crate::WDS;
use jiff::civil::{Date, Time};
use rayon::prelude::*;
use refmodel::cal;
use vf::{guard, panic_sig, Report};

pub fn run_of_month(r: &Report) {
    let t = Time::new(13, 14, 15, 123_456_789).unwrap();
    let months: Vec<(i64, i64)> = (cal::MIN_YEAR..=cal::MAX_YEAR).flat_map(|y| (1..=12).map(move |m| (y, m))).collect();
    let nths: Vec<i64> = {
        let mut v: Vec<i64> = (-7..=7).collect();
        v.extend_from_slice(&[i8::MIN as i64, -127, 127]);
        v
    };
    let (n, some, none): (u64, u64, u64) = months
        .par_iter()
        .map(|&(y, m)| {
            let (mut n, mut some, mut none) = (0u64, 0u64, 0u64);
            let last = cal::days_in_month(y, m);
            let e0 = cal::days_from_civil(y, m, 1);
            // from three different days of the month: the answer must not depend on the day
            let bases: Vec<Date> = [1, 15, last].iter().map(|&day| Date::new(y as i16, m as i8, day as i8).unwrap()).collect();
            for &nth in &nths {
                for (wi, wd) in WDS.iter().enumerate() {
                    let want = crate::stat::nth_of_month_model(e0, last, nth, wi as u8); // by counting through the month
                    if want.is_some() {
                        some += 1;
                    } else {
                        none += 1;
                    }
                    for base in &bases {
                        n += 1;
                        match guard(|| base.nth_weekday_of_month(nth as i8, *wd)) {
                            Err(p) => r.viol("nth_of_month", &format!("nth_weekday_of_month/{}", panic_sig(&p)), format!("{}-{} nth={} wd={}", y, m, nth, wi), p),
                            Ok(got) => {
                                let got = got.ok().map(vf::conv::date_epoch_day);
                                if got != want {
                                    r.viol("nth_of_month", "nth_weekday_of_month/value", format!("{}-{:02} nth={} wd={}", y, m, nth, wi), format!("jiff {:?} model {:?} (from day {})", got, want, base.day()));
                                }
                            }
                        }
                    }
                    // DateTime spelling, from the last day of the month
                    n += 1;
                    let dt = bases[2].to_datetime(t);
                    match guard(|| dt.nth_weekday_of_month(nth as i8, *wd)) {
                        Err(p) => r.viol("nth_of_month", &format!("DateTime::nth_weekday_of_month/{}", panic_sig(&p)), format!("{}-{} nth={} wd={}", y, m, nth, wi), p),
                        Ok(got) => {
                            let time_kept = got.as_ref().map(|x| x.time() == t).unwrap_or(true);
                            let got = got.ok().map(|x| vf::conv::date_epoch_day(x.date()));
                            if got != want || !time_kept {
                                r.viol("nth_of_month", "DateTime::nth_weekday_of_month/value", format!("{}-{:02} nth={} wd={}", y, m, nth, wi), format!("jiff {:?} model {:?} time kept {}", got, want, time_kept));
                            }
                        }
                    }
                }
            }
            (n, some, none)
        })
        .reduce(|| (0, 0, 0), |a, b| (a.0 + b.0, a.1 + b.1, a.2 + b.2));
    r.add_states(n);
    r.add_validated(n);
    r.count("nth_of_month_calls", n);
    r.outcome("nth_of_month_exists", some);
    r.outcome("nth_of_month_does_not_exist", none);
    r.require(some > 0 && none > 0, "nth_weekday_of_month both exists and does not");
}

pub fn nth_weekday_model(e: i64, cur: i64, nth: i64, wd: i64, min: i64, max: i64) -> Option<i64> {
    if nth == 0 || nth.abs() > 1_043_497 {
        // documented: nth = 0 is an error; |nth| beyond the span-of-weeks
        // limit is outside the documented input domain
        return None;
    }
    let t = if nth > 0 {
        let first = (wd - cur - 1).rem_euclid(7) + 1; // 1..=7 days ahead
        e + first + 7 * (nth - 1)
    } else {
        let first = (cur - wd - 1).rem_euclid(7) + 1;
        e - first - 7 * (-nth - 1)
    };
    if (min..=max).contains(&t) {
        Some(t)
    } else {
        None
    }
}

fn one(r: &Report, d: Date, e: i64, cur: i64, nth: i64, wi: usize, min: i64, max: i64) -> bool {
    let want = nth_weekday_model(e, cur, nth, wi as i64, min, max);
    match guard(|| d.nth_weekday(nth as i32, WDS[wi])) {
        Err(p) => r.viol("nth_weekday", &format!("nth_weekday/{}", panic_sig(&p)), format!("{} nth={} wd={}", d, nth, wi), p),
        Ok(got) => {
            let got = got.ok().map(vf::conv::date_epoch_day);
            if got != want {
                r.viol("nth_weekday", "nth_weekday/value", format!("{} nth={} wd={}", d, nth, wi), format!("jiff {:?} model {:?}", got, want));
            }
        }
    }
    want.is_some()
}

pub fn run_nth_weekday(r: &Report, bounds: &[(i64, i64)], min: i64, max: i64) {
    let nths: &[i64] = if r.quick() { &[1, -1] } else { &[1, -1, 2, -2, 5, -5] };
    // In the quick tier the overflow boundary and nth = 0 are taken from every
    // date of the first and last 800 days of the range, of the years -1..=1
    // and of 1969..=1971; the thorough tier takes them from every date.
    let (z0, z1) = (cal::days_from_civil(-1, 1, 1), cal::days_from_civil(1, 12, 31));
    let (u0, u1) = (cal::days_from_civil(1969, 1, 1), cal::days_from_civil(1971, 12, 31));
    let near = |e: i64| -> bool { e - min < 800 || max - e < 800 || (z0..=z1).contains(&e) || (u0..=u1).contains(&e) };
    let all = r.thorough();
    let (n, nb, some, none): (u64, u64, u64, u64) = bounds
        .par_iter()
        .map(|&(lo, hi)| {
            let (mut n, mut nb, mut some, mut none) = (0u64, 0u64, 0u64, 0u64);
            let mut s = crate::start_state(lo);
            loop {
                let e = s.epoch_day;
                let d = Date::new(s.y as i16, s.m as i8, s.d as i8).unwrap();
                let cur = s.wd as i64;
                for &nth in nths {
                    for wi in 0..7 {
                        n += 1;
                        if one(r, d, e, cur, nth, wi, min, max) {
                            some += 1;
                        } else {
                            none += 1;
                        }
                    }
                }
                if all || near(e) {
                    for wi in 0..7i64 {
                        // the largest nth that still lands inside the range, and the next one
                        let first_f = (wi - cur - 1).rem_euclid(7) + 1;
                        let fit_f = if e + first_f <= max { (max - e - first_f) / 7 + 1 } else { 0 };
                        let first_b = (cur - wi - 1).rem_euclid(7) + 1;
                        let fit_b = if e - first_b >= min { (e - first_b - min) / 7 + 1 } else { 0 };
                        for nth in [0, fit_f, fit_f + 1, -fit_b, -fit_b - 1] {
                            nb += 1;
                            if one(r, d, e, cur, nth, wi as usize, min, max) {
                                some += 1;
                            } else {
                                none += 1;
                            }
                        }
                    }
                }
                if e == hi {
                    break;
                }
                s = s.next();
            }
            (n, nb, some, none)
        })
        .reduce(|| (0, 0, 0, 0), |a, b| (a.0 + b.0, a.1 + b.1, a.2 + b.2, a.3 + b.3));
    r.add_states(n + nb);
    r.add_validated(n + nb);
    r.count("nth_weekday_boundary_calls", nb);
    // pool dates x extreme nth, Date and DateTime
    let big: &[i64] = &[0, 52, -52, 1_043_497, -1_043_497, 1_043_498, -1_043_498, i32::MIN as i64, i32::MIN as i64 + 1, i32::MAX as i64, 600_000, -600_000, 1, -1, 5, -5];
    let t = Time::new(13, 14, 15, 123_456_789).unwrap();
    let mut m = 0;
    for d in vf::pools::dates() {
        let e = vf::conv::date_epoch_day(d);
        let cur = cal::weekday_from_days(e) as i64;
        for &nth in big {
            for wi in 0..7usize {
                m += 2;
                one(r, d, e, cur, nth, wi, min, max);
                let want = nth_weekday_model(e, cur, nth, wi as i64, min, max);
                let dt = d.to_datetime(t);
                match guard(|| dt.nth_weekday(nth as i32, WDS[wi])) {
                    Err(p) => r.viol("nth_weekday", &format!("DateTime::nth_weekday/{}", panic_sig(&p)), format!("{} nth={} wd={}", d, nth, wi), p),
                    Ok(got) => {
                        let time_kept = got.as_ref().map(|x| x.time() == t).unwrap_or(true);
                        let got = got.ok().map(|x| vf::conv::date_epoch_day(x.date()));
                        if got != want || !time_kept {
                            r.viol("nth_weekday", "DateTime::nth_weekday/value", format!("{} nth={} wd={}", d, nth, wi), format!("jiff {:?} model {:?} time kept {}", got, want, time_kept));
                        }
                    }
                }
            }
        }
    }
    r.add_states(m);
    r.add_validated(m);
    r.count("nth_weekday_calls", n + nb + m);
    r.outcome("nth_weekday_in_range", some);
    r.outcome("nth_weekday_refused", none);
    r.require(some > 0 && none > 0 && nb > 0, "nth_weekday both lands in range and is refused; boundary enumerated");
}
