//! C02: instant <-> civil datetime under a fixed offset is exact and
//! invertible; all timestamp constructors and views denote one integer
//! nanosecond count.
//!
//! E1. Oracle: plain `i128` arithmetic plus `refmodel::cal::civil_from_days`
//! (validated exhaustively by C01). Every `Timestamp` jiff produces is judged
//! by `==`, `cmp`, `Hash`, `as_second`, `subsec_nanosecond` against
//! `Timestamp::from_nanosecond(exact)` -- a value that merely prints right is
//! not accepted.

use core::hash::{Hash, Hasher};
use jiff::civil::DateTime;
use jiff::tz::Offset;
use jiff::{SignedDuration, Timestamp};
use rayon::prelude::*;
use refmodel::cal;
use serde_json::json;
use std::sync::atomic::{AtomicU64, Ordering};
use vf::{guard, panic_sig, Report};

#[path = "c02/ext.rs"]
mod ext;

const NS: i128 = 1_000_000_000;
const DAY_NS: i128 = 86_400 * NS;
/// Documented limits (Timestamp::MIN / MAX), written out independently.
const MIN_S: i64 = -377_705_023_201;
const MAX_S: i64 = 253_402_207_200;
const MIN_NS: i128 = MIN_S as i128 * NS;
const MAX_NS: i128 = MAX_S as i128 * NS + 999_999_999;
const OFF_MAX: i32 = 93_599;

/// Z-fixed(8): MIN, -1h, -1s, 0, +1s, +5:30, +12:45, MAX.
const ZFIXED8: [i32; 8] = [0, -3600, -1, 1, 19_800, 45_900, -OFF_MAX, OFF_MAX];

struct Fnv(u64);
impl Hasher for Fnv {
    fn finish(&self) -> u64 {
        self.0
    }
    fn write(&mut self, bytes: &[u8]) {
        for b in bytes {
            self.0 = (self.0 ^ *b as u64).wrapping_mul(0x100_0000_01b3);
        }
    }
}
fn h<T: Hash>(t: &T) -> u64 {
    let mut s = Fnv(0xcbf2_9ce4_8422_2325);
    t.hash(&mut s);
    s.finish()
}

/// The civil fields of an exact local nanosecond count.
#[derive(Clone, Copy, PartialEq, Eq, Debug)]
struct Civ {
    y: i64,
    mo: i64,
    d: i64,
    h: i64,
    mi: i64,
    s: i64,
    ns: i64,
}

fn civ_of_local(local: i128) -> Civ {
    let day = local.div_euclid(DAY_NS);
    let rem = local.rem_euclid(DAY_NS);
    let (y, mo, d) = cal::civil_from_days(day as i64);
    let sod = (rem / NS) as i64;
    Civ { y, mo, d, h: sod / 3600, mi: (sod / 60) % 60, s: sod % 60, ns: (rem % NS) as i64 }
}

fn civ_of_jiff(dt: DateTime) -> Civ {
    Civ {
        y: dt.year() as i64,
        mo: dt.month() as i64,
        d: dt.day() as i64,
        h: dt.hour() as i64,
        mi: dt.minute() as i64,
        s: dt.second() as i64,
        ns: dt.subsec_nanosecond() as i64,
    }
}

fn civ_str(c: &Civ) -> String {
    let (sign, y) = if c.y < 0 { ("-", -c.y) } else { ("", c.y) };
    format!("{}{:04}-{:02}-{:02}T{:02}:{:02}:{:02}.{:09}", sign, y, c.mo, c.d, c.h, c.mi, c.s, c.ns)
}

fn civ_to_jiff(c: &Civ) -> Option<DateTime> {
    DateTime::new(c.y as i16, c.mo as i8, c.d as i8, c.h as i8, c.mi as i8, c.s as i8, c.ns as i32).ok()
}

/// What is wrong (if anything) with a `Timestamp` that should denote `exact`.
/// Returns (failure kind, detail).
fn judge_ts(got: Timestamp, exact: i128, reference: Timestamp) -> Option<(&'static str, String)> {
    let es = (exact / NS) as i64;
    let en = (exact % NS) as i32;
    let gs = got.as_second();
    let gn = got.subsec_nanosecond();
    let gns = got.as_nanosecond();
    let opposite = (gs > 0 && gn < 0) || (gs < 0 && gn > 0);
    let eq = got == reference;
    let ord = got.cmp(&reference) == core::cmp::Ordering::Equal && reference.cmp(&got) == core::cmp::Ordering::Equal;
    let hash = h(&got) == h(&reference);
    if gs == es && gn == en && gns == exact && eq && ord && hash && !opposite {
        return None;
    }
    let kind = if gns != exact {
        "wrong-instant"
    } else {
        // the nanosecond count is right but the value is not the canonical one
        "denormalised"
    };
    Some((
        kind,
        format!(
            "jiff as_second={} subsec_nanosecond={} as_nanosecond={} ==ref:{} cmp-equal:{} hash-equal:{} | model second={} nanosecond={} ns={}",
            gs, gn, gns, eq, ord, hash, es, en, exact
        ),
    ))
}

fn input_class(civil_day: i128, instant: i128, frac: i128) -> String {
    format!(
        "civil{}1970,instant{}0,frac{}0",
        if civil_day < 0 { "<" } else { ">=" },
        if instant < 0 { "<" } else { ">=" },
        if frac == 0 { "==" } else { "!=" }
    )
}

#[derive(Default)]
struct Tally {
    t2c: u64,
    c2t_ok: u64,
    c2t_err: u64,
    f13_class: u64,
    conv_class: u64,
}

/// civil -> instant at offset `o` (seconds): compare validity and value.
/// `local` is the exact local nanosecond count of the civil datetime `dt`.
fn check_c2t(r: &Report, section: &str, dt: DateTime, local: i128, o: i32, off: Offset, tally: &mut Tally) {
    let exact = local - o as i128 * NS;
    let in_range = (MIN_NS..=MAX_NS).contains(&exact);
    let civil_day = local.div_euclid(DAY_NS);
    let frac = local.rem_euclid(NS);
    let case = || format!("civil={} off={}s", civ_str(&civ_of_local(local)), o);
    if civil_day < 0 && exact >= 0 && frac != 0 {
        tally.f13_class += 1;
    }
    if civil_day >= 0 && exact < 0 && frac != 0 {
        tally.conv_class += 1;
    }
    match guard(|| off.to_timestamp(dt)) {
        Err(p) => r.viol(section, &format!("Offset::to_timestamp/{}", panic_sig(&p)), case(), p),
        Ok(Err(e)) => {
            tally.c2t_err += 1;
            if in_range {
                r.viol(
                    section,
                    &format!("Offset::to_timestamp/rejected-in-range:{}", input_class(civil_day, exact, frac)),
                    case(),
                    format!("jiff Err({}) model instant {} ns is within [MIN, MAX]", e, exact),
                );
            }
        }
        Ok(Ok(ts)) => {
            tally.c2t_ok += 1;
            if !in_range {
                let side = if exact < MIN_NS { "instant<MIN" } else { "instant>MAX" };
                let res = guard(|| (ts.as_second(), ts.subsec_nanosecond(), ts < Timestamp::MIN, ts > Timestamp::MAX));
                r.viol(
                    section,
                    &format!("Offset::to_timestamp/accepted-out-of-range:{},frac{}0", side, if frac == 0 { "==" } else { "!=" }),
                    case(),
                    format!("jiff Ok (as_second, subsec_nanosecond, <MIN, >MAX) = {:?}; model instant {} ns outside [{}, {}] so an error is required", res, exact, MIN_NS, MAX_NS),
                );
                return;
            }
            let verdict = guard(|| {
                let reference = Timestamp::from_nanosecond(exact).expect("in range");
                judge_ts(ts, exact, reference)
            });
            match verdict {
                Err(p) => r.viol(section, &format!("Offset::to_timestamp->views/{}", panic_sig(&p)), case(), p),
                Ok(None) => {}
                Ok(Some((kind, detail))) => r.viol(
                    section,
                    &format!("Offset::to_timestamp/{}:{}", kind, input_class(civil_day, exact, frac)),
                    case(),
                    detail,
                ),
            }
        }
    }
}

/// instant -> civil at offset `o`, then back.
fn check_t(r: &Report, section: &str, exact: i128, o: i32, off: Offset, tally: &mut Tally) {
    debug_assert!((MIN_NS..=MAX_NS).contains(&exact));
    let case = || format!("t={}ns off={}s", exact, o);
    let ts = match guard(|| Timestamp::from_nanosecond(exact)) {
        Ok(Ok(ts)) => ts,
        Ok(Err(e)) => {
            r.viol(section, "Timestamp::from_nanosecond/rejected-in-range", case(), e.to_string());
            return;
        }
        Err(p) => {
            r.viol(section, &format!("Timestamp::from_nanosecond/{}", panic_sig(&p)), case(), p);
            return;
        }
    };
    let local = exact + o as i128 * NS;
    let want = civ_of_local(local);
    tally.t2c += 1;
    let dt = match guard(|| off.to_datetime(ts)) {
        Err(p) => {
            r.viol(section, &format!("Offset::to_datetime/{}", panic_sig(&p)), case(), p);
            return;
        }
        Ok(dt) => dt,
    };
    let got = civ_of_jiff(dt);
    if got != want {
        let frac = exact.rem_euclid(NS);
        let class = format!(
            "instant{}0,frac{}0,local-second-of-day{}0",
            if exact < 0 { "<" } else { ">=" },
            if frac == 0 { "==" } else { "!=" },
            if local.div_euclid(NS).rem_euclid(86_400) == 0 { "==" } else { "!=" }
        );
        r.viol(
            section,
            &format!("Offset::to_datetime/civil-fields:{}", class),
            case(),
            format!("jiff {} model {}", civ_str(&got), civ_str(&want)),
        );
        return;
    }
    check_c2t(r, section, dt, local, o, off, tally);
}

fn flush(r: &Report, t: &Tally, totals: &[AtomicU64; 5]) {
    totals[0].fetch_add(t.t2c, Ordering::Relaxed);
    totals[1].fetch_add(t.c2t_ok, Ordering::Relaxed);
    totals[2].fetch_add(t.c2t_err, Ordering::Relaxed);
    totals[3].fetch_add(t.f13_class, Ordering::Relaxed);
    totals[4].fetch_add(t.conv_class, Ordering::Relaxed);
    r.add_states(t.t2c);
    r.add_transitions(t.t2c + t.c2t_ok + t.c2t_err);
    r.add_validated(t.t2c + t.c2t_ok + t.c2t_err);
}

fn offsets(list: &[i32]) -> Vec<(i32, Offset)> {
    list.iter().map(|&o| (o, Offset::from_seconds(o).expect("offset in range"))).collect()
}

fn main() {
    let r = Report::from_args("C02");
    let totals: [AtomicU64; 5] = Default::default();

    // sanity of the written-out limits against the library's constants
    r.section("limits", || {
        let ok = guard(|| {
            (
                Timestamp::MIN.as_second(),
                Timestamp::MIN.subsec_nanosecond(),
                Timestamp::MAX.as_second(),
                Timestamp::MAX.subsec_nanosecond(),
                Offset::MIN.seconds(),
                Offset::MAX.seconds(),
                civ_of_jiff(DateTime::MIN),
                civ_of_jiff(DateTime::MAX),
            )
        });
        let want = (
            MIN_S,
            0,
            MAX_S,
            999_999_999,
            -OFF_MAX,
            OFF_MAX,
            civ_of_local(cal::min_day() as i128 * DAY_NS),
            civ_of_local((cal::max_day() as i128 + 1) * DAY_NS - 1),
        );
        r.add_validated(8);
        match ok {
            Err(p) => r.viol("limits", &format!("limits/{}", panic_sig(&p)), "constants", p),
            Ok(got) => {
                if got != want {
                    r.viol("limits", "limits/documented-constants", "constants", format!("jiff {:?} model {:?}", got, want));
                }
            }
        }
        // the limits were chosen so that every in-range instant has a civil
        // datetime at every offset
        assert_eq!(MIN_NS + (-OFF_MAX as i128) * NS, cal::min_day() as i128 * DAY_NS);
        assert_eq!(MAX_NS + (OFF_MAX as i128) * NS, (cal::max_day() as i128 + 1) * DAY_NS - 1);
    });

    // (a) day-boundary exhaustive: every epoch day x second-of-day x ns x offsets
    r.section("day_boundary", || {
        let (sods, nss, offs): (&[i64], &[i128], Vec<(i32, Offset)>) = if r.quick() {
            (&[0, 86_399], &[0, -1, 999_999_999], offsets(&[0, -OFF_MAX, OFF_MAX]))
        } else {
            (
                &[0, 1, 59, 60, 3_599, 3_600, 43_200, 86_398, 86_399],
                &[0, 1, -1, 500_000_000, -500_000_000, 999_999_999, -999_999_999],
                // Z-fixed(8) plus exactly +-24:00:00
                offsets(&[0, -3600, -1, 1, 19_800, 45_900, -OFF_MAX, OFF_MAX, -86_400, 86_400]),
            )
        };
        let lo = cal::min_day() - 1;
        let hi = cal::max_day() + 1;
        let nchunks = 512i64;
        let total = hi - lo + 1;
        (0..nchunks).into_par_iter().for_each(|c| {
            let a = lo + total * c / nchunks;
            let b = lo + total * (c + 1) / nchunks - 1;
            let mut tally = Tally::default();
            for day in a..=b {
                for &sod in sods {
                    let base = (day as i128 * 86_400 + sod as i128) * NS;
                    for &n in nss {
                        let exact = base + n;
                        if !(MIN_NS..=MAX_NS).contains(&exact) {
                            continue;
                        }
                        for &(o, off) in &offs {
                            check_t(&r, "day_boundary", exact, o, off, &mut tally);
                        }
                    }
                }
            }
            flush(&r, &tally, &totals);
        });
        r.count("day_boundary_days", total as u64);
    });

    // (b) every second of a handful of days x ns pool x Z-fixed(8)
    r.section("second_exhaustive", || {
        let first_day = (MIN_S as i128).div_euclid(86_400) as i64;
        let last_day = (MAX_S as i128).div_euclid(86_400) as i64;
        let leap = cal::days_from_civil(2024, 2, 29);
        let mut days = vec![first_day, -1, 0, 1, leap, last_day];
        if r.thorough() {
            // year -1 / year 0, the leap day of year 0, day 366 of a leap year, a century non-leap year
            days.extend([cal::days_from_civil(-1, 12, 31), cal::days_from_civil(0, 1, 1), cal::days_from_civil(0, 2, 29), cal::days_from_civil(2024, 12, 31), cal::days_from_civil(1900, 2, 28), first_day + 1, last_day - 1]);
        }
        let nss: [i128; 7] = [0, 1, -1, 500_000_000, -500_000_000, 999_999_999, -999_999_999];
        let offs = offsets(&ZFIXED8);
        let work: Vec<(i64, i64)> = days.iter().flat_map(|&d| (0..24).map(move |hh| (d, hh))).collect();
        work.par_iter().for_each(|&(day, hh)| {
            let mut tally = Tally::default();
            for sod in hh * 3600..(hh + 1) * 3600 {
                let base = (day as i128 * 86_400 + sod as i128) * NS;
                for &n in &nss {
                    let exact = base + n;
                    if !(MIN_NS..=MAX_NS).contains(&exact) {
                        continue;
                    }
                    for &(o, off) in &offs {
                        check_t(&r, "second_exhaustive", exact, o, off, &mut tally);
                    }
                }
            }
            flush(&r, &tally, &totals);
        });
    });

    // (c) all 187,199 offsets x timestamp pool (both directions) x civil pool
    r.section("offset_exhaustive", || {
        let ts_pool: Vec<i128> = {
            let mut v: Vec<i128> = match guard(|| vf::pools::timestamps().into_iter().map(|t| t.as_nanosecond()).collect()) {
                Ok(v) => v,
                Err(p) => {
                    r.viol("offset_exhaustive", &format!("pool/{}", panic_sig(&p)), "timestamp pool", p);
                    vec![]
                }
            };
            // around the epoch and both limits at second and sub-second distance
            for base in [0i128, MIN_NS, MAX_NS] {
                for d in [0i128, 1, 999_999_999, NS, NS + 1, 93_599 * NS, 93_599 * NS + 1, 93_600 * NS - 1, 93_600 * NS, 93_600 * NS + 500_000_000] {
                    for x in [base + d, base - d] {
                        if (MIN_NS..=MAX_NS).contains(&x) && !v.contains(&x) {
                            v.push(x);
                        }
                    }
                }
            }
            v
        };
        // civil pool: exact local nanosecond counts
        let civ_pool: Vec<i128> = {
            let cmin = cal::min_day() as i128 * DAY_NS;
            let cmax = (cal::max_day() as i128 + 1) * DAY_NS - 1;
            let mut v: Vec<i128> = vec![];
            let deltas: [i128; 16] = [
                0,
                1,
                500_000_000,
                999_999_999,
                NS,
                NS + 1,
                93_598 * NS,
                93_598 * NS + 500_000_000,
                93_599 * NS,
                93_599 * NS + 1,
                93_600 * NS,
                2 * 93_599 * NS - 1,
                2 * 93_599 * NS,
                2 * 93_599 * NS + 1,
                2 * 93_599 * NS + NS,
                3 * 86_400 * NS + 500_000_000,
            ];
            for d in deltas {
                for x in [cmin + d, cmax - d, d, -d, d + DAY_NS, -d - DAY_NS] {
                    if (cmin..=cmax).contains(&x) && !v.contains(&x) {
                        v.push(x);
                    }
                }
            }
            if r.thorough() {
                if let Ok(p) = guard(|| vf::pools::datetimes().into_iter().map(vf::conv::dt_civil_ns).collect::<Vec<i128>>()) {
                    for x in p {
                        if !v.contains(&x) {
                            v.push(x);
                        }
                    }
                }
            }
            v
        };
        r.count("offset_exhaustive_timestamp_pool", ts_pool.len() as u64);
        r.count("offset_exhaustive_civil_pool", civ_pool.len() as u64);
        let civ_dts: Vec<(i128, DateTime)> = civ_pool
            .iter()
            .filter_map(|&l| civ_to_jiff(&civ_of_local(l)).map(|dt| (l, dt)))
            .collect();
        r.require(civ_dts.len() == civ_pool.len(), "every civil pool value constructs");
        let nchunks = 256i32;
        let total = 2 * OFF_MAX + 1;
        let n_off = AtomicU64::new(0);
        (0..nchunks).into_par_iter().for_each(|c| {
            let a = -OFF_MAX + total * c / nchunks;
            let b = -OFF_MAX + total * (c + 1) / nchunks - 1;
            let mut tally = Tally::default();
            for o in a..=b {
                let off = match guard(|| Offset::from_seconds(o)) {
                    Ok(Ok(off)) => off,
                    Ok(Err(e)) => {
                        r.viol("offset_exhaustive", "Offset::from_seconds/rejected-in-range", format!("off={}s", o), e.to_string());
                        continue;
                    }
                    Err(p) => {
                        r.viol("offset_exhaustive", &format!("Offset::from_seconds/{}", panic_sig(&p)), format!("off={}s", o), p);
                        continue;
                    }
                };
                n_off.fetch_add(1, Ordering::Relaxed);
                for &exact in &ts_pool {
                    check_t(&r, "offset_exhaustive", exact, o, off, &mut tally);
                }
                for &(local, dt) in &civ_dts {
                    check_c2t(&r, "offset_exhaustive", dt, local, o, off, &mut tally);
                }
            }
            flush(&r, &tally, &totals);
        });
        r.count("offsets_enumerated", n_off.load(Ordering::Relaxed));
        // just outside the offset range
        for o in [-OFF_MAX - 1, OFF_MAX + 1, i32::MIN, i32::MAX] {
            r.add_validated(1);
            match guard(|| Offset::from_seconds(o).is_ok()) {
                Err(p) => r.viol("offset_exhaustive", &format!("Offset::from_seconds/{}", panic_sig(&p)), format!("off={}s", o), p),
                Ok(true) => r.viol("offset_exhaustive", "Offset::from_seconds/accepted-out-of-range", format!("off={}s", o), "Ok"),
                Ok(false) => {}
            }
        }
    });

    // (d) constructors and views
    r.section("ctor_views", || {
        // a panic here is a harness bug (every jiff call inside is guarded)
        if let Err(p) = guard(|| ctor_views(&r)) {
            eprintln!("ENGINE-FAILURE: harness panic in ctor_views: {}", p);
            std::process::exit(2);
        }
    });

    r.section("ctor_constant", || {
        if let Err(p) = guard(|| ctor_constant(&r)) {
            eprintln!("ENGINE-FAILURE: harness panic in ctor_constant: {}", p);
            std::process::exit(2);
        }
    });

    // ---- coverage extensions (c02/ext.rs) ----
    let harness = |name: &str, f: &dyn Fn()| {
        if let Err(p) = guard(f) {
            eprintln!("ENGINE-FAILURE: harness panic in {}: {}", name, p);
            std::process::exit(2);
        }
    };
    r.section("offset_local_boundary", || harness("offset_local_boundary", &|| ext::offset_local_boundary(&r, &totals)));
    r.section("fixed_zone_routes", || harness("fixed_zone_routes", &|| ext::fixed_zone_routes(&r)));
    r.section("offset_values", || harness("offset_values", &|| ext::offset_values(&r)));
    r.section("views_sweep", || harness("views_sweep", &|| ext::views_sweep(&r)));
    r.section("ctor_dense", || harness("ctor_dense", &|| ext::ctor_dense(&r)));
    r.section("system_time", || harness("system_time", &|| ext::system_time(&r)));
    r.section("ordering", || harness("ordering", &|| ext::ordering(&r)));

    let get = |i: usize| totals[i].load(Ordering::Relaxed);
    r.outcome("instant_to_civil", get(0));
    r.outcome("civil_to_instant_ok", get(1));
    r.outcome("civil_to_instant_err", get(2));
    r.outcome("class_civil<1970,instant>=0,frac!=0", get(3));
    r.outcome("class_civil>=1970,instant<0,frac!=0", get(4));
    r.require(get(0) > 0 && get(1) > 0, "conversions happened");
    r.require(get(2) > 0, "some civil datetimes are out of the timestamp range");
    r.require(get(3) > 0 && get(4) > 0, "both epoch-straddling input classes visited");
    r.sample(json!({"t_ns": -1, "offset_s": 0, "model_civil": civ_str(&civ_of_local(-1))}));
    r.sample(json!({"t_ns": MIN_NS.to_string(), "offset_s": -OFF_MAX, "model_civil": civ_str(&civ_of_local(MIN_NS - OFF_MAX as i128 * NS))}));
    r.sample(json!({"t_ns": MAX_NS.to_string(), "offset_s": OFF_MAX, "model_civil": civ_str(&civ_of_local(MAX_NS + OFF_MAX as i128 * NS))}));
    r.sample(json!({"civil": "1969-12-31T23:00:00.000000001", "offset_s": -18000, "model_t_ns": 14_400_000_000_001i64}));
    r.finish();
}

/// All views of an Ok timestamp against the exact count.
fn check_views(r: &Report, section: &str, ctor: &str, case: &str, ts: Timestamp, exact: i128) {
    let res = guard(|| -> Vec<(&'static str, String)> {
        let mut bad = vec![];
        macro_rules! chk {
            ($name:expr, $got:expr, $want:expr) => {
                let g = $got;
                let w = $want;
                if g != w {
                    bad.push(($name, format!("jiff {:?} model {:?}", g, w)));
                }
            };
        }
        let sub = exact % NS;
        chk!("as_second", ts.as_second() as i128, exact / NS);
        chk!("as_millisecond", ts.as_millisecond() as i128, exact / 1_000_000);
        chk!("as_microsecond", ts.as_microsecond() as i128, exact / 1_000);
        chk!("as_nanosecond", ts.as_nanosecond(), exact);
        chk!("subsec_nanosecond", ts.subsec_nanosecond() as i128, sub);
        chk!("subsec_microsecond", ts.subsec_microsecond() as i128, sub / 1_000);
        chk!("subsec_millisecond", ts.subsec_millisecond() as i128, sub / 1_000_000);
        let d = ts.as_duration();
        chk!("as_duration", (d.as_secs() as i128, d.subsec_nanos() as i128), (exact / NS, sub));
        chk!("from_duration(as_duration)", Timestamp::from_duration(d).ok().map(|t| (t.as_nanosecond(), t == ts)), Some((exact, true)));
        chk!("signum", ts.signum() as i128, exact.signum());
        chk!("is_zero", ts.is_zero(), exact == 0);
        let reference = Timestamp::from_nanosecond(exact).expect("in range");
        if let Some((kind, detail)) = judge_ts(ts, exact, reference) {
            bad.push((kind, detail));
        }
        // ordering against the limits is the integer ordering
        chk!("cmp(MIN)", ts.cmp(&Timestamp::MIN), exact.cmp(&MIN_NS));
        chk!("cmp(MAX)", ts.cmp(&Timestamp::MAX), exact.cmp(&MAX_NS));
        chk!("cmp(UNIX_EPOCH)", ts.cmp(&Timestamp::UNIX_EPOCH), exact.cmp(&0));
        bad
    });
    r.add_validated(15);
    match res {
        Err(p) => r.viol(section, &format!("{}->views/{}", ctor, panic_sig(&p)), case, p),
        Ok(bad) => {
            for (name, detail) in bad {
                r.viol(section, &format!("{}->{}/value", ctor, name), case, detail);
            }
        }
    }
}

/// A constructor result against the model: `Some(exact)` = must be Ok with that
/// value, `None` = must be an error.
fn check_ctor(r: &Report, ctor: &str, case: String, want: Option<i128>, got: Result<Result<Timestamp, String>, String>, tally: &mut (u64, u64)) {
    r.add_states(1);
    r.add_transitions(1);
    r.add_validated(1);
    match got {
        Err(p) => r.viol("ctor_views", &format!("{}/{}", ctor, panic_sig(&p)), case, p),
        Ok(Err(e)) => {
            tally.1 += 1;
            if let Some(x) = want {
                r.viol("ctor_views", &format!("{}/rejected-in-range", ctor), case, format!("jiff Err({}) model {} ns in range", e, x));
            }
        }
        Ok(Ok(ts)) => {
            tally.0 += 1;
            match want {
                None => {
                    let v = guard(|| ts.as_nanosecond());
                    r.viol("ctor_views", &format!("{}/accepted-out-of-range", ctor), case, format!("jiff Ok(as_nanosecond {:?}) model: error required", v));
                }
                Some(x) => check_views(r, "ctor_views", ctor, &case, ts, x),
            }
        }
    }
}

/// Raw accessors only: `Debug`/`Display` of a malformed value may itself panic.
fn show_ts(ts: Timestamp) -> String {
    match guard(|| (ts.as_second(), ts.subsec_nanosecond())) {
        Ok((s, n)) => format!("Timestamp{{as_second: {}, subsec_nanosecond: {}}}", s, n),
        Err(p) => format!("Timestamp{{accessors panic: {}}}", p),
    }
}

fn in_range(x: i128) -> Option<i128> {
    if (MIN_NS..=MAX_NS).contains(&x) {
        Some(x)
    } else {
        None
    }
}

fn ctor_secs() -> Vec<i64> {
    let mut v = vec![0, 1, -1, 2, -2, 86_399, 86_400, -86_400, -86_401, MIN_S - 1, MIN_S, MIN_S + 1, MAX_S - 1, MAX_S, MAX_S + 1, i64::MIN, i64::MAX];
    // around the 32-bit boundaries (truncating casts), and a few more limits
    for k in [31u32, 32, 33] {
        for d in [-1i64, 0, 1] {
            v.push((1i64 << k) + d);
            v.push(-(1i64 << k) + d);
        }
    }
    v.extend([(1i64 << 32) + (1 << 31), -(1i64 << 32) - (1 << 31), MIN_S + 2, MAX_S - 2, MIN_S - 2, MAX_S + 2, i64::MIN + 1, i64::MAX - 1]);
    v
}
fn ctor_nanos() -> Vec<i32> {
    vec![
        0, 1, -1, 999_999_999, -999_999_999, 1_000_000_000, -1_000_000_000, i32::MIN, i32::MAX, 500_000_000, -500_000_000,
        2, -2, 999_999_998, -999_999_998, 1_000_000_001, -1_000_000_001, 1_999_999_999, -1_999_999_999, 2_000_000_000, -2_000_000_000, i32::MIN + 1, i32::MAX - 1,
    ]
}

/// `Timestamp::constant` is documented to panic exactly when `Timestamp::new`
/// would return an error (instant out of range, or nanosecond outside
/// -999,999,999..=999,999,999), and to build the same value otherwise. The
/// model verdict is computed from the exact integer, not from jiff's `new`.
fn ctor_constant(r: &Report) {
    let (mut n_ok, mut n_panic) = (0u64, 0u64);
    for &s in &ctor_secs() {
        for &n in &ctor_nanos() {
            let case = format!("second={} nanosecond={}", s, n);
            let exact = s as i128 * NS + n as i128;
            let nano_ok = (-999_999_999..=999_999_999).contains(&n);
            let sec_ok = (MIN_S..=MAX_S).contains(&s);
            let want = if nano_ok { in_range(exact) } else { None };
            r.add_states(1);
            r.add_transitions(1);
            r.add_validated(1);
            match (guard(|| Timestamp::constant(s, n)), want) {
                (Err(_), None) => n_panic += 1,
                (Err(p), Some(_)) => {
                    n_panic += 1;
                    if sec_ok {
                        r.viol("ctor_constant", &format!("Timestamp::constant/panics-in-range:{}", panic_sig(&p)), case, p);
                    }
                    // else: second alone out of range, fraction brings it back: unstated, either accepted
                }
                (Ok(ts), Some(x)) => {
                    n_ok += 1;
                    check_views(r, "ctor_constant", "Timestamp::constant", &case, ts, x);
                }
                (Ok(ts), None) => {
                    n_ok += 1;
                    let class = if !nano_ok { "nanosecond-out-of-range" } else if exact < MIN_NS { "instant<MIN" } else { "instant>MAX" };
                    r.viol(
                        "ctor_constant",
                        &format!("Timestamp::constant/no-panic:{}", class),
                        case,
                        format!("jiff returned {} ; documented to panic when Timestamp::new would return an error (model: error required)", show_ts(ts)),
                    );
                }
            }
        }
    }
    r.outcome("constant_ok", n_ok);
    r.outcome("constant_panic", n_panic);
}

fn ctor_views(r: &Report) {
    let mut tally = (0u64, 0u64);
    let mut lenient = 0u64;
    let secs = ctor_secs();
    let nanos = ctor_nanos();
    // Timestamp::new / Timestamp::constant over the full product
    for &s in &secs {
        for &n in &nanos {
            let case = format!("second={} nanosecond={}", s, n);
            let exact = s as i128 * NS + n as i128;
            let nano_ok = (-999_999_999..=999_999_999).contains(&n);
            let sec_ok = (MIN_S..=MAX_S).contains(&s);
            let got = guard(|| Timestamp::new(s, n).map_err(|e| e.to_string()));
            // documented: error if the instant is out of range; nanosecond is
            // limited to -999,999,999..=999,999,999.
            let want = if nano_ok { in_range(exact) } else { None };
            if nano_ok && want.is_some() && !sec_ok {
                // The components denote an in-range instant but `second` alone
                // is outside the second range (only MAX+1 with a negative
                // fraction). The documentation does not promise acceptance;
                // either verdict is accepted, an Ok value must be exact.
                lenient += 1;
                r.add_validated(1);
                match got.clone() {
                    Err(p) => r.viol("ctor_views", &format!("Timestamp::new/{}", panic_sig(&p)), case.clone(), p),
                    Ok(Err(_)) => {}
                    Ok(Ok(ts)) => check_views(r, "ctor_views", "Timestamp::new", &case, ts, exact),
                }
            } else {
                check_ctor(r, "Timestamp::new", case.clone(), want, got.clone(), &mut tally);
            }
        }
    }
    // from_second
    for &s in &secs {
        let got = guard(|| Timestamp::from_second(s).map_err(|e| e.to_string()));
        check_ctor(r, "Timestamp::from_second", format!("second={}", s), in_range(s as i128 * NS), got, &mut tally);
    }
    // from_millisecond / from_microsecond / from_nanosecond at +-{0,1,unit-1,unit,unit+1}
    // around 0 and around both limits
    let around = |unit_per_sec: i128| -> Vec<i128> {
        let scale = NS / unit_per_sec; // ns per unit
        let min_u = MIN_NS / scale;
        let max_u = MAX_NS / scale;
        let mut v = vec![];
        for base in [0, min_u, max_u] {
            for d in [0, 1, unit_per_sec - 1, unit_per_sec, unit_per_sec + 1, 86_400 * unit_per_sec] {
                for x in [base + d, base - d] {
                    if !v.contains(&x) {
                        v.push(x);
                    }
                }
            }
        }
        for x in [i64::MIN as i128, i64::MAX as i128, i64::MIN as i128 + 1] {
            if !v.contains(&x) {
                v.push(x);
            }
        }
        v
    };
    for x in around(1_000) {
        if let Ok(m) = i64::try_from(x) {
            let got = guard(|| Timestamp::from_millisecond(m).map_err(|e| e.to_string()));
            check_ctor(r, "Timestamp::from_millisecond", format!("millisecond={}", m), in_range(x * 1_000_000), got, &mut tally);
        }
    }
    for x in around(1_000_000) {
        if let Ok(m) = i64::try_from(x) {
            let got = guard(|| Timestamp::from_microsecond(m).map_err(|e| e.to_string()));
            check_ctor(r, "Timestamp::from_microsecond", format!("microsecond={}", m), in_range(x * 1_000), got, &mut tally);
        }
    }
    let mut nsv = around(NS);
    nsv.extend([i128::MIN, i128::MAX, i128::MIN + 1, (i64::MAX as i128) * NS, (i64::MIN as i128) * NS]);
    for x in nsv {
        let got = guard(|| Timestamp::from_nanosecond(x).map_err(|e| e.to_string()));
        check_ctor(r, "Timestamp::from_nanosecond", format!("nanosecond={}", x), in_range(x), got, &mut tally);
    }
    // from_duration: (secs, nanos) with |nanos| < 1e9 (SignedDuration::new is
    // then total); error exactly when out of range (documented semver
    // guarantee).
    for &s in &secs {
        for &n in &[0i32, 1, -1, 999_999_999, -999_999_999, 500_000_000, -500_000_000, 2, -2, 999_999_998, -999_999_998] {
            let exact = s as i128 * NS + n as i128;
            if exact > i64::MAX as i128 * NS + 999_999_999 || exact < i64::MIN as i128 * NS - 999_999_999 {
                continue;
            }
            let case = format!("duration secs={} nanos={}", s, n);
            let got = guard(|| {
                let d = SignedDuration::new(s, n);
                assert_eq!(d.as_nanos(), exact, "SignedDuration::new value");
                Timestamp::from_duration(d).map_err(|e| e.to_string())
            });
            check_ctor(r, "Timestamp::from_duration", case, in_range(exact), got, &mut tally);
        }
    }
    for (label, d) in [("SignedDuration::MIN", SignedDuration::MIN), ("SignedDuration::MAX", SignedDuration::MAX), ("SignedDuration::ZERO", SignedDuration::ZERO)] {
        let exact = d.as_nanos();
        let got = guard(|| Timestamp::from_duration(d).map_err(|e| e.to_string()));
        check_ctor(r, "Timestamp::from_duration", format!("duration {}", label), in_range(exact), got, &mut tally);
    }
    // the whole timestamp pool through every view
    if let Ok(pool) = guard(vf::pools::timestamps) {
        for ts in pool {
            if let Ok(x) = guard(|| ts.as_nanosecond()) {
                r.add_states(1);
                check_views(r, "ctor_views", "pool", &format!("pool timestamp {}ns", x), ts, x);
                // unit constructors of the truncated views reproduce the truncated instant
                let ms = x / 1_000_000;
                let got = guard(|| Timestamp::from_millisecond(ms as i64).map_err(|e| e.to_string()));
                check_ctor(r, "Timestamp::from_millisecond", format!("millisecond={}", ms), in_range(ms * 1_000_000), got, &mut tally);
                let us = x / 1_000;
                let got = guard(|| Timestamp::from_microsecond(us as i64).map_err(|e| e.to_string()));
                check_ctor(r, "Timestamp::from_microsecond", format!("microsecond={}", us), in_range(us * 1_000), got, &mut tally);
            }
        }
    }
    r.outcome("ctor_ok", tally.0);
    r.outcome("ctor_err", tally.1);
    r.outcome("ctor_new_second_out_fraction_in(unstated, either verdict accepted)", lenient);
    r.require(tally.0 > 0 && tally.1 > 0, "constructors both accept and reject");
}
