//! C07: differences are reversible, balanced and sign-consistent for every
//! largest unit. E1: complete products (value pool) x (value pool) x (every
//! largest unit the type permits) for `Date`, `DateTime`, `Time`,
//! `Timestamp`; for `Zoned`: zones x every transition T x all ordered pairs
//! of the neighbourhood T (+) {0, +-1ns, +-1s, +-30min, +-1h, +-1h30,
//! +-(1d-1h), +-1d, +-(1d+1h), +-30d} x largest unit.
//!
//! Oracle (DESIGN.md section 3/C07), for s = a.until((largest, b)):
//! * no panic;
//! * `a + s == b`, with jiff's own `checked_add` (pinned by C06 / C08);
//! * every non-zero unit of s has the sign of b - a; a == b gives the zero span;
//! * no unit above `largest` is non-zero; weeks only when `largest == Week`;
//! * balanced, judged by the overshoot test: for each permitted calendar unit
//!   U from `largest` down to days, adding one more U (in the direction of
//!   the span) to the part of s made of the units >= U must go beyond b. The
//!   time part of s must be the exact decomposition of its own total (minutes
//!   < 60, ... ; hours are bounded by the overshoot test on days, so a
//!   25-hour civil day may show 24 hours);
//! * where every unit has a fixed length (largest <= hour for all types,
//!   largest <= week for civil dates/datetimes) s is the exact decomposition
//!   of the `i128` nanosecond distance, truncating toward zero;
//! * `a.since(b) == -(a.until(b))` field by field; `b - a` (operator) equals
//!   `-(b.until(a))` with the default largest unit;
//! * `duration_until` / `duration_since` are the exact nanosecond distance;
//! * an error is expected exactly when `largest == Nanosecond` and the
//!   distance does not fit an `i64` (documented).
//!
//! Known defects get narrow, input-derived signatures: a Zoned pair in which a
//! or b lies on the *later* side of a fold (F9; with b < a and b on the later
//! side the `panic!("this should be an error")`, F8).
//!
//! Extensions (coverage audit):
//! * every addition jiff performs for the oracle (`a + s`, the overshoot
//!   probes) is repeated by the reference model (`c07/model.rs`: refmodel::cal
//!   for dates and datetimes, refmodel::tz with the compatible strategy for
//!   zoned values); a disagreement is `<T>::checked_add(..)/differs-from-model`,
//!   so a defect shared by `until` and `checked_add` cannot cancel out;
//! * for `Date` / `DateTime` with largest = year or month the span is compared
//!   with its independent definition (`model::expected_calendar`): greedy with
//!   month-end clamping, or Temporal's field-wise "surpasses" rule (they differ
//!   only for clamped month ends; either is accepted, which one is counted);
//!   the month-overflow error is expected exactly when that count exceeds the
//!   documented limit;
//! * Zoned: synthetic zones also in the quick tier; pairs across consecutive
//!   transitions and about 1 / 4 years apart; for transitions moving the wall
//!   clock by 20 h or more a neighbourhood of +-4 civil days with times of day
//!   aligned across the jump; section `zoned_extreme`: hand-built TZif data
//!   with +-25:59:59 offsets (single 52 h gaps/folds, two and three such
//!   transitions hours apart, a saw) and POSIX zones with ~50 h jumps - the
//!   day-correction search of `Zoned::until` (bounded by 4) must never give up;
//! * sections `errors`, `forms`, `zoned_cross_zone` (`c07/forms.rs`): the
//!   documented unit refusals, every argument form of every `*Difference`
//!   type, and differences between values of different time zones.

use jiff::civil::{Date, DateTime, Time};
use jiff::{Span, Timestamp, Unit, Zoned};
use rayon::prelude::*;
use refmodel::{cal, tz as rtz};
use serde_json::json;
use std::collections::BTreeSet;
use std::sync::atomic::{AtomicU64, Ordering::Relaxed};
use vf::conv::{self, DAY_NS, NS};
use vf::zones::{self, Pair, ZoneSrc};
use vf::{guard, panic_sig, Report};

#[path = "c07/model.rs"]
mod model;
#[path = "c07/hand.rs"]
mod hand;
#[path = "c07/forms.rs"]
mod forms;

use model::{decompose, MAdd, Sp, H, MONTHS_LIMIT, UNIT_NS};
const UNITS: [Unit; 10] = [
    Unit::Year,
    Unit::Month,
    Unit::Week,
    Unit::Day,
    Unit::Hour,
    Unit::Minute,
    Unit::Second,
    Unit::Millisecond,
    Unit::Microsecond,
    Unit::Nanosecond,
];
const UNAME: [&str; 10] = ["year", "month", "week", "day", "hour", "minute", "second", "millisecond", "microsecond", "nanosecond"];

fn fields(s: &Span) -> Sp {
    [
        s.get_years() as i64,
        s.get_months() as i64,
        s.get_weeks() as i64,
        s.get_days() as i64,
        s.get_hours() as i64,
        s.get_minutes(),
        s.get_seconds(),
        s.get_milliseconds(),
        s.get_microseconds(),
        s.get_nanoseconds(),
    ]
}

/// a single-signed span from its fields; None if beyond the documented limits
fn mk_span(sp: &Sp) -> Option<Span> {
    let neg = sp.iter().any(|&x| x < 0);
    if neg && sp.iter().any(|&x| x > 0) {
        return None;
    }
    let a: Vec<i64> = sp.iter().map(|x| x.abs()).collect();
    let s = Span::new()
        .try_years(a[0])
        .and_then(|s| s.try_months(a[1]))
        .and_then(|s| s.try_weeks(a[2]))
        .and_then(|s| s.try_days(a[3]))
        .and_then(|s| s.try_hours(a[4]))
        .and_then(|s| s.try_minutes(a[5]))
        .and_then(|s| s.try_seconds(a[6]))
        .and_then(|s| s.try_milliseconds(a[7]))
        .and_then(|s| s.try_microseconds(a[8]))
        .and_then(|s| s.try_nanoseconds(a[9]))
        .ok()?;
    Some(if neg { s.negate() } else { s })
}

fn fmt_sp(sp: &Sp) -> String {
    const N: [&str; 10] = ["y", "mo", "w", "d", "h", "mi", "s", "ms", "us", "ns"];
    let parts: Vec<String> = (0..10).filter(|&u| sp[u] != 0).map(|u| format!("{}={}", N[u], sp[u])).collect();
    format!("span{{{}}}", parts.join(","))
}

// ---------------------------------------------------------------------------
// the five types behind one interface
// ---------------------------------------------------------------------------

trait Val: Clone + Send + Sync {
    const NAME: &'static str;
    /// index of the first unit for which the exact decomposition applies
    const EXACT_FROM: usize;
    fn until(&self, largest: Unit, other: &Self) -> Result<Span, String>;
    fn since(&self, largest: Unit, other: &Self) -> Result<Span, String>;
    fn add(&self, s: Span) -> Option<Self>;
    /// position on the type's own axis, in ns
    fn pos(&self) -> i128;
    fn show(&self) -> String;
    fn dur_until(&self, other: &Self) -> i128;
    fn dur_since(&self, other: &Self) -> i128;
    /// `self - other`
    fn op_sub(&self, other: &Self) -> Span;
    fn default_largest() -> usize;
    fn ymd(&self) -> Option<(i64, i64, i64)>;
    /// position on the wall clock (differs from `pos` only for Zoned)
    fn civil_pos(&self) -> i128 {
        self.pos()
    }
    /// Date and DateTime: the year/month difference has an independent
    /// expected value (`model::expected_calendar`)
    const CIVIL_CAL: bool = false;
    /// `self + f` by the reference model (refmodel::cal / refmodel::tz), no jiff
    fn model_add(&self, f: &Sp, zc: Option<&ZCtx>) -> MAdd;
}

/// the reference side of a zone
#[derive(Clone, Copy)]
struct ZCtx<'a> {
    model: &'a rtz::Zone,
    taint: &'a [(i64, i64)],
}

impl Val for Date {
    const NAME: &'static str = "Date";
    const EXACT_FROM: usize = 2;
    fn until(&self, l: Unit, o: &Self) -> Result<Span, String> {
        Date::until(*self, (l, *o)).map_err(|e| e.to_string())
    }
    fn since(&self, l: Unit, o: &Self) -> Result<Span, String> {
        Date::since(*self, (l, *o)).map_err(|e| e.to_string())
    }
    fn add(&self, s: Span) -> Option<Self> {
        self.checked_add(s).ok()
    }
    fn pos(&self) -> i128 {
        conv::date_epoch_day(*self) as i128 * DAY_NS
    }
    fn show(&self) -> String {
        self.to_string()
    }
    fn dur_until(&self, o: &Self) -> i128 {
        canon_ns(self.duration_until(*o))
    }
    fn dur_since(&self, o: &Self) -> i128 {
        canon_ns(self.duration_since(*o))
    }
    fn op_sub(&self, o: &Self) -> Span {
        *self - *o
    }
    fn default_largest() -> usize {
        3
    }
    fn ymd(&self) -> Option<(i64, i64, i64)> {
        Some(conv::date_ymd(*self))
    }
    const CIVIL_CAL: bool = true;
    fn model_add(&self, f: &Sp, _: Option<&ZCtx>) -> MAdd {
        if model::time_total(f) != 0 {
            return MAdd::Unknown;
        }
        match model::date_add(conv::date_ymd(*self), f) {
            Some(d) => MAdd::At(d as i128 * DAY_NS, None),
            None => MAdd::Fail,
        }
    }
}

impl Val for DateTime {
    const NAME: &'static str = "DateTime";
    const EXACT_FROM: usize = 2;
    fn until(&self, l: Unit, o: &Self) -> Result<Span, String> {
        DateTime::until(*self, (l, *o)).map_err(|e| e.to_string())
    }
    fn since(&self, l: Unit, o: &Self) -> Result<Span, String> {
        DateTime::since(*self, (l, *o)).map_err(|e| e.to_string())
    }
    fn add(&self, s: Span) -> Option<Self> {
        self.checked_add(s).ok()
    }
    fn pos(&self) -> i128 {
        conv::dt_civil_ns(*self)
    }
    fn show(&self) -> String {
        self.to_string()
    }
    fn dur_until(&self, o: &Self) -> i128 {
        canon_ns(self.duration_until(*o))
    }
    fn dur_since(&self, o: &Self) -> i128 {
        canon_ns(self.duration_since(*o))
    }
    fn op_sub(&self, o: &Self) -> Span {
        *self - *o
    }
    fn default_largest() -> usize {
        3
    }
    fn ymd(&self) -> Option<(i64, i64, i64)> {
        Some(conv::date_ymd(self.date()))
    }
    const CIVIL_CAL: bool = true;
    fn model_add(&self, f: &Sp, _: Option<&ZCtx>) -> MAdd {
        match model::civil_add(self.pos(), f) {
            Some(x) => MAdd::At(x, None),
            None => MAdd::Fail,
        }
    }
}

impl Val for Time {
    const NAME: &'static str = "Time";
    const EXACT_FROM: usize = 4;
    fn until(&self, l: Unit, o: &Self) -> Result<Span, String> {
        Time::until(*self, (l, *o)).map_err(|e| e.to_string())
    }
    fn since(&self, l: Unit, o: &Self) -> Result<Span, String> {
        Time::since(*self, (l, *o)).map_err(|e| e.to_string())
    }
    fn add(&self, s: Span) -> Option<Self> {
        self.checked_add(s).ok()
    }
    fn pos(&self) -> i128 {
        conv::time_ns(*self)
    }
    fn show(&self) -> String {
        self.to_string()
    }
    fn dur_until(&self, o: &Self) -> i128 {
        canon_ns(self.duration_until(*o))
    }
    fn dur_since(&self, o: &Self) -> i128 {
        canon_ns(self.duration_since(*o))
    }
    fn op_sub(&self, o: &Self) -> Span {
        *self - *o
    }
    fn default_largest() -> usize {
        4
    }
    fn ymd(&self) -> Option<(i64, i64, i64)> {
        None
    }
    fn model_add(&self, f: &Sp, _: Option<&ZCtx>) -> MAdd {
        if model::has_calendar(f) {
            return MAdd::Unknown;
        }
        let x = self.pos() + model::time_total(f);
        if (0..DAY_NS).contains(&x) {
            MAdd::At(x, None)
        } else {
            MAdd::Fail
        }
    }
}

impl Val for Timestamp {
    const NAME: &'static str = "Timestamp";
    const EXACT_FROM: usize = 4;
    fn until(&self, l: Unit, o: &Self) -> Result<Span, String> {
        Timestamp::until(*self, (l, *o)).map_err(|e| e.to_string())
    }
    fn since(&self, l: Unit, o: &Self) -> Result<Span, String> {
        Timestamp::since(*self, (l, *o)).map_err(|e| e.to_string())
    }
    fn add(&self, s: Span) -> Option<Self> {
        self.checked_add(s).ok()
    }
    fn pos(&self) -> i128 {
        self.as_nanosecond()
    }
    fn show(&self) -> String {
        conv::fmt_ns(self.as_nanosecond())
    }
    fn dur_until(&self, o: &Self) -> i128 {
        canon_ns(self.duration_until(*o))
    }
    fn dur_since(&self, o: &Self) -> i128 {
        canon_ns(self.duration_since(*o))
    }
    fn op_sub(&self, o: &Self) -> Span {
        *self - *o
    }
    fn default_largest() -> usize {
        6
    }
    fn ymd(&self) -> Option<(i64, i64, i64)> {
        None
    }
    fn model_add(&self, f: &Sp, _: Option<&ZCtx>) -> MAdd {
        if model::has_calendar(f) {
            return MAdd::Unknown;
        }
        let x = self.pos() + model::time_total(f);
        if x >= conv::ts_min_ns() && x <= conv::ts_max_ns() {
            MAdd::At(x, None)
        } else {
            MAdd::Fail
        }
    }
}

impl Val for Zoned {
    const NAME: &'static str = "Zoned";
    const EXACT_FROM: usize = 4;
    fn until(&self, l: Unit, o: &Self) -> Result<Span, String> {
        Zoned::until(self, (l, o)).map_err(|e| e.to_string())
    }
    fn since(&self, l: Unit, o: &Self) -> Result<Span, String> {
        Zoned::since(self, (l, o)).map_err(|e| e.to_string())
    }
    fn add(&self, s: Span) -> Option<Self> {
        self.checked_add(s).ok()
    }
    fn pos(&self) -> i128 {
        self.timestamp().as_nanosecond()
    }
    fn show(&self) -> String {
        format!("{}({})", conv::fmt_ns(self.timestamp().as_nanosecond()), self.datetime())
    }
    fn dur_until(&self, o: &Self) -> i128 {
        canon_ns(self.duration_until(o))
    }
    fn dur_since(&self, o: &Self) -> i128 {
        canon_ns(self.duration_since(o))
    }
    fn op_sub(&self, o: &Self) -> Span {
        self - o
    }
    fn default_largest() -> usize {
        4
    }
    fn ymd(&self) -> Option<(i64, i64, i64)> {
        Some(conv::date_ymd(self.date()))
    }
    fn civil_pos(&self) -> i128 {
        conv::dt_civil_ns(self.datetime())
    }
    fn model_add(&self, f: &Sp, zc: Option<&ZCtx>) -> MAdd {
        match zc {
            Some(zc) => model::z_add(zc.model, self.pos(), f, conv::ts_min_ns(), conv::ts_max_ns()),
            None => MAdd::Unknown,
        }
    }
}

// ---------------------------------------------------------------------------
// the judge
// ---------------------------------------------------------------------------

#[derive(Default)]
struct Tally {
    cases: AtomicU64,
    by_largest: [AtomicU64; 10],
    zero: AtomicU64,
    pos: AtomicU64,
    neg: AtomicU64,
    err_ns_overflow: AtomicU64,
    err_month_overflow: AtomicU64,
    adjusted_accept: AtomicU64,
    exact: AtomicU64,
    overshoot_tests: AtomicU64,
    overshoot_by_overflow: AtomicU64,
    equal_by_clamping: AtomicU64,
    hours_ge_24: AtomicU64,
    z_a_later: AtomicU64,
    z_b_later: AtomicU64,
    z_pairs: AtomicU64,
    z_transitions: AtomicU64,
    z_zones: AtomicU64,
    z_not_loaded: AtomicU64,
    z_skip_offset: AtomicU64,
    z_skip_taint: AtomicU64,
    z_known_class_cases: AtomicU64,
    // extensions
    model_add_checked: AtomicU64,
    model_add_unknown: AtomicU64,
    model_add_skip_taint: AtomicU64,
    model_add_range_only: AtomicU64,
    expected_checked: AtomicU64,
    expected_g_ne_t: AtomicU64,
    chose_greedy: AtomicU64,
    chose_temporal: AtomicU64,
    z_wide_pairs: AtomicU64,
    z_hand_zones: AtomicU64,
    z_posix_zones: AtomicU64,
    z_cross_pairs: AtomicU64,
    z_far_pairs: AtomicU64,
    z_ext_nb_transitions: AtomicU64,
    z_day_correct_ge3: AtomicU64,
    z_day_correct_ge4: AtomicU64,
}

/// input class of a pair (only Zoned has classes)
#[derive(Clone, Copy, Default)]
struct Cls {
    a_later: bool,
    b_later: bool,
    /// a or b reads a wall-clock time repeated by a fold that crosses midnight
    fold_x_midnight: bool,
    near_limit: bool,
    /// a transition that moves the wall clock by more than 24 h lies between a and b
    wide: bool,
}

struct Ck<'a> {
    r: &'a Report,
    t: &'a Tally,
    sec: &'a str,
    /// prefix of the case string (zone name), may be empty
    head: String,
    /// the reference zone, for Zoned values
    zc: Option<ZCtx<'a>>,
}

impl<'a> Ck<'a> {
    /// Second opinion on an addition jiff performed (`jiff` = position of its
    /// result, None if it failed): the reference model's addition. Without it
    /// a defect shared by `until` and `checked_add` would cancel out in
    /// `a + s == b` and in the overshoot probes.
    fn cmp_model_add<T: Val>(&self, what: &str, a: &T, g: &Sp, jiff: Option<i128>, vsfx: &str, case: &dyn Fn() -> String) {
        let t = self.t;
        match a.model_add(g, self.zc.as_ref()) {
            MAdd::Unknown => {
                t.model_add_unknown.fetch_add(1, Relaxed);
            }
            MAdd::At(m, mid) => {
                if let (Some(zc), Some(mid)) = (self.zc.as_ref(), mid) {
                    // F7 (C03/C04): jiff reads wall-clock times near such rule transitions differently
                    if tainted(zc.taint, floor_sec(mid)) || tainted(zc.taint, floor_sec(m)) {
                        t.model_add_skip_taint.fetch_add(1, Relaxed);
                        return;
                    }
                }
                match jiff {
                    Some(x) => {
                        t.model_add_checked.fetch_add(1, Relaxed);
                        if x != m {
                            self.r.viol(
                                self.sec,
                                &format!("{}::checked_add({})/differs-from-model{}", T::NAME, what, vsfx),
                                case(),
                                format!("a + {} : jiff {} model {}", fmt_sp(g), conv::fmt_ns(x), conv::fmt_ns(m)),
                            );
                        }
                    }
                    None if T::CIVIL_CAL => {
                        self.r.viol(self.sec, &format!("{}::checked_add({})/fails-but-model-in-range", T::NAME, what), case(), format!("a + {} : model {}", fmt_sp(g), conv::fmt_ns(m)));
                    }
                    None => {
                        t.model_add_range_only.fetch_add(1, Relaxed);
                    }
                }
            }
            MAdd::Fail => match jiff {
                Some(x) if T::CIVIL_CAL => {
                    self.r.viol(self.sec, &format!("{}::checked_add({})/succeeds-but-model-out-of-range", T::NAME, what), case(), format!("a + {} : jiff {}", fmt_sp(g), conv::fmt_ns(x)));
                }
                Some(_) => {
                    t.model_add_range_only.fetch_add(1, Relaxed);
                }
                None => {
                    t.model_add_checked.fetch_add(1, Relaxed);
                }
            },
        }
    }

    fn case<T: Val>(&self, a: &T, b: &T, li: usize) -> String {
        format!("{}{} a={} b={} largest={}", self.head, T::NAME, a.show(), b.show(), UNAME[li])
    }

    /// all checks that depend on the largest unit
    fn pair_unit<T: Val>(&self, a: &T, b: &T, li: usize, cls: Cls) -> u64 {
        let r = self.r;
        let t = self.t;
        let sec = self.sec;
        let n = b.pos() - a.pos();
        let sign = n.signum() as i64;
        t.cases.fetch_add(1, Relaxed);
        t.by_largest[li].fetch_add(1, Relaxed);
        match sign {
            0 => t.zero.fetch_add(1, Relaxed),
            1 => t.pos.fetch_add(1, Relaxed),
            _ => t.neg.fetch_add(1, Relaxed),
        };
        let calendar = li < T::EXACT_FROM;
        // input-derived class suffixes
        let vsfx: &str = if calendar && cls.fold_x_midnight {
            ":a-or-b-in-fold-that-straddles-midnight,largest>=day"
        } else if calendar && (cls.a_later || cls.b_later) {
            t.z_known_class_cases.fetch_add(1, Relaxed);
            ":a-or-b-in-fold-later-side,largest>=day"
        } else if calendar && cls.wide {
            ":transition-of-more-than-24h-between-a-and-b,largest>=day"
        } else if cls.near_limit {
            ":near-range-limit"
        } else {
            ""
        };
        let psfx: &str = if calendar && sign < 0 && cls.b_later {
            ":b<a,b-in-fold-later-side,largest>=day"
        } else if calendar && (cls.a_later || cls.b_later) {
            ":a-or-b-in-fold-later-side,largest>=day"
        } else if calendar && cls.wide {
            ":transition-of-more-than-24h-between-a-and-b,largest>=day"
        } else if cls.near_limit {
            ":near-range-limit"
        } else {
            ""
        };
        let case = || self.case(a, b, li);
        let mut k = 1u64;
        let s = match guard(|| a.until(UNITS[li], b)) {
            Err(p) => {
                r.viol(sec, &format!("{}::until/{}{}", T::NAME, panic_sig(&p), psfx), case(), p);
                return k;
            }
            Ok(Err(e)) => {
                // documented: an error when the span would exceed the limits
                // of a unit. Only nanoseconds (i64) and months (239 976, while
                // the supported range spans 239 987 months) can.
                let md = match (a.ymd(), b.ymd()) {
                    (Some((ya, ma, _)), Some((yb, mb, _))) => ((yb * 12 + mb) - (ya * 12 + ma)).abs(),
                    _ => 0,
                };
                let month_overflow = if T::CIVIL_CAL {
                    // exact: the whole-month count (by either admissible definition) exceeds the limit
                    li == 1 && model::expected_calendar(a.pos(), b.pos(), 1).iter().any(|e| e.is_none())
                } else {
                    li == 1 && md > MONTHS_LIMIT
                };
                if li == 9 && (n > i64::MAX as i128 || n < -(i64::MAX as i128)) {
                    t.err_ns_overflow.fetch_add(1, Relaxed);
                } else if month_overflow {
                    // md - 1 or md whole months lie between a and b
                    t.err_month_overflow.fetch_add(1, Relaxed);
                } else {
                    r.viol(sec, &format!("{}::until/unexpected-error{}", T::NAME, vsfx), case(), e);
                }
                return k;
            }
            Ok(Ok(s)) => s,
        };
        let f = fields(&s);
        if calendar && cls.wide {
            // how many whole civil days lie between the intermediate datetime
            // (a + calendar part) and b: the corrections Zoned::until needed
            let mut c = [0i64; 10];
            c[..4].copy_from_slice(&f[..4]);
            if let Some(mid) = model::civil_add(a.civil_pos(), &c) {
                let dd = (b.civil_pos().div_euclid(DAY_NS) - mid.div_euclid(DAY_NS)).abs();
                if dd >= 3 {
                    t.z_day_correct_ge3.fetch_add(1, Relaxed);
                }
                if dd >= 4 {
                    t.z_day_correct_ge4.fetch_add(1, Relaxed);
                }
            }
        }
        if li == 9 && (n > i64::MAX as i128 || n < -(i64::MAX as i128)) {
            r.viol(sec, &format!("{}::until/ok-but-nanoseconds-do-not-fit{}", T::NAME, vsfx), case(), format!("until = {} (distance {} ns)", fmt_sp(&f), n));
            return k;
        }
        let detail = |what: &str| format!("{}: until = {} (distance {} ns)", what, fmt_sp(&f), n);
        // units above largest; weeks
        if (0..li).any(|u| f[u] != 0) {
            r.viol(sec, &format!("{}::until/unit-above-largest{}", T::NAME, vsfx), case(), detail("a unit above largest is non-zero"));
        }
        if li != 2 && f[2] != 0 {
            r.viol(sec, &format!("{}::until/weeks-populated-without-largest=week{}", T::NAME, vsfx), case(), detail("weeks non-zero"));
        }
        // sign
        let sign_ok = f.iter().all(|&x| x == 0 || x.signum() == sign);
        if !sign_ok {
            r.viol(sec, &format!("{}::until/sign{}", T::NAME, vsfx), case(), detail("a unit has the wrong sign"));
        }
        k += 1;
        // a + s == b
        match guard(|| a.add(s)) {
            Err(p) => r.viol(sec, &format!("{}::checked_add(until)/{}{}", T::NAME, panic_sig(&p), vsfx), case(), p),
            Ok(None) => r.viol(sec, &format!("{}::until/a+s-fails{}", T::NAME, vsfx), case(), detail("a.checked_add(s) is an error")),
            Ok(Some(x)) => {
                if x.pos() != b.pos() {
                    r.viol(sec, &format!("{}::until/a+s!=b{}", T::NAME, vsfx), case(), format!("a + s = {}; until = {} (distance {} ns)", x.show(), fmt_sp(&f), n));
                }
                if sign_ok {
                    self.cmp_model_add("until", a, &f, Some(x.pos()), vsfx, &case);
                    k += 1;
                }
            }
        }
        k += 1;
        // the year/month difference against its independent definition
        if T::CIVIL_CAL && li <= 1 {
            let [g, tt] = model::expected_calendar(a.pos(), b.pos(), li);
            t.expected_checked.fetch_add(1, Relaxed);
            k += 1;
            if g != tt {
                t.expected_g_ne_t.fetch_add(1, Relaxed);
            }
            if g == Some(f) {
                if g != tt {
                    t.chose_greedy.fetch_add(1, Relaxed);
                }
            } else if tt == Some(f) {
                t.chose_temporal.fetch_add(1, Relaxed);
            } else {
                let show = |e: &Option<Sp>| e.as_ref().map(fmt_sp).unwrap_or_else(|| "error(months exceed the span limit)".into());
                r.viol(
                    sec,
                    &format!("{}::until/not-the-expected-span:largest={}", T::NAME, UNAME[li]),
                    case(),
                    format!("jiff {}; model: greedy-with-clamping {} / field-wise (Temporal) {}", fmt_sp(&f), show(&g), show(&tt)),
                );
            }
        }
        // exact decomposition where all units have a fixed length
        if !calendar {
            t.exact.fetch_add(1, Relaxed);
            let want = decompose(n, li);
            if f != want {
                r.viol(sec, &format!("{}::until/not-the-exact-decomposition{}", T::NAME, vsfx), case(), format!("jiff {} exact {}", fmt_sp(&f), fmt_sp(&want)));
            }
            k += 1;
        } else if sign_ok {
            // time part balanced among itself
            let tt: i128 = (4..10).map(|u| f[u] as i128 * UNIT_NS[u]).sum();
            let want = decompose(tt, 4);
            if f[4..] != want[4..] {
                r.viol(sec, &format!("{}::until/unbalanced:time-units{}", T::NAME, vsfx), case(), format!("jiff {} time part balanced {}", fmt_sp(&f), fmt_sp(&want)));
            }
            if f[4].abs() >= 24 {
                t.hours_ge_24.fetch_add(1, Relaxed);
            }
            // overshoot test on the calendar units
            if sign != 0 {
                for u in li..=3 {
                    if u == 2 && li != 2 {
                        continue;
                    }
                    let mut g = [0i64; 10];
                    g[..=u].copy_from_slice(&f[..=u]);
                    g[u] += sign;
                    t.overshoot_tests.fetch_add(1, Relaxed);
                    k += 1;
                    let Some(sp) = mk_span(&g) else {
                        t.overshoot_by_overflow.fetch_add(1, Relaxed);
                        continue;
                    };
                    match guard(|| a.add(sp)) {
                        Err(p) => r.viol(sec, &format!("{}::checked_add(probe)/{}{}", T::NAME, panic_sig(&p), vsfx), case(), p),
                        Ok(None) => {
                            t.overshoot_by_overflow.fetch_add(1, Relaxed);
                            self.cmp_model_add("probe", a, &g, None, vsfx, &case);
                        }
                        Ok(Some(x)) => {
                            self.cmp_model_add("probe", a, &g, Some(x.pos()), vsfx, &case);
                            let d = (x.pos() - b.pos()).signum() as i64 * sign;
                            if d > 0 {
                                continue;
                            }
                            // Not beyond b. That is not a missed carry when the
                            // probe addition was *adjusted* (day of month clamped:
                            // Jan 31 + 1 month = Feb 28; or, for Zoned, the civil
                            // result moved out of a gap) and the unadjusted
                            // wall-clock result does lie beyond b's wall-clock
                            // reading (the "surpasses" rule of date differences).
                            if let Some((y, m, dd)) = a.ymd() {
                                let tod = a.civil_pos().rem_euclid(DAY_NS);
                                let (y2, m2) = cal::add_months(y, m, g[0] * 12 + g[1]);
                                let beyond = |virt: i128| x.civil_pos() != virt && (virt - b.civil_pos()).signum() as i64 * sign > 0;
                                // (1) clamping: the wall-clock result with the day of month *not* clamped
                                let vday = cal::days_from_civil(y2, m2, 1) as i128 + (dd - 1) as i128 + (g[2] * 7 + g[3]) as i128;
                                // (2) gap resolution: the (clamped) civil result *before* it was moved out of a gap
                                let unresolved = model::civil_add(a.civil_pos(), &g);
                                if beyond(vday * DAY_NS + tod) || unresolved.map_or(false, beyond) {
                                    if dd > cal::days_in_month(y2, m2) {
                                        t.equal_by_clamping.fetch_add(1, Relaxed);
                                    } else {
                                        t.adjusted_accept.fetch_add(1, Relaxed);
                                    }
                                    continue;
                                }
                            }
                            // inside the known input class the unit is not part of the signature
                            let which = if vsfx.starts_with(":a-or-b-in-fold") { String::new() } else { format!(":one-more-{}-does-not-overshoot", UNAME[u]) };
                            r.viol(
                                sec,
                                &format!("{}::until/unbalanced{}{}", T::NAME, which, vsfx),
                                case(),
                                format!("until = {}; a + {} = {} which is {} b", fmt_sp(&f), fmt_sp(&g), x.show(), if d == 0 { "equal to" } else { "short of" }),
                            );
                        }
                    }
                }
            }
        }
        if sign == 0 && f != [0i64; 10] {
            r.viol(sec, &format!("{}::until/non-zero-span-for-equal-values{}", T::NAME, vsfx), case(), detail("a == b"));
        }
        // since == -until
        match guard(|| a.since(UNITS[li], b)) {
            Err(p) => r.viol(sec, &format!("{}::since/{}{}", T::NAME, panic_sig(&p), psfx), case(), p),
            Ok(Err(e)) => r.viol(sec, &format!("{}::since/unexpected-error{}", T::NAME, vsfx), case(), e),
            Ok(Ok(s2)) => {
                let f2 = fields(&s2);
                let neg: Sp = core::array::from_fn(|u| -f[u]);
                if f2 != neg {
                    r.viol(sec, &format!("{}::since/not-the-negation-of-until{}", T::NAME, vsfx), case(), format!("since {} until {}", fmt_sp(&f2), fmt_sp(&f)));
                }
            }
        }
        k += 1;
        k
    }

    /// checks that do not depend on the largest unit
    fn pair_once<T: Val>(&self, a: &T, b: &T, cls: Cls) -> u64 {
        let r = self.r;
        let sec = self.sec;
        let n = b.pos() - a.pos();
        let case = || format!("{}{} a={} b={}", self.head, T::NAME, a.show(), b.show());
        match guard(|| (a.dur_until(b), a.dur_since(b))) {
            Err(p) => r.viol(sec, &format!("{}::duration_until/{}", T::NAME, panic_sig(&p)), case(), p),
            Ok((u, s)) => {
                if u != n {
                    r.viol(sec, &format!("{}::duration_until/value", T::NAME), case(), format!("jiff {} exact {}", u, n));
                }
                if s != -n {
                    r.viol(sec, &format!("{}::duration_since/value", T::NAME), case(), format!("jiff {} exact {}", s, -n));
                }
            }
        }
        // operator: b - a == -(b.until(a)) with the default largest unit
        let dl = T::default_largest();
        let _ = cls;
        match guard(|| (b.op_sub(a), b.until(UNITS[dl], a))) {
            Err(p) => r.viol(sec, &format!("{} - {}/{}", T::NAME, T::NAME, panic_sig(&p)), case(), p),
            Ok((d, Ok(u))) => {
                let fd = fields(&d);
                let fu = fields(&u);
                let neg: Sp = core::array::from_fn(|i| -fu[i]);
                if fd != neg {
                    r.viol(sec, &format!("{} - {}/not-the-negation-of-until", T::NAME, T::NAME), case(), format!("b - a = {}; b.until(a) = {}", fmt_sp(&fd), fmt_sp(&fu)));
                }
                // and, the default largest unit having a fixed length, it is exact
                let want = decompose(n, dl);
                if fd != want {
                    r.viol(sec, &format!("{} - {}/not-the-exact-decomposition", T::NAME, T::NAME), case(), format!("b - a = {}; exact {}", fmt_sp(&fd), fmt_sp(&want)));
                }
            }
            Ok((_, Err(e))) => r.viol(sec, &format!("{}::until/unexpected-error:default-largest", T::NAME), case(), e),
        }
        3
    }
}

// ---------------------------------------------------------------------------
// pools
// ---------------------------------------------------------------------------

fn month_edge_dates(years: &[i64]) -> Vec<Date> {
    let mut s = BTreeSet::new();
    for &y in years {
        for m in 1..=12 {
            let dim = cal::days_in_month(y, m);
            s.insert((y, m, 1));
            s.insert((y, m, dim));
            if m == 2 {
                s.insert((y, 2, 28));
            }
            if m == 1 || m == 3 {
                s.insert((y, m, 29));
                s.insert((y, m, 30));
            }
        }
    }
    s.into_iter().map(|(y, m, d)| Date::new(y as i16, m as i8, d as i8).unwrap()).collect()
}

fn date_pool(thorough: bool) -> Vec<Date> {
    let mut v = vf::pools::dates();
    let years: Vec<i64> = if thorough { (2020..=2027).chain(1896..=1903).chain(-4..=3).collect() } else { (2020..=2027).collect() };
    for d in month_edge_dates(&years) {
        if !v.contains(&d) {
            v.push(d);
        }
    }
    v
}

fn run_civil<T: Val>(r: &Report, t: &Tally, sec: &str, pool: &[T], largest: &[usize]) {
    r.section(sec, || {
        let ck = Ck { r, t, sec, head: String::new(), zc: None };
        pool.par_iter().for_each(|a| {
            let mut k = 0u64;
            let mut n = 0u64;
            for b in pool {
                k += ck.pair_once(a, b, Cls::default());
                for &li in largest {
                    k += ck.pair_unit(a, b, li, Cls::default());
                    n += 1;
                }
            }
            r.add_states(n);
            r.add_transitions(k);
            r.add_validated(k);
        });
        r.count(&format!("{}_pool", sec), pool.len() as u64);
    });
}

// ---------------------------------------------------------------------------
// zoned
// ---------------------------------------------------------------------------

fn off(z: &rtz::Zone, k: usize) -> i64 {
    z.infos[z.pieces[k].info as usize].utoff as i64
}

fn floor_sec(ns: i128) -> i64 {
    ns.div_euclid(NS) as i64
}

/// Windows around rule transitions whose exact UTC instant, or one of whose
/// wall-clock readings, lies outside the rule's own year (F7; same test as C04).
fn taint_windows(z: &rtz::Zone) -> Vec<(i64, i64)> {
    let mut v: Vec<(i64, i64)> = vec![];
    for j in 1..z.pieces.len() {
        let p = &z.pieces[j];
        if p.recorded {
            continue;
        }
        let o1 = off(z, j - 1);
        let o2 = off(z, j);
        let y0 = cal::days_from_civil(p.rule_year, 1, 1) * 86_400;
        let y1 = cal::days_from_civil(p.rule_year + 1, 1, 1) * 86_400;
        let pts = [p.start, p.start + o1, p.start + o2];
        let mn = *pts.iter().min().unwrap();
        let mx = *pts.iter().max().unwrap();
        let (a, b) = if mn < y0 {
            (mn, mx.max(y0))
        } else if mx >= y1 - 1 {
            (mn.min(y1 - 1), mx)
        } else {
            continue;
        };
        v.push((a - 300_000, b + 300_000));
    }
    v.sort();
    let mut out: Vec<(i64, i64)> = vec![];
    for w in v {
        match out.last_mut() {
            Some(l) if w.0 <= l.1 => l.1 = l.1.max(w.1),
            _ => out.push(w),
        }
    }
    out
}

fn tainted(taint: &[(i64, i64)], sec: i64) -> bool {
    if taint.is_empty() {
        return false;
    }
    let i = taint.partition_point(|w| w.0 <= sec);
    i > 0 && taint[i - 1].1 >= sec
}

/// is the instant on the later side of a fold (its wall-clock reading occurred
/// before, under the previous offset)?
fn later_side_of_fold(z: &rtz::Zone, x: i128) -> bool {
    let s = floor_sec(x);
    let c = s + z.utoff_at(s) as i64;
    let pre = z.preimages(c);
    pre.len() == 2 && s == pre[0].0.max(pre[1].0)
}

fn zoned_neighbourhood() -> Vec<i128> {
    let mut v = vec![0i128];
    for d in [1, NS, 1_800 * NS, H, H + 1_800 * NS, 23 * H, 24 * H, 25 * H, 30 * DAY_NS] {
        v.push(d);
        v.push(-d);
    }
    v
}

fn select_transitions(z: &rtz::Zone, thorough: bool, is_rep: bool) -> Vec<usize> {
    // a bare POSIX zone generates two transitions in every year from -9999 on
    let posix_only = z.n_recorded == 0 && z.version == 0;
    let year_ok = |y: i64| -> bool {
        if thorough && posix_only {
            (1999..=2040).contains(&y) || y == 2100 || y >= 9990 || (-9998..=-9990).contains(&y)
        } else if thorough && is_rep {
            y <= 2200 || y % 100 == 0 || y >= 9990
        } else if thorough {
            y <= 2040 || y == 2100 || y == 9998
        } else {
            (2038..=2045).contains(&y) || (2096..=2104).contains(&y) || (9990..=9998).contains(&y)
        }
    };
    z.changing()
        .into_iter()
        .filter(|&k| {
            let p = &z.pieces[k];
            if p.start <= zones::TS_MIN_SEC || p.start >= zones::TS_MAX_SEC {
                return false;
            }
            p.recorded || year_ok(cal::civil_from_days(p.start.div_euclid(86_400)).0)
        })
        .collect()
}

struct ZVal {
    z: Zoned,
    later: bool,
    /// the value's wall-clock reading lies in the repeated interval of a fold
    /// whose repeated interval crosses midnight (e.g. America/St_Johns 1987:
    /// 00:01 -> 23:01 of the previous civil day)
    fold_x_midnight: bool,
    near_limit: bool,
    piece: usize,
}

fn mk_zoned(r: &Report, t: &Tally, pair: &Pair, taint: &[(i64, i64)], x: i128) -> Option<ZVal> {
    let (ts_min, ts_max) = (conv::ts_min_ns(), conv::ts_max_ns());
    if x < ts_min || x > ts_max {
        return None;
    }
    if tainted(taint, floor_sec(x)) {
        t.z_skip_taint.fetch_add(1, Relaxed);
        return None;
    }
    let tz = &pair.jiff;
    match guard(|| Timestamp::from_nanosecond(x).unwrap().to_zoned(tz.clone())) {
        Err(p) => {
            r.viol("zoned", &format!("Timestamp::to_zoned/{}", panic_sig(&p)), format!("{}:{} {}", pair.origin, pair.name, conv::fmt_ns(x)), p);
            None
        }
        Ok(z) => {
            let mo = pair.model.utoff_at(floor_sec(x));
            if z.offset().seconds() != mo || conv::dt_civil_ns(z.datetime()) != x + mo as i128 * NS {
                // C03's subject
                t.z_skip_offset.fetch_add(1, Relaxed);
                return None;
            }
            let near_limit = x - ts_min < 3 * DAY_NS || ts_max - x < 3 * DAY_NS;
            let k = pair.model.piece_index_at(floor_sec(x));
            let civil = floor_sec(x) + mo as i64;
            let mut fxm = false;
            for j in [k, k + 1] {
                if j == 0 || j >= pair.model.pieces.len() {
                    continue;
                }
                let (o_prev, o_new) = (off(&pair.model, j - 1), off(&pair.model, j));
                let tt = pair.model.pieces[j].start;
                if o_prev > o_new {
                    let (lo, hi) = (tt + o_new, tt + o_prev);
                    if lo.div_euclid(86_400) != (hi - 1).div_euclid(86_400) && civil >= lo && civil < hi {
                        fxm = true;
                    }
                }
            }
            Some(ZVal { z, later: later_side_of_fold(&pair.model, x), fold_x_midnight: fxm, near_limit, piece: k })
        }
    }
}

/// deltas around a transition that moves the wall clock by `jump` (about a
/// day or more): up to four civil days either side, at several times of day,
/// among them the ones that make the wall-clock time of day of a and b equal
/// or one second apart across the jump (offset `jump mod 24 h`): those decide
/// whether Zoned::until starts with a day correction and how many more follow.
fn wide_neighbourhood(jump: i128) -> Vec<i128> {
    let mut v = vec![0i128];
    for d in [1, NS, H, 4 * H, 12 * H] {
        v.push(d);
        v.push(-d);
    }
    let j = jump.abs() % (24 * H);
    let mut es = vec![0, NS, -NS, H, -H, 5 * H, -5 * H];
    for e in [j - NS, j, j + NS, -j - NS, -j, -j + NS] {
        es.push(e);
    }
    for k in 1..=4i128 {
        for &e in &es {
            v.push(k * 24 * H + e);
            v.push(-(k * 24 * H + e));
        }
    }
    v.sort();
    v.dedup();
    v
}

/// every check of the property on one zone: all ordered pairs of the
/// neighbourhood of each selected transition, pairs across consecutive
/// transitions, pairs about a year apart, and the range limits
fn run_zone(r: &Report, t: &Tally, sec: &str, pair: &Pair, thorough: bool, is_rep: bool) {
    let zl: [usize; 10] = [0, 1, 2, 3, 4, 5, 6, 7, 8, 9];
    t.z_zones.fetch_add(1, Relaxed);
    let taint = taint_windows(&pair.model);
    let ck = Ck { r, t, sec, head: format!("{}:{} ", pair.origin, pair.name), zc: Some(ZCtx { model: &pair.model, taint: &taint }) };
    let ks = select_transitions(&pair.model, thorough, is_rep);
    t.z_transitions.fetch_add(ks.len() as u64, Relaxed);
    let one = |a: &ZVal, b: &ZVal| -> (u64, u64) {
        if a.later {
            t.z_a_later.fetch_add(1, Relaxed);
        }
        if b.later {
            t.z_b_later.fetch_add(1, Relaxed);
        }
        let (p0, p1) = (a.piece.min(b.piece), a.piece.max(b.piece));
        let wide = (p0 + 1..=p1).any(|k| (off(&pair.model, k) - off(&pair.model, k - 1)).abs() > 86_400);
        if wide {
            t.z_wide_pairs.fetch_add(1, Relaxed);
        }
        let cls = Cls { a_later: a.later, b_later: b.later, fold_x_midnight: a.fold_x_midnight || b.fold_x_midnight, near_limit: a.near_limit || b.near_limit, wide };
        t.z_pairs.fetch_add(1, Relaxed);
        let mut k = ck.pair_once(&a.z, &b.z, cls);
        for &li in &zl {
            k += ck.pair_unit(&a.z, &b.z, li, cls);
        }
        (k, zl.len() as u64)
    };
    let mk = |xs: &[i128]| -> Vec<ZVal> { xs.iter().filter_map(|&x| mk_zoned(r, t, pair, &taint, x)).collect() };
    let book = |k: u64, n: u64| {
        r.add_states(n);
        r.add_transitions(k);
        r.add_validated(k);
    };
    // all ordered pairs of one list
    let run_set = |xs: &[i128]| {
        let vals = mk(xs);
        let (mut k, mut n) = (0u64, 0u64);
        for a in &vals {
            for b in &vals {
                let (dk, dn) = one(a, b);
                k += dk;
                n += dn;
            }
        }
        book(k, n);
    };
    // all pairs (a, b) and (b, a) with a from one list and b from another
    let run_cross = |xa: &[i128], xb: &[i128]| -> u64 {
        let (va, vb) = (mk(xa), mk(xb));
        let (mut k, mut n, mut pairs) = (0u64, 0u64, 0u64);
        for a in &va {
            for b in &vb {
                for (p, q) in [(a, b), (b, a)] {
                    let (dk, dn) = one(p, q);
                    k += dk;
                    n += dn;
                    pairs += 1;
                }
            }
        }
        book(k, n);
        pairs
    };
    let nb = zoned_neighbourhood();
    let small: Vec<i128> = vec![-25 * H, -H, -NS, 0, 1_800 * NS, H, 25 * H];
    let far: Vec<i128> = [365i128, 366, 365 + 31, 4 * 365 + 1].iter().flat_map(|&d| [d * DAY_NS, -d * DAY_NS, d * DAY_NS + 13 * H, -d * DAY_NS - 13 * H]).collect();
    // rank of each selected transition among the zone's wide ones
    let mut wide_rank = vec![0usize; ks.len()];
    let mut nw = 0;
    for (i, &k) in ks.iter().enumerate() {
        wide_rank[i] = nw;
        if (off(&pair.model, k) - off(&pair.model, k - 1)).abs() >= 20 * 3600 {
            nw += 1;
        }
    }
    (0..ks.len()).into_par_iter().for_each(|i| {
        let k = ks[i];
        let tr = pair.model.pieces[k].start as i128 * NS;
        let xs: Vec<i128> = nb.iter().map(|d| tr + d).collect();
        run_set(&xs);
        // a transition moving the wall clock by 20 h or more: whole civil days vanish or repeat
        let jump = off(&pair.model, k) - off(&pair.model, k - 1);
        // (rule-generated transitions repeat every year: the first few of a zone suffice)
        if jump.abs() >= 20 * 3600 && wide_rank[i] < if thorough { 24 } else { 6 } {
            t.z_ext_nb_transitions.fetch_add(1, Relaxed);
            let xs: Vec<i128> = wide_neighbourhood(jump as i128 * NS).iter().map(|d| tr + d).collect();
            run_set(&xs);
        }
        let sa: Vec<i128> = small.iter().map(|d| tr + d).collect();
        // pairs across this transition and the next selected one (months apart in most zones)
        if i + 1 < ks.len() {
            let tn = pair.model.pieces[ks[i + 1]].start as i128 * NS;
            if tn - tr <= 400 * DAY_NS && tn - tr > 25 * H {
                let sb: Vec<i128> = small.iter().map(|d| tn + d).collect();
                t.z_cross_pairs.fetch_add(run_cross(&sa, &sb), Relaxed);
            }
        }
        // pairs about one year / four years apart (years and months populated)
        let fb: Vec<i128> = far.iter().map(|d| tr + d).collect();
        t.z_far_pairs.fetch_add(run_cross(&sa, &fb), Relaxed);
    });
    // the zone's range limits
    let (ts_min, ts_max) = (conv::ts_min_ns(), conv::ts_max_ns());
    run_set(&[ts_min, ts_min + 1, ts_min + DAY_NS, 0, ts_max - DAY_NS, ts_max - 1, ts_max]);
}

/// The exact nanosecond count of an absolute duration - provided the value is
/// the canonical representation of that count: seconds and sub-second part of
/// one sign, `as_secs`/`subsec_nanos` the quotient and remainder, and equal
/// (`==`, `cmp`) to a duration built afresh from the same count. A
/// denormalised value (24 h -500 ms for 23:59:59.5) has the right `as_nanos()`
/// but prints, compares and hashes wrongly: it is mapped to a poison count so
/// that the exact-distance comparison fails.
fn canon_ns(d: jiff::SignedDuration) -> i128 {
    let n = d.as_nanos();
    let (s, f) = (d.as_secs(), d.subsec_nanos());
    let q = (n / 1_000_000_000, n % 1_000_000_000);
    let fresh = i64::try_from(q.0).ok().map(|qs| jiff::SignedDuration::new(qs, q.1 as i32));
    let ok = s as i128 == q.0 && f as i128 == q.1 && !((s > 0 && f < 0) || (s < 0 && f > 0)) && fresh.map_or(false, |x| x == d && x.cmp(&d) == core::cmp::Ordering::Equal);
    if ok {
        n
    } else {
        // distinct from every real distance (|real| < 2^70)
        (1i128 << 100) + s as i128 * 4 + (f as i128).signum()
    }
}

fn main() {
    let r = Report::from_args("C07");
    let thorough = r.thorough();
    let t = Tally::default();

    // ---------------- Date ----------------
    let dates = date_pool(thorough);
    run_civil(&r, &t, "date", &dates, &[0, 1, 2, 3]);

    // ---------------- Time ----------------
    let mut times = vf::pools::times();
    for (h, m, s, n) in [(0, 0, 0, 999_999_999), (0, 59, 59, 999_999_999), (1, 0, 0, 0), (12, 0, 0, 1), (13, 30, 15, 123_456_789), (23, 59, 59, 999_999_998)] {
        times.push(Time::new(h, m, s, n).unwrap());
    }
    run_civil(&r, &t, "time", &times, &[4, 5, 6, 7, 8, 9]);

    // ---------------- DateTime ----------------
    let mut dts: Vec<DateTime> = vf::pools::datetimes();
    {
        let years: Vec<i64> = if thorough { (2020..=2027).collect() } else { vec![2023, 2024] };
        let tods = [Time::new(0, 0, 0, 0).unwrap(), Time::new(12, 0, 0, 0).unwrap(), Time::new(23, 59, 59, 999_999_999).unwrap()];
        for d in month_edge_dates(&years) {
            for tm in tods {
                let dt = DateTime::from_parts(d, tm);
                if !dts.contains(&dt) {
                    dts.push(dt);
                }
            }
        }
    }
    run_civil(&r, &t, "datetime", &dts, &[0, 1, 2, 3, 4, 5, 6, 7, 8, 9]);

    // ---------------- Timestamp ----------------
    let mut tss = vf::pools::timestamps();
    {
        // Pairs whose distance straddles what a 64-bit nanosecond count can
        // hold (2^63 ns = 9_223_372_036.854775808 s), in (second, nanosecond)
        // components: second differences one below, at and one above that
        // threshold, with fractions at both extremes and of both signs, so that
        // the two sub-second fields differ by anything up to +-1_999_999_998.
        const S63: i64 = 9_223_372_036;
        let fr = [0i32, 1, 145_224_192, 500_000_000, 854_775_807, 854_775_808, 900_000_000, 990_000_000, 999_999_999];
        for sign in [1i64, -1] {
            for s in [0i64, 1, S63 - 1, S63, S63 + 1] {
                for n in fr {
                    if let Ok(ts) = Timestamp::new(sign * s, (sign as i32) * n) {
                        if !tss.contains(&ts) {
                            tss.push(ts);
                        }
                    }
                }
            }
        }
    }
    run_civil(&r, &t, "timestamp", &tss, &[4, 5, 6, 7, 8, 9]);

    // ---------------- Zoned ----------------
    r.section("zoned", || {
        let mut srcs: Vec<ZoneSrc> = zones::rep();
        let n_rep = srcs.len();
        if thorough {
            let have: BTreeSet<String> = srcs.iter().map(|z| z.name.clone()).collect();
            for z in zones::sys(true) {
                if !have.contains(&z.name) {
                    srcs.push(z);
                }
            }
            srcs.extend(zones::synth("slim"));
            srcs.extend(zones::synth("fat"));
        } else {
            srcs.extend(zones::synth("slim"));
        }
        srcs.par_iter().enumerate().for_each(|(zi, src)| {
            let pair = match zones::load_pair(src) {
                Ok(p) => p,
                Err(_) => {
                    t.z_not_loaded.fetch_add(1, Relaxed);
                    return;
                }
            };
            run_zone(&r, &t, "zoned", &pair, thorough, zi < n_rep);
        });
    });

    // ---------------- Zoned: zones at the edge of well-formedness ----------------
    // (hand-built TZif with +-25:59:59 offsets and transitions close together;
    // POSIX zones with ~50 h jumps): is the day-correction search of
    // Zoned::until bounded generously enough?
    r.section("zoned_extreme", || {
        let hz = hand::zones();
        hz.par_iter().for_each(|src| match zones::load_pair(src) {
            Ok(pair) => {
                t.z_hand_zones.fetch_add(1, Relaxed);
                run_zone(&r, &t, "zoned_extreme", &pair, thorough, true);
            }
            Err(e) => r.viol("zoned_extreme", "TimeZone::tzif/hand-built-zone-refused", format!("hand:{}", src.name), e),
        });
        hand::posix().par_iter().for_each(|s| match zones::load_posix_pair(s) {
            Ok(pair) => {
                t.z_posix_zones.fetch_add(1, Relaxed);
                run_zone(&r, &t, "zoned_extreme", &pair, thorough, false);
            }
            Err(_) => {
                t.z_not_loaded.fetch_add(1, Relaxed);
            }
        });
    });

    // ---------------- documented errors, argument forms, different zones ----------------
    forms::run(&r, thorough, &dates, &times, &tss);

    let g = |a: &AtomicU64| a.load(Relaxed);
    r.count("cases(a,b,largest)", g(&t.cases));
    for u in 0..10 {
        r.count(&format!("largest={}", UNAME[u]), g(&t.by_largest[u]));
    }
    r.count("exact_decomposition_checked", g(&t.exact));
    r.count("overshoot_tests", g(&t.overshoot_tests));
    r.count("overshoot_by_overflow", g(&t.overshoot_by_overflow));
    r.count("one_more_unit_not_beyond_b_only_by_day_clamping(accepted)", g(&t.equal_by_clamping));
    r.count("one_more_unit_not_beyond_b_only_by_gap_resolution(accepted)", g(&t.adjusted_accept));
    r.count("calendar_span_with_hours>=24", g(&t.hours_ge_24));
    r.count("zoned_zones", g(&t.z_zones));
    r.count("zoned_zones_not_loadable(see C03)", g(&t.z_not_loaded));
    r.count("zoned_transitions", g(&t.z_transitions));
    r.count("zoned_pairs", g(&t.z_pairs));
    r.count("zoned_pairs_a_on_later_side_of_fold", g(&t.z_a_later));
    r.count("zoned_pairs_b_on_later_side_of_fold", g(&t.z_b_later));
    r.count("zoned_cases_in_class_a-or-b-in-fold-later-side,largest>=day", g(&t.z_known_class_cases));
    r.count("zoned_skipped_offset_disagrees_with_model(C03)", g(&t.z_skip_offset));
    r.count("zoned_skipped_near_rule_transition_outside_its_year(F7)", g(&t.z_skip_taint));
    r.count("zoned_hand_built_zones", g(&t.z_hand_zones));
    r.count("zoned_posix_zones", g(&t.z_posix_zones));
    r.count("zoned_transitions_with_wide_neighbourhood(|jump|>=20h)", g(&t.z_ext_nb_transitions));
    r.count("zoned_pairs_across_a_jump_of_more_than_24h", g(&t.z_wide_pairs));
    r.count("zoned_cases_intermediate_3_or_more_civil_days_from_b", g(&t.z_day_correct_ge3));
    r.count("zoned_cases_intermediate_4_or_more_civil_days_from_b", g(&t.z_day_correct_ge4));
    r.count("zoned_pairs_across_consecutive_transitions", g(&t.z_cross_pairs));
    r.count("zoned_pairs_about_1y_or_4y_apart", g(&t.z_far_pairs));
    r.count("model_addition_compared", g(&t.model_add_checked));
    r.count("model_addition_no_opinion(overlapping transitions)", g(&t.model_add_unknown));
    r.count("model_addition_skipped_near_rule_transition_outside_its_year(F7)", g(&t.model_add_skip_taint));
    r.count("model_addition_zoned_range_disagreement_not_judged", g(&t.model_add_range_only));
    r.count("civil_year_month_span_compared_with_model", g(&t.expected_checked));
    r.count("civil_year_month_span_greedy_and_fieldwise_definitions_differ", g(&t.expected_g_ne_t));
    r.count("civil_year_month_span_jiff_follows_greedy_where_they_differ", g(&t.chose_greedy));
    r.count("civil_year_month_span_jiff_follows_fieldwise", g(&t.chose_temporal));
    r.outcome("b==a", g(&t.zero));
    r.outcome("b>a", g(&t.pos));
    r.outcome("b<a", g(&t.neg));
    r.outcome("error:nanoseconds-do-not-fit(documented)", g(&t.err_ns_overflow));
    r.outcome("error:months-exceed-span-limit(documented)", g(&t.err_month_overflow));
    if r.only_section.is_none() {
        r.require((0..10).all(|u| g(&t.by_largest[u]) > 0), "every largest unit exercised");
        r.require(g(&t.pos) > 0 && g(&t.neg) > 0 && g(&t.zero) > 0, "both directions and equal values occur");
        r.require(g(&t.err_ns_overflow) > 0, "the documented nanosecond overflow error occurs");
        r.require(g(&t.z_a_later) > 0 && g(&t.hours_ge_24) > 0, "fold pairs and 25-hour days occur");
        r.require(g(&t.equal_by_clamping) > 0 && g(&t.overshoot_tests) > 1000, "overshoot tests ran, including month-end clamping");
        r.require(g(&t.model_add_checked) > 100_000, "additions were compared with the reference model");
        r.require(g(&t.expected_checked) > 10_000 && g(&t.expected_g_ne_t) > 0, "year/month spans were compared with the model, including clamped month ends");
        r.require(g(&t.z_hand_zones) >= 20 && g(&t.z_posix_zones) >= 3, "hand-built extreme zones and POSIX zones were loaded");
        r.require(g(&t.z_wide_pairs) > 1000 && g(&t.z_day_correct_ge4) > 0, "pairs across jumps of more than 24 h, some needing all four day corrections");
        r.require(g(&t.z_cross_pairs) > 0 && g(&t.z_far_pairs) > 0, "pairs across consecutive transitions and about a year apart");
    }
    r.sample(json!({"case": "Date a=2024-01-31 b=2024-03-01 largest=month", "expect": "span{mo=1,d=1}: a+1mo = 2024-02-29, +1d = b; a+2mo = 2024-03-31 overshoots; a+1mo+2d = 2024-03-02 overshoots"}));
    r.sample(json!({"case": "Zoned America/New_York a=2024-11-02T01:30-04:00 b=2024-11-03T01:30-05:00 largest=day", "expect": "span{d=1,h=1}: the civil day is 25 hours long"}));
    r.finish();
}
