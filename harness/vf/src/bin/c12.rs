//! C12: Span and SignedDuration are faithful value types with enforced limits.
//!
//! E1. Oracle: a signed 128-bit nanosecond count (SignedDuration) and a
//! (sign, ten magnitudes) record (Span), written here with no reference to
//! jiff's algorithms. Every jiff call goes through `guard`; functions that are
//! documented to panic on overflow must panic exactly when the exact result is
//! unrepresentable, in both build flavours.
//!
//! Sections (coverage audit, round 3): every Span result of every operation
//! is judged by `span::judge_span`: field by field, behaviourally against a
//! span rebuilt from the same integers, and by the *unit-set decode* (every
//! other unit overwritten with 0 through the public setter; what is left must
//! match model-computed expectations), which pins jiff's cached sign and
//! cached set of non-zero units exactly. `span_derived` applies the same
//! consistency judgement to spans returned by span arithmetic, rounding,
//! until/since and parsing. SignedDuration: compound assignment, `Sum`,
//! `mul_f32`/`div_f32`, `system_until`, `From<Offset>`, and boundary partners
//! that put every exact sum/difference/product on and one step beyond
//! MIN/MAX.

use core::hash::{Hash, Hasher};
use jiff::SignedDuration;
use vf::{guard, Report};

#[path = "c12/wide.rs"]
mod wide;
#[path = "c12/sd.rs"]
mod sd;
#[path = "c12/sdfloat.rs"]
mod sdfloat;
#[path = "c12/span.rs"]
mod span;

pub const NS: i128 = 1_000_000_000;
/// Largest / smallest representable SignedDuration in nanoseconds.
pub const HI: i128 = i64::MAX as i128 * NS + 999_999_999;
pub const LO: i128 = i64::MIN as i128 * NS - 999_999_999;

pub fn fits(n: i128) -> bool {
    (LO..=HI).contains(&n)
}

pub fn hash_of<T: Hash>(t: &T) -> u64 {
    let mut s = std::collections::hash_map::DefaultHasher::new();
    t.hash(&mut s);
    s.finish()
}

/// Canonical printable form of an exact nanosecond count.
pub fn ds(n: i128) -> String {
    format!("({}s,{}ns)", n / NS, n % NS)
}

/// Raw accessors only (formatting a malformed value may itself panic).
pub fn show(d: SignedDuration) -> String {
    match guard(|| (d.as_secs(), d.subsec_nanos())) {
        Ok((s, n)) => format!("SignedDuration{{secs: {}, nanos: {}}}", s, n),
        Err(p) => format!("SignedDuration{{accessors panic: {}}}", p),
    }
}

/// Is `d` the canonical value of the exact count `n` (which fits)? Judged by
/// the accessors, by `==`, `cmp` and `Hash` against the reference value built
/// from already-normalised parts.
pub fn judge(d: SignedDuration, n: i128) -> Option<String> {
    debug_assert!(fits(n));
    let (s, ns, an) = (d.as_secs(), d.subsec_nanos(), d.as_nanos());
    let reference = SignedDuration::new((n / NS) as i64, (n % NS) as i32);
    let opposite = (s > 0 && ns < 0) || (s < 0 && ns > 0);
    let eq = d == reference && d.cmp(&reference) == core::cmp::Ordering::Equal && hash_of(&d) == hash_of(&reference);
    if s as i128 == n / NS && ns as i128 == n % NS && an == n && !opposite && eq {
        None
    } else {
        Some(format!(
            "jiff secs={} nanos={} as_nanos={} equal-to-reference={} | model secs={} nanos={} ns={}",
            s,
            ns,
            an,
            eq,
            n / NS,
            n % NS,
            n
        ))
    }
}

/// Set once in `main`: the thorough tier uses the larger pools.
pub static THOROUGH: std::sync::atomic::AtomicBool = std::sync::atomic::AtomicBool::new(false);

/// The `(secs, nanos)` constructor inputs: 28 x 18 = 504 in the quick tier
/// (the 132 of DESIGN.md are a subset); the thorough tier has 58 second
/// values x 26 nanosecond values = 1508.
pub fn ctor_inputs() -> Vec<(i64, i32)> {
    let mut secs = vec![0i64, 1, -1, 2, -2, 1 << 32, -(1 << 32), 1 << 53, i64::MAX - 1, i64::MAX, i64::MIN + 1, i64::MIN];
    let mut nanos = vec![0i32, 1, -1, 999_999_999, -999_999_999, 1_000_000_000, -1_000_000_000, 1_999_999_999, -1_999_999_999, i32::MAX, i32::MIN];
    secs.extend([3, -3, 59, -60, 3_600, -86_400, 1 << 31, -(1 << 31), (1 << 53) + 1, -(1 << 53), i64::MAX / 2, i64::MIN / 2, i64::MAX - 2, i64::MIN + 2, 631_107_417_600, -631_107_417_601]);
    nanos.extend([2, -2, 500_000_000, -500_000_000, 999_999_998, 1_000_000_001, -1_000_000_001]);
    // the nanosecond count crossing 2^63 (i64::MAX / 1e9 seconds, remainder
    // 854_775_807): a boundary for anything computed in 64-bit nanoseconds
    secs.extend([9_223_372_035, 9_223_372_036, 9_223_372_037, -9_223_372_035, -9_223_372_036, -9_223_372_037]);
    nanos.extend([854_775_807, 854_775_808, -854_775_808, -854_775_809]);
    if THOROUGH.load(std::sync::atomic::Ordering::Relaxed) {
        secs.extend([
            7,
            -7,
            999,
            -1_000,
            999_999_999,
            -1_000_000_000,
            1_000_000_001,
            i32::MAX as i64,
            i32::MIN as i64,
            i32::MAX as i64 + 1,
            i32::MIN as i64 - 1,
            (1 << 24) + 1,
            -(1 << 24) - 1,
            1 << 62,
            -(1 << 62),
            (1 << 62) - 1,
            i64::MAX / 3,
            i64::MIN / 3,
            i64::MAX / 7,
            i64::MIN / 7,
            i64::MAX / 1_000,
            i64::MIN / 1_000,
            i64::MAX / 3_600,
            i64::MIN / 60,
            i64::MAX / 2 + 1,
            i64::MIN / 2 - 1,
            i64::MAX - 1_024,
            i64::MIN + 1_024,
            i64::MAX / i32::MAX as i64,
            i64::MIN / i32::MAX as i64,
        ]);
        nanos.extend([3, -3, 999, -1_000, 1_000_000, -999_999, 123_456_789, -987_654_321]);
    }
    let mut v = vec![];
    for &s in &secs {
        for &n in &nanos {
            v.push((s, n));
        }
    }
    v
}

/// The value pool: every constructor input that denotes a representable
/// duration, as (exact nanoseconds, jiff value). Built through
/// `SignedDuration::new`, which the `new` section validates first.
pub fn pool() -> Vec<(i128, SignedDuration)> {
    let mut out: Vec<(i128, SignedDuration)> = vec![];
    for (s, n) in ctor_inputs() {
        let exact = s as i128 * NS + n as i128;
        if !fits(exact) {
            continue;
        }
        if let Ok(d) = guard(|| SignedDuration::new(s, n)) {
            out.push((exact, d));
        }
    }
    out
}

fn main() {
    let r = Report::from_args("C12");
    THOROUGH.store(r.thorough(), std::sync::atomic::Ordering::Relaxed);
    wide::selftest();
    macro_rules! sec {
        ($name:expr, $f:expr) => {
            r.section($name, || {
                // every jiff call inside is guarded; a panic here is a harness bug
                if let Err(p) = guard(|| $f(&r)) {
                    eprintln!("ENGINE-FAILURE: harness panic in section {}: {}", $name, p);
                    std::process::exit(2);
                }
            });
        };
    }
    sec!("sd_new", sd::new_and_views);
    sec!("sd_pairs", sd::pairs);
    sec!("sd_scalar", sd::scalar);
    sec!("sd_units", sd::units);
    sec!("sd_unary", sd::unary);
    sec!("sd_std", sd::std_conv);
    sec!("sd_system_until", sd::system_until);
    sec!("sd_from_offset", sd::from_offset);
    sec!("sd_float_ctor", sdfloat::ctor);
    sec!("sd_float_view", sdfloat::views);
    sec!("sd_float_muldiv", sdfloat::muldiv);
    sec!("sd_float_muldiv32", sdfloat::muldiv32);
    sec!("sd_float_ratio", sdfloat::ratio);
    sec!("span_units", span::units);
    sec!("span_overwrite", span::overwrite);
    sec!("span_orders", span::orders);
    sec!("span_mul", span::mul);
    sec!("span_fieldwise", span::fieldwise);
    sec!("span_to_duration", span::to_duration);
    sec!("span_from_duration", span::from_duration);
    sec!("span_tospan", span::tospan);
    sec!("span_unit_enum", span::unit_enum);
    sec!("span_derived", span::derived);
    r.outcome("span_results_judged(fields + behaviour + unit-set decode)", span::JUDGED.load(std::sync::atomic::Ordering::Relaxed));
    r.outcome("span_unit_bookkeeping_bits_decoded", span::DECODED_BITS.load(std::sync::atomic::Ordering::Relaxed));
    let ec: Vec<u64> = span::EXPECT_CLASSES.iter().map(|c| c.load(std::sync::atomic::Ordering::Relaxed)).collect();
    for (k, name) in ["datetime+span in range", "datetime+span out of range", "span+duration balanced", "span+duration refused", "total(ns) given", "total(ns) refused"].iter().enumerate() {
        r.outcome(&format!("span_decode_model_expectation: {}", name), ec[k]);
    }
    r.require(ec.iter().all(|&c| c > 0), "the unit-set decode sees every model outcome class");
    r.require(span::DECODED_BITS.load(std::sync::atomic::Ordering::Relaxed) > 0, "span results are compared behaviourally");
    r.finish();
}
